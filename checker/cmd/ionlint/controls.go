package main

import (
	"encoding/json"
	"fmt"
	"os"
	"os/exec"
	"path/filepath"
	"sort"
	"strings"
	"sync"

	"verif/checker/internal/effects"
	"verif/checker/internal/load"
	"verif/checker/internal/report"
	"verif/checker/internal/rules"
)

// A Mutant is an in-memory edit of one file of /repo used to validate a rule:
// kind "break" must make the rule fire on the named construct, kind
// "refactor" (behaviour-preserving) must leave it silent. Mutants are applied
// as an overlay at load time; /repo is never written. A mutant whose Old text
// no longer occurs exactly once in the current file is skipped (the tree was
// edited), never an error.
type Mutant struct {
	Name   string   `json:"name"`
	Rule   string   `json:"rule"`
	Props  []string `json:"props"`
	Kind   string   `json:"kind"`
	File   string   `json:"file"`
	Old    string   `json:"old"`
	New    string   `json:"new"`
	More   []Edit   `json:"more,omitempty"` // further replacements in the same file (all must apply)
	Expect string   `json:"expect"`         // substring of a new violation key (break)
	Quick  bool     `json:"quick"`
	Why    string   `json:"why,omitempty"`
}

// Edit is one more old/new replacement of a Mutant.
type Edit struct {
	Old string `json:"old"`
	New string `json:"new"`
}

func loadMutants() ([]Mutant, error) {
	dir := filepath.Join(verifDir, "checker", "controls")
	files, _ := filepath.Glob(filepath.Join(dir, "*.json"))
	sort.Strings(files)
	var all []Mutant
	for _, f := range files {
		b, err := os.ReadFile(f)
		if err != nil {
			return nil, err
		}
		var ms []Mutant
		if err := json.Unmarshal(b, &ms); err != nil {
			return nil, fmt.Errorf("%s: %v", f, err)
		}
		all = append(all, ms...)
	}
	return all, nil
}

type mutantOut struct {
	Status string   `json:"status"` // ok | skipped | error
	Detail string   `json:"detail,omitempty"`
	Keys   []string `json:"keys"`
}

// runMutant is the subprocess entry: analyse the mutated program with the
// rule(s) of the property and print the violation keys as JSON.
func runMutant(prop, name string) int {
	out := mutantOut{Status: "ok"}
	emit := func() int {
		b, _ := json.Marshal(out)
		fmt.Println(string(b))
		return 0
	}
	ms, err := loadMutants()
	if err != nil {
		out.Status, out.Detail = "error", err.Error()
		return emit()
	}
	var m *Mutant
	for i := range ms {
		if ms[i].Name == name {
			m = &ms[i]
		}
	}
	if m == nil {
		out.Status, out.Detail = "error", "no such mutant"
		return emit()
	}
	overlay := map[string][]byte{}
	if m.File != "" {
		abs := filepath.Join(load.RepoDir(), m.File)
		src, err := os.ReadFile(abs)
		if err != nil {
			out.Status, out.Detail = "skipped", err.Error()
			return emit()
		}
		if n := strings.Count(string(src), m.Old); n != 1 {
			out.Status, out.Detail = "skipped", fmt.Sprintf("anchor text occurs %d times in %s (tree was edited)", n, m.File)
			return emit()
		}
		text := strings.Replace(string(src), m.Old, m.New, 1)
		for _, e := range m.More {
			if n := strings.Count(text, e.Old); n != 1 {
				out.Status, out.Detail = "skipped", fmt.Sprintf("anchor text of an additional edit occurs %d times in %s (tree was edited)", n, m.File)
				return emit()
			}
			text = strings.Replace(text, e.Old, e.New, 1)
		}
		overlay[abs] = []byte(text)
	}
	prog, err := load.Load(load.Options{Overlay: overlay})
	if err != nil {
		// a mutant that no longer compiles on the edited tree is skipped, not an error
		out.Status, out.Detail = "skipped", "mutant does not type-check on this tree: "+err.Error()
		return emit()
	}
	p := registry[prop]
	if p == nil {
		out.Status, out.Detail = "error", "unknown property"
		return emit()
	}
	effects.Of(prog) // same order as runProperty
	rules.InstallPredicates(prog)
	defer func() {
		if r := recover(); r != nil {
			out.Status, out.Detail = "error", fmt.Sprint("panic: ", r)
			emit()
			os.Exit(0)
		}
	}()
	for _, r := range p.Rules {
		if m.Rule != "" && r.ID != m.Rule {
			continue
		}
		res := runWithRoles(r, prog)
		res.DedupKeys()
		for _, o := range res.Obligations {
			if o.Status == report.Violation || o.Status == report.Undecided {
				out.Keys = append(out.Keys, o.Key)
			}
		}
	}
	sort.Strings(out.Keys)
	return emit()
}

// runControls runs the mutants registered for the property (quick tier: the
// ones marked quick; thorough: all) in parallel subprocesses and classifies
// them against the baseline violation keys of this run.
func runControlsFor(id, tier string, baseline map[string]bool) []report.Control {
	ms, err := loadMutants()
	if err != nil {
		return []report.Control{{Name: "load", Kind: "break", Outcome: "error", Detail: err.Error()}}
	}
	var sel []Mutant
	for _, m := range ms {
		has := false
		for _, p := range m.Props {
			if p == id {
				has = true
			}
		}
		if !has || (tier != "thorough" && !m.Quick) {
			continue
		}
		// the rule must belong to the property
		ok := false
		for _, r := range registry[id].Rules {
			if r.ID == m.Rule {
				ok = true
			}
		}
		if ok {
			sel = append(sel, m)
		}
	}
	exe, err := os.Executable()
	if err != nil {
		return []report.Control{{Name: "exe", Kind: "break", Outcome: "error", Detail: err.Error()}}
	}
	res := make([]report.Control, len(sel))
	sem := make(chan struct{}, 8)
	var wg sync.WaitGroup
	for i, m := range sel {
		wg.Add(1)
		go func(i int, m Mutant) {
			defer wg.Done()
			sem <- struct{}{}
			defer func() { <-sem }()
			c := report.Control{Name: m.Name, Rule: m.Rule, Kind: m.Kind}
			cmd := exec.Command(exe, "-property", id, "-mutant", m.Name)
			cmd.Env = os.Environ()
			b, err := cmd.Output()
			var mo mutantOut
			if err != nil || json.Unmarshal(lastLine(b), &mo) != nil {
				c.Outcome, c.Detail = "error", fmt.Sprintf("subprocess failed: %v %s", err, strings.TrimSpace(string(b)))
				res[i] = c
				return
			}
			switch mo.Status {
			case "skipped":
				c.Outcome, c.Detail = "skipped", mo.Detail
			case "error":
				c.Outcome, c.Detail = "error", mo.Detail
			default:
				var fresh []string
				for _, k := range mo.Keys {
					if !baseline[k] {
						fresh = append(fresh, k)
					}
				}
				hit := ""
				for _, k := range fresh {
					if m.Kind != "break" || containsAny(k, m.Expect) {
						hit = k
						break
					}
				}
				if hit != "" {
					c.Outcome, c.Detail = "fired", hit
				} else {
					c.Outcome = "silent"
					if m.Kind == "break" {
						c.Detail = fmt.Sprintf("expected a new violation key containing %q; new keys: %v", m.Expect, fresh)
					}
				}
			}
			res[i] = c
		}(i, m)
	}
	wg.Wait()
	return res
}

func lastLine(b []byte) []byte {
	s := strings.TrimSpace(string(b))
	if i := strings.LastIndex(s, "\n"); i >= 0 {
		s = s[i+1:]
	}
	return []byte(s)
}

// containsAny: expect may list alternatives separated by "||" (one mutant can
// surface under different obligations depending on which side of a rule the
// property keeps).
func containsAny(k, expect string) bool {
	for _, e := range strings.Split(expect, "||") {
		if strings.Contains(k, e) {
			return true
		}
	}
	return false
}
