package main

import (
	"fmt"
	"sort"

	"verif/checker/internal/effects"
	"verif/checker/internal/load"
	"verif/checker/internal/report"
	"verif/checker/internal/rules"
)

// runDev runs one rule of one property (or a rule under development that is
// registered in devRules) and prints every obligation. Nothing is written.
func runDev(id string) int {
	var rule *Rule
	if r, ok := devRules[id]; ok {
		rule = &r
	}
	if rule == nil {
		// any rule registered with a property (possibly an obligation-filtered view of it)
		for _, pid := range sortedPropertyIDs() {
			for _, r := range registry[pid].Rules {
				if r.ID == id && rule == nil {
					r := r
					rule = &r
				}
			}
		}
	}
	if rule == nil {
		fmt.Println("unknown dev rule", id)
		return 2
	}
	prog, err := load.Load(load.Options{})
	if err != nil {
		fmt.Println("CHECKER-ERROR:", err)
		return 2
	}
	effects.Of(prog)
	rules.InstallPredicates(prog)
	res := runWithRoles(*rule, prog)
	res.DedupKeys()
	for _, o := range res.Obligations {
		fmt.Printf("%-11s %-26s %-38s %s | %s %s\n", o.Status, o.Pos, o.Func, o.What, o.By, o.Detail)
	}
	for _, e := range res.Errors {
		fmt.Println("ERROR", e)
	}
	for _, e := range res.Info {
		fmt.Println("INFO", e)
	}
	fmt.Printf("%s: instances=%d discharged=%d violations=%d undecided=%d min=%d\n", res.ID, len(res.Obligations), res.Count(report.Discharged), res.Count(report.Violation), res.Count(report.Undecided), res.MinInstances)
	return 0
}

func sortedPropertyIDs() []string {
	var ids []string
	for id := range registry {
		ids = append(ids, id)
	}
	sort.Strings(ids)
	return ids
}
