package main

import (
	"bufio"
	"encoding/json"
	"os"
	"path/filepath"
	"sort"
	"strings"
)

// writeManifest regenerates MANIFEST.json from the registry so that the
// manifest, the rule lists and the evidence text cannot drift apart.
func writeManifest() error {
	ids, titles, err := propertyList()
	if err != nil {
		return err
	}
	type level struct {
		Category  string `json:"category"`
		Text      string `json:"text"`
		DesignRef string `json:"design_ref,omitempty"`
	}
	type check struct {
		PropertyID string `json:"property_id"`
		Quick      string `json:"quick_cmd"`
		Thorough   string `json:"thorough_cmd"`
		Evidence   string `json:"evidence_file"`
		Replay     string `json:"replay_cmd_template"`
		Engine     string `json:"engine"`
		Level      level  `json:"level_claimed"`
		Note       string `json:"level_note"`
		Technique  string `json:"technique"`
	}
	type na struct {
		PropertyID string `json:"property_id"`
		Reason     string `json:"reason"`
	}
	var checks []check
	var nas []na
	var served []string
	for _, id := range ids {
		p := registry[id]
		if p == nil || len(p.Rules) == 0 {
			reason := "no sound static rule built for this property in this revision"
			if p != nil && p.NAReason != "" {
				reason = p.NAReason
			}
			nas = append(nas, na{id, reason})
			continue
		}
		served = append(served, id)
		var rn []string
		for _, r := range p.Rules {
			rn = append(rn, r.ID)
		}
		checks = append(checks, check{
			PropertyID: id,
			Quick:      "bin/ionlint -property " + id + " -tier quick",
			Thorough:   "bin/ionlint -property " + id + " -tier thorough",
			Evidence:   "/verif/evidence/" + id + ".json",
			Replay:     "cat {path}",
			Engine:     "ionlint",
			Level: level{
				Category:  "other",
				Text:      "Static analysis decides structural necessary conditions of \"" + titles[id] + "\" for every site in /repo's current source, not the behaviour itself. Decided: " + p.Decided + " Why necessary: " + p.Necessary + " Rules: " + strings.Join(rn, ", ") + ".",
				DesignRef: p.DesignRef,
			},
			Note:      "Not decided: " + p.NotDecided + ". Trusted: go/types, go/ssa, VTA call graph, stdlib contracts, embedded Ion 1.0 spec tables. A pass means every enumerated site satisfies the clause; it does not prove the behavioural property.",
			Technique: p.Technique,
		})
	}
	sort.Strings(served)
	m := map[string]interface{}{
		"version":   1,
		"setup_cmd": "sh /verif/setup.sh",
		"hooks": map[string]interface{}{
			"guard":            "verif",
			"enable":           "none needed: the checks are static and read /repo's source as it is (no hooks, no instrumentation)",
			"baseline_off_cmd": "cd /repo && GOFLAGS=-mod=mod GOPROXY=off GOSUMDB=off go test -json -vet=off -count=1 ./...",
			"source_commits":   []string{},
			"add_only":         true,
		},
		"engines": []map[string]interface{}{{
			"name":              "ionlint",
			"path":              "/verif/checker",
			"serves_properties": served,
			"kind_free_text":    "repository-specific static analyser: go/packages + go/types + go/ssa + VTA call graph; rule engines ERR/NIL/NUM/TAB/ORD/OWN; in-memory mutant controls",
		}},
		"checks":         checks,
		"not_applicable": nas,
		"notes":          "All checks are static (no ion-go code is executed). Known genuine defects that are recorded rather than repaired are listed in /verif/known_findings.json; repaired ones are logged there as fixed. See DESIGN.md.",
	}
	if nas == nil {
		m["not_applicable"] = []na{}
	}
	b, err := json.MarshalIndent(m, "", " ")
	if err != nil {
		return err
	}
	return os.WriteFile(filepath.Join(verifDir, "MANIFEST.json"), append(b, '\n'), 0o644)
}

func propertyList() ([]string, map[string]string, error) {
	f, err := os.Open(filepath.Join(verifDir, "properties.jsonl"))
	if err != nil {
		return nil, nil, err
	}
	defer f.Close()
	var ids []string
	titles := map[string]string{}
	sc := bufio.NewScanner(f)
	sc.Buffer(make([]byte, 1<<20), 1<<24)
	for sc.Scan() {
		line := strings.TrimSpace(sc.Text())
		if line == "" {
			continue
		}
		var rec struct {
			ID    string `json:"id"`
			Title string `json:"title"`
		}
		if err := json.Unmarshal([]byte(line), &rec); err != nil {
			return nil, nil, err
		}
		ids = append(ids, rec.ID)
		titles[rec.ID] = rec.Title
	}
	return ids, titles, sc.Err()
}
