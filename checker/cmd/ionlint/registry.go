package main

import (
	"verif/checker/internal/load"
	"verif/checker/internal/report"
)

// A Rule is one structural rule bound to a scope.
type Rule struct {
	ID  string
	Run func(p *load.Program) *report.RuleResult
}

// A Property is the registry entry of one given property.
type Property struct {
	Decided     string // clauses decided (goes to coverage.explanation and level text)
	NotDecided  string // what is not decided (level_note)
	Necessary   string // why the clauses are necessary conditions
	Technique   string
	DesignRef   string
	Assumptions []string
	Rules       []Rule
	NAReason    string // when Rules is empty: reason for not_applicable
}

var trustedBase = []string{
	"go/types and go/ssa (golang.org/x/tools v0.29.0) model the program faithfully",
	"VTA call graph is sound for the module's interface types (reflection-dispatched user Marshalers are outside the module)",
	"contracts of bufio, io.ReadFull, math/big, reflect, time as documented",
	"the Ion 1.0 specification tables embedded in the checker (type codes, escapes, null names, keywords)",
}
