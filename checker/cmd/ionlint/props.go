package main

import (
	"verif/checker/internal/rules"
)

var registry = map[string]*Property{
	"C09": {
		Title:      "ord scratch",
		Decided:    "ORD",
		NotDecided: "x",
		Technique:  "CFG must/may dataflow",
		DesignRef:  "DESIGN.md §3.5",
		Rules: []Rule{
			{"ORD-VALUE", rules.OrdValue},
			{"ORD-LSTFIRST", rules.OrdLstFirst},
			{"ORD-REARM", rules.OrdRearm},
			{"ORD-POPGUARD", rules.OrdPopGuard},
			{"ORD-BVMRESET", rules.OrdBVMReset},
			{"ORD-LSTHIDE", rules.OrdLstHide},
			{"ORD-EOFDEPTH", rules.OrdEOFDepth},
			{"ORD-DANGLE", rules.OrdDangle},
			{"ORD-SORTMAP", rules.OrdSortMap},
			{"ORD-FIRSTWINS", rules.OrdFirstWins},
			{"ORD-SIDBOUND", rules.OrdSidBound},
			{"ORD-NOINPUT", rules.OrdNoInput},
		},
	},
	"C03": {
		Title:      "binary reader",
		Decided:    "TAB",
		NotDecided: "x",
		Technique:  "constant-table extraction from SSA (enum value-set dataflow) compared with embedded Ion 1.0 tables",
		DesignRef:  "DESIGN.md §3.4, §4 C03",
		Rules: []Rule{
			{"TAB-TYPECODE", rules.TabTypecode},
			{"TAB-NIBBLE", rules.TabNibble},
			{"TAB-NULLKW", rules.TabNullKW},
			{"TAB-ESCAPE", rules.TabEscape},
			{"TAB-KEYWORD", rules.TabKeyword},
			{"TAB-LSTFIELDS", rules.TabLstFields},
			{"TAB-TOKEN", rules.TabToken},
		},
	},
	"C18": {
		Title:      "Independent readers, writers and marshal calls can run concurrently",
		Decided:    "OWN",
		NotDecided: "x",
		Technique:  "SSA store/alias roots + call-graph effect summaries",
		DesignRef:  "DESIGN.md §3.6, §4 C18",
		Rules: []Rule{
			{"OWN-IMMUT", rules.OwnImmut(false)},
			{"OWN-GLOBAL", rules.OwnGlobal(false)},
			{"OWN-ESCAPE", rules.OwnEscape},
			{"OWN-NONDET", rules.OwnNondet},
		},
	},
	"C06": {
		Title:      "No input can crash, hang or exhaust memory",
		Decided:    "NIL",
		NotDecided: "bounds",
		Technique:  "SSA must-dataflow with inferred preconditions",
		DesignRef:  "DESIGN.md §3.2, §4 C06",
		Rules: []Rule{
			{"NIL-ACC", rules.NilAcc(rules.Scope{Name: "all"}, 1)},
			{"NIL-ARG", rules.NilArg(rules.Scope{Name: "all"}, 0)},
			{"NIL-FIELD", rules.NilField(rules.Scope{Name: "all"}, 1)},
		},
	},
	"C07": {
		Title:      "Malformed input ends in an error, and the error is permanent",
		Decided:    "ERR-ABSORB-R, ERR-STICKY-R",
		NotDecided: "that each grammar violation in the catalogue is detected",
		Technique:  "SSA must-dataflow of branch facts, path search to exits, effect summaries",
		DesignRef:  "DESIGN.md §3.1, §4 C07",
		Rules: []Rule{
			{"ERR-ABSORB-R", rules.ErrAbsorbR},
			{"ERR-STICKY-R", rules.ErrStickyR},
			{"REFUSE-PURE", rules.RefusePure},
			{"ERR-DROP", rules.ErrDrop(rules.Scope{Name: "all"}, nil, 1)},
			{"ERR-SWAP", rules.ErrSwap(rules.Scope{Name: "all"}, nil, 1)},
		},
	},
	"C12": {
		Title:      "Any Writer call sequence ends in a correct stream or an error",
		Decided:    "For all 24 error-returning Writer methods on each writer implementation: the sticky error is tested before any effect on the writer (ERR-GUARD-W) and every returned error is the sticky error (ERR-STICKY-W).",
		NotDecided: "validity of the emitted stream (see C04), nil pointer arguments",
		Technique:  "SSA must-dataflow of branch facts + effect summaries over the VTA call graph",
		DesignRef:  "DESIGN.md §3.1, §4 C12",
		Rules: []Rule{
			{"ERR-GUARD-W", rules.ErrGuardW},
			{"ERR-STICKY-W", rules.ErrStickyW},
		},
	},
}
