package main

import (
	"verif/checker/internal/rules"
)

var registry = map[string]*Property{
	"C12": {
		Title:      "Any Writer call sequence ends in a correct stream or an error",
		Decided:    "For all 24 error-returning Writer methods on each writer implementation: the sticky error is tested before any effect on the writer (ERR-GUARD-W) and every returned error is the sticky error (ERR-STICKY-W).",
		NotDecided: "validity of the emitted stream (see C04), nil pointer arguments",
		Technique:  "SSA must-dataflow of branch facts + effect summaries over the VTA call graph",
		DesignRef:  "DESIGN.md §3.1, §4 C12",
		Rules: []Rule{
			{"ERR-GUARD-W", rules.ErrGuardW},
			{"ERR-STICKY-W", rules.ErrStickyW},
		},
	},
}
