package main

import (
	"strings"

	"verif/checker/internal/load"
	"verif/checker/internal/report"
	"verif/checker/internal/rules"
)

// only restricts a rule to the obligations whose construct (What) or function
// satisfies keep; unresolved-anchor obligations are always kept. min is the
// number of instances confirmed by hand for the restricted rule.
func only(r Rule, min int, keep func(o report.Obligation) bool) Rule {
	return Rule{ID: r.ID, Run: func(p *load.Program) *report.RuleResult {
		res := r.Run(p)
		var kept []report.Obligation
		for _, o := range res.Obligations {
			if strings.Contains(o.Key, "|anchor|") || strings.HasPrefix(o.What, "anchor ") || keep(o) {
				kept = append(kept, o)
			}
		}
		res.Obligations = kept
		res.MinInstances = min
		return res
	}}
}

func whatHas(subs ...string) func(o report.Obligation) bool {
	return func(o report.Obligation) bool {
		for _, s := range subs {
			if strings.Contains(o.What, s) {
				return true
			}
		}
		return false
	}
}

func whatLacks(subs ...string) func(o report.Obligation) bool {
	f := whatHas(subs...)
	return func(o report.Obligation) bool { return !f(o) }
}

func posLacks(subs ...string) func(o report.Obligation) bool {
	return func(o report.Obligation) bool {
		for _, s := range subs {
			if strings.Contains(o.Pos, s) {
				return false
			}
		}
		return true
	}
}

func funcHas(subs ...string) func(o report.Obligation) bool {
	return func(o report.Obligation) bool {
		for _, s := range subs {
			if strings.Contains(o.Func, s) {
				return true
			}
		}
		return false
	}
}

var (
	rTypecode  = Rule{"TAB-TYPECODE", rules.TabTypecode}
	rNibble    = Rule{"TAB-NIBBLE", rules.TabNibble}
	rNullKW    = Rule{"TAB-NULLKW", rules.TabNullKW}
	rEscape    = Rule{"TAB-ESCAPE", rules.TabEscape}
	rKeyword   = Rule{"TAB-KEYWORD", rules.TabKeyword}
	rLstFields = Rule{"TAB-LSTFIELDS", rules.TabLstFields}
	rToken     = Rule{"TAB-TOKEN", rules.TabToken}

	rOrdValue     = Rule{"ORD-VALUE", rules.OrdValue}
	rOrdLstFirst  = Rule{"ORD-LSTFIRST", rules.OrdLstFirst}
	rOrdRearm     = Rule{"ORD-REARM", rules.OrdRearm}
	rOrdPopGuard  = Rule{"ORD-POPGUARD", rules.OrdPopGuard}
	rOrdBVMReset  = Rule{"ORD-BVMRESET", rules.OrdBVMReset}
	rOrdLstHide   = Rule{"ORD-LSTHIDE", rules.OrdLstHide}
	rOrdEOFDepth  = Rule{"ORD-EOFDEPTH", rules.OrdEOFDepth}
	rOrdDangle    = Rule{"ORD-DANGLE", rules.OrdDangle}
	rOrdSortMap   = Rule{"ORD-SORTMAP", rules.OrdSortMap}
	rOrdFirstWins = Rule{"ORD-FIRSTWINS", rules.OrdFirstWins}
	rOrdSidBound  = Rule{"ORD-SIDBOUND", rules.OrdSidBound}
	rOrdNoInput   = Rule{"ORD-NOINPUT", rules.OrdNoInput}

	rOwnImmut  = Rule{"OWN-IMMUT", rules.OwnImmut(false)}
	rOwnGlobal = Rule{"OWN-GLOBAL", rules.OwnGlobal(false)}
	rOwnEscape = Rule{"OWN-ESCAPE", rules.OwnEscape}
	rOwnNondet = Rule{"OWN-NONDET", rules.OwnNondet}

	rGuardW  = Rule{"ERR-GUARD-W", rules.ErrGuardW}
	rStickyW = Rule{"ERR-STICKY-W", rules.ErrStickyW}
	rAbsorbR = Rule{"ERR-ABSORB-R", rules.ErrAbsorbR}
	rStickyR = Rule{"ERR-STICKY-R", rules.ErrStickyR}
	rRefuse  = Rule{"REFUSE-PURE", rules.RefusePure}
)

const ssaTech = "SSA must-dataflow of branch facts, path search to exits and effect summaries over the VTA call graph"
const tabTech = "constant-table extraction from SSA (enum value-set dataflow over switch/if dispatch) compared with the Ion 1.0 tables embedded in the checker and with the sibling implementation's table"

var registry = map[string]*Property{
	"C01": {
		Decided:    "The finite tables of the writers and the readers are inverse of each other: every single-letter escape the text writer spells is mapped back to the same byte by the text reader and the needs-escaping tests cover delimiter, backslash and control characters (TAB-ESCAPE, writer obligations); typed-null spellings written = names the reader dispatches on = the 13 Ion type names (TAB-NULLKW); identifier-shaped text with a non-symbol meaning is quoted when written as a symbol (TAB-KEYWORD); binary type codes, per-code value types, float sizes and typed-null bytes equal the Ion 1.0 tables (TAB-TYPECODE); every value the writers open is closed on each success path, annotation wrappers included (ORD-VALUE); in Finish the version marker precedes the symbol table, which precedes the buffered values (ORD-LSTFIRST).",
		Necessary:  "A byte escaped as \\X that the reader maps elsewhere, a typed null spelled with another type's name, a reserved word written unquoted, a type code decoded as another type, an unclosed 0xE0 wrapper or a table emitted after its values each change or lose a value named in the property's quantifier.",
		NotDecided: "payload encodings (ints, floats, decimals, timestamps), xLen = len(appendX), float/decimal/timestamp formatting, symbol text versus $n reinterpretation in the binary writer (finding F5, not decided by any rule)",
		Technique:  tabTech + "; CFG/SSA pairing for ORD",
		DesignRef:  "DESIGN.md §3.4, §3.5, §4 C01",
		Rules: []Rule{
			only(rEscape, 18, whatHas("writer:")), rNullKW, rKeyword, rTypecode, rOrdValue, rOrdLstFirst,
		},
	},
	"C02": {
		Decided:    "The text reader's finite tables equal the Ion 1.0 text tables: every escape with its code point and digit count, \\u and \\U refused inside clobs (TAB-ESCAPE, reader obligations); the 13 null.<type> names (TAB-NULLKW, reader obligations); every token the tokenizer can hand out at the start of a value has an arm in the reader's value dispatch (TAB-TOKEN, value arms).",
		Necessary:  "An escape decoded to another code point, a null.<type> name mapped to another type, or a value-start token without a dispatch arm makes a legal spelling decode to another value or to an error.",
		NotDecided: "number, string-segmentation, comment/whitespace and timestamp grammar (behaviour of loops over characters); $n handling",
		Technique:  tabTech,
		DesignRef:  "DESIGN.md §3.4, §4 C02",
		Rules: []Rule{
			only(rEscape, 18, whatHas("reader:")), only(rNullKW, 13, whatHas("reader:")), only(rToken, 14, whatHas("value arm")),
		},
	},
	"C03": {
		Decided:    "The binary reader's type-code table, the value type stored for each type code and the accepted float sizes equal the Ion 1.0 tables (TAB-TYPECODE, reader obligations); validateAnnotatedValue special-cases exactly the type codes whose low nibble bitstream.Next does not read as a body length, so a wrapper around true/false or a sorted struct is measured correctly (TAB-NIBBLE).",
		Necessary:  "A type code decoded as another type, a refused float size, or a wrapper length check that misreads a bool's nibble (finding F13, fixed) rejects or misdecodes a valid encoding.",
		NotDecided: "VarUInt/VarInt arithmetic, padding, NOP handling, struct ordering, lengths (behavioural); TAB-BUDGET of the design was not built",
		Technique:  tabTech,
		DesignRef:  "DESIGN.md §3.4, §4 C03",
		Rules: []Rule{
			only(rTypecode, 30, whatLacks("binaryNulls[")), rNibble,
		},
	},
	"C04": {
		Decided:    "Binary typed-null bytes written equal the Ion 1.0 table (TAB-TYPECODE, writer obligations); text typed-null spellings are the 13 Ion type names (TAB-NULLKW, writer obligations); every single-letter escape the text writer spells denotes the written byte in the Ion 1.0 escape table, and the needs-escaping tests of strings, symbols and clobs cover delimiter, backslash, control characters and non-ASCII for clobs (TAB-ESCAPE, writer-vs-spec and predicate obligations); keywords are quoted when written as symbols (TAB-KEYWORD); every opened value/container/annotation wrapper is closed on each success path (ORD-VALUE); version marker before symbol table before values, fixed table before the first value (ORD-LSTFIRST).",
		Necessary:  "Each clause is checked against the specification embedded in the checker, not against this repository's reader: a wrong null byte or name, a raw delimiter, an unquoted keyword, an unclosed wrapper (declared length never patched) or a table after its values is ill-formed or denotes another value under any conforming decoder.",
		NotDecided: "each codec's own length function (TAB-LENPAY not built), negative symbol IDs (finding F25, NUM-NARROW not built), separators and number formatting",
		Technique:  tabTech + "; CFG/SSA pairing for ORD",
		DesignRef:  "DESIGN.md §3.4, §3.5, §4 C04",
		Rules: []Rule{
			only(rTypecode, 13, whatHas("binaryNulls[")), only(rNullKW, 13, whatHas("writer:")), only(rEscape, 20, whatHas("escapes when", "writer-vs-spec:")), rKeyword, rOrdValue, rOrdLstFirst,
		},
	},
	"C05": {NAReason: "The structural clause identified for this property (OWN-TEXTAUTH: at every place the binary writer turns a token into an ID the token's text wins over the source SID) was not built in this revision; the remaining content (equivalence of whole documents across formats and tables) quantifies over runtime values that no static rule here can bound. Findings F5 and F6 of DESIGN §6 remain open and are not decided by any check."},
	"C06": {
		Decided:    "In package ion: a pointer obtained from an accessor that returns (nil, nil) for a typed null is dereferenced only where it is known non-nil, with preconditions inferred through helper calls (NIL-ACC); such a pointer is not passed to a callee that dereferences it unguarded (NIL-ARG); the pointer fields documented nil-if-unknown (SymbolToken.Text/Source, ImportSource) are dereferenced only under a nil test of the same access path (NIL-FIELD); every panicking pop on the reader-side stacks is dominated by a non-emptiness fact (ORD-POPGUARD, reader obligations).",
		Necessary:  "An unguarded dereference of a typed null's nil accessor result, or an unguarded pop, is a panic on an input that exists (null.int, $0, imports:null.symbol — findings F7, F8, F9, all fixed).",
		NotDecided: "index/slice bounds, allocation sized by a declared length (finding F11, NUM-ALLOC not built), internal consistency panics, loop termination, recursion depth",
		Technique:  "SSA must-dataflow of nil facts keyed by canonical access path, with inferred callee preconditions",
		DesignRef:  "DESIGN.md §3.2, §4 C06",
		Rules: []Rule{
			{"NIL-ACC", rules.NilAcc(rules.ScopeIon, 20)}, {"NIL-ARG", rules.NilArg(rules.ScopeIon, 0)}, {"NIL-FIELD", rules.NilField(rules.ScopeIon, 8)},
			only(rOrdPopGuard, 2, funcHas("Reader", "bitstream", "tokenizer")),
		},
	},
	"C07": {
		Decided:    "The Reader error state is absorbing and every effect of a Reader method happens after 'no error yet' was established (ERR-ABSORB-R); an error obtained from the input layer is made sticky before it is returned (ERR-STICKY-R); end of input inside an open binary container is never a nil-error return (ORD-EOFDEPTH); the text reader ends a sequence in the value position only when no annotations are pending (ORD-DANGLE); in the reader files no error is discarded (ERR-DROP) and no path from a non-nil error test reaches an exit without consuming the error or returning a definitely non-nil one (ERR-SWAP).",
		Necessary:  "A Next that continues after an error, an input-layer error that never reaches Err(), a truncated container read as complete (F14, fixed), 'a::' accepted (F15, fixed) or a dropped tokenizer/bitstream error each let malformed input finish with Err()==nil or let Next resume.",
		NotDecided: "that each grammar violation in the property's catalogue is detected by some check in the tokenizer or bitstream",
		Technique:  ssaTech,
		DesignRef:  "DESIGN.md §3.1, §3.5, §4 C07",
		Rules: []Rule{
			rAbsorbR, rStickyR, rOrdEOFDepth, rOrdDangle,
			{"ERR-DROP", rules.ErrDrop(rules.ScopeReader, nil, 150)}, {"ERR-SWAP", rules.ErrSwap(rules.ScopeReader, rules.SwapSuppReader, 150)},
		},
	},
	"C08": {
		Decided:    "Every Reader method exit that refuses a call (returns a fresh *UsageError) is free of side effects on the reader (REFUSE-PURE); every token the tokenizer hands out as an unfinished value has a skip arm (TAB-TOKEN, skip arms).",
		Necessary:  "A refused StepIn/StepOut/accessor that changes cursor state, or a value kind that cannot be skipped, makes later results depend on the navigation.",
		NotDecided: "agreement of skip and read on where an arbitrary value ends (finding F17: lob skipping, TAB-LOBSKIP and SIB-READER not built)",
		Technique:  ssaTech + "; " + tabTech,
		DesignRef:  "DESIGN.md §3.1, §3.4, §4 C08",
		Rules:      []Rule{rRefuse, only(rToken, 13, whatHas("skip arm"))},
	},
	"C09": {
		Decided:    "Every insertion into a symbol text index (buildIndex, symbolTableBuilder.Add, Build) happens only when the text is not present yet, with imports consulted before locals, or copies an existing index (ORD-FIRSTWINS); NewSymbolTokenBySID looks an ID up only after 0 <= sid <= MaxID() was established and rejects everything else (ORD-SIDBOUND).",
		Necessary:  "An index insert that overwrites gives the highest instead of the lowest ID for a text and lets the builder renumber a known symbol; an unchecked ID above MaxID is not rejected.",
		NotDecided: "the offset arithmetic across imports (processImports, findByIDInImports, Adjust) — numeric; immutability of built tables is decided under C18 (OWN-IMMUT), not here, because a write that keeps the numbering (a lazily built index) does not break this property",
		Technique:  "SSA dominance facts keyed by canonical access path (comma-ok lookup / FindByName result false before the map update)",
		DesignRef:  "DESIGN.md §3.5, §4 C09",
		Rules:      []Rule{rOrdFirstWins, rOrdSidBound},
	},
	"C10": {
		Decided:    "Every successful path of binaryReader.readBVM resets the context to the system table (ORD-BVMRESET); once a top-level struct is recognised as $ion_symbol_table every exit reports 'not a user value' or an error (ORD-LSTHIDE); the symbol table reader dereferences accessor results only under the non-null precondition, so typed nulls in imports/name/version/max_id/symbols do not crash it (NIL-ACC scoped to readlocalsymboltable.go).",
		Necessary:  "A version marker that keeps the old table, a table struct surfacing as a user value, or a panic on a typed null in a table slot (F8, fixed) each break resolution against the table in force.",
		NotDecided: "append/replace semantics, catalog fallback order, max_id trimming/padding",
		Technique:  "SSA must-pass-through and nil-fact dataflow",
		DesignRef:  "DESIGN.md §3.2, §3.5, §4 C10",
		Rules:      []Rule{rOrdBVMReset, rOrdLstHide, {"NIL-ACC", rules.NilAcc(rules.ScopeLST, 4)}},
	},
	"C11": {
		Decided:    "The field names and the annotation the symbol table writer emits are exactly those the symbol table reader dispatches on, max_id included (TAB-LSTFIELDS); the fixed/imported table is written before the first value (ORD-LSTFIRST); the builder consults imports and existing entries before defining a local symbol (ORD-FIRSTWINS).",
		Necessary:  "An import declaration the reader does not understand leaves every imported ID unresolvable; a table after the first value or a local redefinition of imported text emits IDs the stream does not (minimally) define.",
		NotDecided: "ID arithmetic; that unknown text under a fixed table is an error (OWN-FIXEDLST not built)",
		Technique:  tabTech + "; SSA dominance for ORD",
		DesignRef:  "DESIGN.md §3.4, §3.5, §4 C11",
		Rules:      []Rule{rLstFields, rOrdLstFirst, rOrdFirstWins},
	},
	"C12": {
		Decided:    "For all 24 error-returning Writer methods on each writer implementation: the sticky error is tested before any effect on the writer (ERR-GUARD-W) and every returned error is the sticky error (ERR-STICKY-W); every value opened is closed on each success path (ORD-VALUE); Finish re-arms the binary writer before every success exit (ORD-REARM); every panicking pop on the writer-side stacks is dominated by a non-emptiness fact (ORD-POPGUARD, writer obligations); nothing in the writer implementation reachable from the Writer methods consults a time-, random- or schedule-dependent source and every map range there has an order-insensitive body (OWN-NONDET, functions outside marshal.go, fields.go and the command).",
		Necessary:  "A method that works after an earlier error or returns an error it does not remember lets a later Finish return nil (F1–F3, fixed); an unclosed value or a Finish that is not re-armed emits an invalid stream on a nil Finish (F4, fixed); an unguarded pop panics on an illegal call sequence; a nondeterminism source makes the same calls yield different bytes.",
		NotDecided: "validity of the emitted stream beyond pairing (see C04), nil pointer arguments, WriteNullType with an out-of-range Type (finding F23, TAB-INDEX not built)",
		Technique:  ssaTech,
		DesignRef:  "DESIGN.md §3.1, §3.5, §3.6, §4 C12",
		Rules: []Rule{
			rGuardW, rStickyW, rOrdValue, rOrdRearm, only(rOrdPopGuard, 2, funcHas("Writer", "writer")), only(rOwnNondet, 40, posLacks("ion/marshal.go", "ion/fields.go", "cmd/")),
		},
	},
	"C13": {NAReason: "Every clause identified for this property is numeric (NUM-NARROW: no lossy integer conversion on the value path; NUM-BIG; NUM-F32; NUM-EXP32); the NUM engine was not built in this revision and no other rule decides a necessary condition of exact encoding/decoding. Exactness of the VarUInt/VarInt/Int codecs is arithmetic over runtime values. Findings F20 and F25 of DESIGN §6 remain open; F7 and F19 were repaired."},
	"C14": {NAReason: "Exact rational results of Add/Sub/Mul/Shift/Truncate and the text round trip of decimals are arithmetic over unbounded runtime values; the only structural clauses identified (NUM-EXP32, NUM-NOFLOAT) belong to the NUM engine, which was not built. No static rule in reach bounds these quantities."},
	"C15": {NAReason: "Calendar validation (TAB-DATEVAL) and fraction rounding (NUM-BIG/NUM-NARROW) rules were not built; formatting and parsing of timestamps are behaviour of staged parsers over runtime strings. Findings F12, F18 and F19 of DESIGN §6 were repaired by fix: commits but no check of this revision would detect their return."},
	"C16": {
		Decided:    "Only the determinism clause: MarshalText asks for sorted map keys and with that option encodeMap sorts the keys before emitting any field (ORD-SORTMAP); nothing reachable from Marshal*/Encoder/Writer methods consults a time-, random- or schedule-dependent source, and every map range has an order-insensitive body (OWN-NONDET).",
		Necessary:  "Go's map iteration order is random, so an unsorted map encode or any other nondeterminism source makes MarshalText output differ between runs for the same value.",
		NotDecided: "value equality after the round trip; kind/opaque-type dispatch agreement between encoder and decoder (TAB-OPAQUE, TAB-KIND not built; finding F21 was repaired)",
		Technique:  "SSA dominance + call-graph reachability from the output API",
		DesignRef:  "DESIGN.md §3.5, §3.6, §4 C16",
		Rules:      []Rule{rOrdSortMap, rOwnNondet},
	},
	"C17": {
		Decided:    "In unmarshal.go: token text and the other nil-if-unknown pointer fields are tested before use (NIL-FIELD); accessor results are dereferenced only under the non-null precondition (NIL-ACC, NIL-ARG); Decoder.Decode/DecodeTo return the reader's error or ErrNoInput, never nil, when Next() reports no value (ORD-NOINPUT).",
		Necessary:  "A symbol without text ($0) or a typed null reaching an unguarded dereference panics instead of returning an error (F9, fixed); a Decoder that returns nil at the end of the stream never reports ErrNoInput.",
		NotDecided: "the value × target conversion table, overflow tests before reflective sets (NUM-REFLECT, TAB-REFLECTSET not built; finding F10 was repaired)",
		Technique:  "SSA must-dataflow of nil facts; path search to exits",
		DesignRef:  "DESIGN.md §3.2, §3.5, §4 C17",
		Rules: []Rule{
			{"NIL-FIELD", rules.NilField(rules.ScopeUnmarshal, 2)}, {"NIL-ACC", rules.NilAcc(rules.ScopeUnmarshal, 10)}, {"NIL-ARG", rules.NilArg(rules.ScopeUnmarshal, 0)}, rOrdNoInput,
		},
	},
	"C18": {
		Decided:    "There is no shared mutable state: shared tables, local tables and the catalog are written only while being constructed (OWN-IMMUT); package-level variables and everything reachable from them are written only during package initialisation (OWN-GLOBAL); no method of a shared type hands out an alias of its internal slice or map (OWN-ESCAPE); nothing on the output path consults a schedule- or time-dependent source (OWN-NONDET).",
		Necessary:  "With nothing written after construction every access to the shared objects is a read, and concurrent reads do not race (Go memory model); any write found by these rules is a write to an object two goroutines can hold.",
		NotDecided: "thread-safety of reflect, math/big, fmt, strconv internals (assumed); user-supplied io.Reader/io.Writer/Marshaler implementations",
		Technique:  "SSA store/alias roots + call-graph effect summaries",
		DesignRef:  "DESIGN.md §3.6, §4 C18",
		Rules:      []Rule{rOwnImmut, rOwnGlobal, rOwnEscape, rOwnNondet},
	},
	"C19": {
		Decided:    "In the reader and writer files of package ion no error of a module function, ion interface method or I/O primitive is discarded (ERR-DROP) and no path from a non-nil error test reaches an exit with the error neither consumed nor replaced by a definitely non-nil error (ERR-SWAP); a failed write is sticky in every Writer method (ERR-STICKY-W); a failed read is made sticky before a Reader method returns it (ERR-STICKY-R).",
		Necessary:  "bufio forgets an error once it has returned it, so an I/O error that is dropped, swapped for nil or returned without being stored looks like a clean end of data (F24, F26, fixed) or lets a later Finish return nil (F2, F3, fixed).",
		NotDecided: "equality of results across chunkings (follows from bufio's contract, trusted), the prefix property of accepted bytes, that only complete-or-error input primitives are used (OWN-INPUT not built)",
		Technique:  ssaTech,
		DesignRef:  "DESIGN.md §3.1, §4 C19",
		Rules: []Rule{
			{"ERR-DROP", rules.ErrDrop(rules.ScopeIO, nil, 300)}, {"ERR-SWAP", rules.ErrSwap(rules.ScopeIO, rules.SwapSuppReader, 200)}, rStickyW, rStickyR,
		},
	},
	"C20": {
		Decided:    "In cmd/ion-go: a possibly-nil accessor result (typed null) is dereferenced only where known non-nil and is not passed to a callee that dereferences it unguarded (NIL-ACC, NIL-ARG scoped to the command).",
		Necessary:  "The copy loop reads every scalar through the nil-returning accessors; an unguarded dereference is a panic on null.int and friends (part of F22, fixed).",
		NotDecided: "output equivalence, exhaustiveness of the copy switch (TAB-COPYLOOP not built), event stream well-formedness, the panic(err) calls in stringify/symbolify/clobify",
		Technique:  "SSA must-dataflow of nil facts with inferred callee preconditions",
		DesignRef:  "DESIGN.md §3.2, §4 C20",
		Rules:      []Rule{{"NIL-ACC", rules.NilAcc(rules.ScopeCmd, 1)}, {"NIL-ARG", rules.NilArg(rules.ScopeCmd, 1)}},
	},
}

// devRules: every rule by name, for `ionlint -dev RULE`.
var devRules = map[string]Rule{
	"NUM-NARROW":  {"NUM-NARROW", rules.NumNarrow(rules.ScopeNum, nil, 0)},
	"NUM-SHIFT":   {"NUM-SHIFT", rules.NumShift(rules.ScopeNum, nil, 0)},
	"NUM-EXP32":   {"NUM-EXP32", rules.NumArith32(rules.ScopeNum, nil, 0)},
	"NUM-BIG":     {"NUM-BIG", rules.NumBig(rules.ScopeIon, 0)},
	"NUM-F32":     {"NUM-F32", rules.NumF32(rules.ScopeIon, 0)},
	"NUM-REFLECT": {"NUM-REFLECT", rules.NumReflect(rules.ScopeIon, 0)},
	"NUM-NOFLOAT": {"NUM-NOFLOAT", rules.NumNoFloat},
	"TAB-LENPAY":  {"TAB-LENPAY", rules.TabLenPay},
	"TAB-CODEC":   {"TAB-CODEC", rules.TabCodec},
}
