package main

import (
	"strings"

	"verif/checker/internal/load"
	"verif/checker/internal/report"
	"verif/checker/internal/rules"
)

// only restricts a rule to the obligations whose construct (What) or function
// satisfies keep; unresolved-anchor obligations are always kept. min is the
// number of instances confirmed by hand for the restricted rule.
func only(r Rule, min int, keep func(o report.Obligation) bool) Rule {
	return Rule{ID: r.ID, Run: func(p *load.Program) *report.RuleResult {
		res := r.Run(p)
		var kept []report.Obligation
		for _, o := range res.Obligations {
			if strings.Contains(o.Key, "|anchor|") || strings.HasPrefix(o.What, "anchor ") || keep(o) {
				kept = append(kept, o)
			}
		}
		res.Obligations = kept
		res.MinInstances = min
		return res
	}}
}

// runWithRoles runs a rule and, when a function name the rule recognises calls
// by answers to nothing in the module any more (a renamed helper), replaces
// the verdict by "cannot decide": obligations computed with a missing role
// would be about something else than the rule says.
func runWithRoles(r Rule, p *load.Program) *report.RuleResult {
	rules.BeginRoles()
	res := r.Run(p)
	gone := rules.CheckRoles(p)
	for _, g := range rules.MissingAnchors(p, r.ID) {
		dup := false
		for _, h := range gone {
			if h == g || strings.HasSuffix(h, "."+g) {
				dup = true
			}
		}
		if !dup {
			gone = append(gone, g)
		}
	}
	if len(gone) > 0 {
		res.Obligations = nil
		res.MinInstances = 0
		res.Add(report.Obligation{Key: "anchor|roles", Func: "-", Pos: "-", What: "anchor identifiers " + strings.Join(gone, ", "), Status: report.Undecided,
			Detail: "the rule recognises constructs of the module by these names (functions, methods, fields, constants) and the analysed tree defines none of that name any more (renamed, moved or removed): the rule cannot decide its clause here and says so instead of reporting a verdict about something else"})
	}
	return res
}

func whatHas(subs ...string) func(o report.Obligation) bool {
	return func(o report.Obligation) bool {
		for _, s := range subs {
			if strings.Contains(o.What, s) {
				return true
			}
		}
		return false
	}
}

func whatLacks(subs ...string) func(o report.Obligation) bool {
	f := whatHas(subs...)
	return func(o report.Obligation) bool { return !f(o) }
}

func posLacks(subs ...string) func(o report.Obligation) bool {
	return func(o report.Obligation) bool {
		for _, s := range subs {
			if strings.Contains(o.Pos, s) {
				return false
			}
		}
		return true
	}
}

func posHas(subs ...string) func(o report.Obligation) bool {
	f := posLacks(subs...)
	return func(o report.Obligation) bool { return !f(o) }
}

func anyOf(fs ...func(o report.Obligation) bool) func(o report.Obligation) bool {
	return func(o report.Obligation) bool {
		for _, f := range fs {
			if f(o) {
				return true
			}
		}
		return false
	}
}

func funcHas(subs ...string) func(o report.Obligation) bool {
	return func(o report.Obligation) bool {
		for _, s := range subs {
			if strings.Contains(o.Func, s) {
				return true
			}
		}
		return false
	}
}

var (
	rTypecode  = Rule{"TAB-TYPECODE", rules.TabTypecode}
	rNibble    = Rule{"TAB-NIBBLE", rules.TabNibble}
	rNullKW    = Rule{"TAB-NULLKW", rules.TabNullKW}
	rEscape    = Rule{"TAB-ESCAPE", rules.TabEscape}
	rKeyword   = Rule{"TAB-KEYWORD", rules.TabKeyword}
	rLstFields = Rule{"TAB-LSTFIELDS", rules.TabLstFields}
	rToken     = Rule{"TAB-TOKEN", rules.TabToken}

	rOrdValue     = Rule{"ORD-VALUE", rules.OrdValue}
	rOrdLstFirst  = Rule{"ORD-LSTFIRST", rules.OrdLstFirst}
	rOrdRearm     = Rule{"ORD-REARM", rules.OrdRearm}
	rOrdPopGuard  = Rule{"ORD-POPGUARD", rules.OrdPopGuard}
	rOrdBVMReset  = Rule{"ORD-BVMRESET", rules.OrdBVMReset}
	rOrdLstHide   = Rule{"ORD-LSTHIDE", rules.OrdLstHide}
	rOrdEOFDepth  = Rule{"ORD-EOFDEPTH", rules.OrdEOFDepth}
	rOrdDangle    = Rule{"ORD-DANGLE", rules.OrdDangle}
	rOrdSortMap   = Rule{"ORD-SORTMAP", rules.OrdSortMap}
	rOrdFirstWins = Rule{"ORD-FIRSTWINS", rules.OrdFirstWins}
	rOrdSidBound  = Rule{"ORD-SIDBOUND", rules.OrdSidBound}
	rOrdNoInput   = Rule{"ORD-NOINPUT", rules.OrdNoInput}

	rOwnImmut  = Rule{"OWN-IMMUT", rules.OwnImmut(false)}
	rOwnGlobal = Rule{"OWN-GLOBAL", rules.OwnGlobal(false)}
	rOwnEscape = Rule{"OWN-ESCAPE", rules.OwnEscape}
	rOwnNondet = Rule{"OWN-NONDET", rules.OwnNondet}

	rNarrow   = Rule{"NUM-NARROW", rules.NumNarrow(rules.ScopeNum, rules.NarrowResiduals, 70)}
	rShift    = Rule{"NUM-SHIFT", rules.NumShift(rules.ScopeNum, rules.ShiftResiduals, 5)}
	rExp32    = Rule{"NUM-EXP32", rules.NumArith32(rules.ScopeNum, nil, 4)}
	rBig      = Rule{"NUM-BIG", rules.NumBig(rules.ScopeIon, 3)}
	rF32      = Rule{"NUM-F32", rules.NumF32(rules.ScopeIon, 2)}
	rReflect  = Rule{"NUM-REFLECT", rules.NumReflect(rules.ScopeIon, 4)}
	rNoFloat  = Rule{"NUM-NOFLOAT", rules.NumNoFloat}
	rAlloc    = Rule{"NUM-ALLOC", rules.NumAlloc(rules.ScopeAlloc, rules.AllocResiduals, 12)}
	rLenPay   = Rule{"TAB-LENPAY", rules.TabLenPay}
	rCodec    = Rule{"TAB-CODEC", rules.TabCodec}
	rDateVal  = Rule{"TAB-DATEVAL", rules.TabDateVal}
	rTextAuth = Rule{"OWN-TEXTAUTH", rules.OwnTextAuth}
	rOwnInput = Rule{"OWN-INPUT", rules.OwnInput}
	rStepIn   = Rule{"ORD-STEPIN", rules.OrdStepIn}
	rLobWS    = Rule{"OWN-LOBWS", rules.OwnLobWS}
	rBuild    = Rule{"OWN-BUILD", rules.OwnBuild}
	rImpFirst = Rule{"ORD-IMPORTFIRST", rules.OrdImportFirst}
	rSid0     = Rule{"TAB-SID0", rules.TabSid0}
	rTokCache = Rule{"OWN-TOKCACHE", rules.OwnTokCache}
	rRefuseW  = Rule{"REFUSE-PURE-W", rules.RefusePureW}
	rEndClear = Rule{"ORD-ENDCLEAR", rules.OrdEndClear}
	rWrCache  = Rule{"OWN-WRCACHE", rules.OwnWriterCache}
	rIndex    = Rule{"NUM-INDEX", rules.NumIndex(rules.ScopeAlloc, rules.IndexResiduals, 200)}
	rSlice    = Rule{"NUM-SLICE", rules.NumSlice(rules.ScopeSlice, rules.SliceResiduals, 15)}
	rPanicAPI = Rule{"OWN-PANICAPI", rules.OwnPanicAPI(rules.ScopeAlloc, 5)}
	rIdxPair  = Rule{"TAB-INDEXPAIR", rules.TabIndexPair}
	rBudget   = Rule{"TAB-BUDGET", rules.TabBudget}
	rUSub     = Rule{"NUM-USUB", rules.NumUSub(rules.ScopeReader, rules.USubResiduals, 10)}
	rTextIVM  = Rule{"ORD-TEXTIVM", rules.OrdTextIVM}
	rNibNext  = Rule{"TAB-NIBBLE-NEXT", rules.TabNibbleNext}
	rDecNZ    = Rule{"ORD-DECNEGZERO", rules.OrdDecNegZero}
	rFlagOr   = Rule{"NUM-FLAGOR", rules.NumFlagOr(rules.ScopeWriter, 4)}
	rZeroSign = Rule{"NUM-ZEROSIGN", rules.NumZeroSign(rules.ScopeWriter, 1)}
	rDecSign  = Rule{"ORD-DECSIGN", rules.OrdDecSign}
	rBigDiv   = Rule{"NUM-BIGDIV", rules.NumBigDiv(rules.ScopeDecimal, 1)}
	rIntSize  = Rule{"TAB-INTSIZE", rules.TabIntSize}
	rOpenFl   = Rule{"TAB-OPENFLAGS", rules.TabOpenFlags}
	rParamUse = Rule{"OWN-PARAMUSED", rules.OwnParamUsed}
	rSepState = Rule{"ORD-SEPSTATE", rules.OrdSepState}
	rExactFst = Rule{"ORD-EXACTFIRST", rules.OrdExactFirst}
	rStopChar = Rule{"OWN-STOPCHAR", rules.OwnStopChar}
	rWSSet    = Rule{"TAB-WSSET", rules.TabWSSet(rules.ScopeText, 3)}
	rAppEach  = Rule{"ORD-APPENDEACH", rules.OrdAppendEach}
	rLSTAnn   = Rule{"TAB-LSTFIRSTANN", rules.TabLSTFirstAnn}
	rBSClear  = Rule{"ORD-BSCLEAR", rules.OrdBSClear}
	rTokFin   = Rule{"ORD-TOKFINISH", rules.OrdTokFinish}
	rAccType  = Rule{"TAB-ACCTYPE", rules.TabAccType}
	rReslice0 = Rule{"OWN-RESLICE0", rules.OwnReslice0(rules.ScopeWriter)}
	rEscRune  = Rule{"TAB-ESCRUNE", rules.TabEscRune}
	rEncPure  = Rule{"OWN-ENCPURE", rules.OwnEncPure}
	rOverrun  = Rule{"TAB-OVERRUN", rules.TabOverrun}
	rAppCarry = Rule{"ORD-APPENDCARRY", rules.OrdAppendCarry}
	rSymQuote = Rule{"OWN-SYMQUOTE", rules.OwnSymQuote}
	rAdjMax   = Rule{"TAB-ADJUSTMAX", rules.TabAdjustMax}
	rLenCount = Rule{"TAB-LENCOUNT", rules.TabLenCount}
	rNextVis  = Rule{"TAB-NEXTVISIT", rules.TabNextVisit}
	rDangleB  = Rule{"ORD-DANGLE-BIN", rules.OrdDangleBin}
	rUTF8     = Rule{"TAB-UTF8", rules.TabUTF8}
	rLstClean = Rule{"ORD-LSTCLEAN", rules.OrdLstClean}
	rBSScr    = Rule{"OWN-BSSCRATCH", rules.OwnBSScratch}
	rEmptyCp  = Rule{"NIL-EMPTYCOPY", rules.NilEmptyCopy}
	rUnread   = Rule{"ORD-UNREAD", rules.OrdUnread}
	rOpCmt    = Rule{"TAB-OPCOMMENT", rules.TabOpComment}
	rOpenStar = Rule{"ORD-OPENSTAR", rules.OrdOpenStar}
	rSurr     = Rule{"TAB-SURROGATE", rules.TabSurrogate}
	rAddr     = Rule{"NIL-ADDR", rules.NilAddr(rules.ScopeIon, 1)}
	rScrOut   = Rule{"OWN-SCRATCHOUT", rules.OwnScratchOut}
	rEOFOnly  = Rule{"ERR-EOFONLY", rules.ErrEOFOnly}
	rReadVia  = Rule{"TAB-READVIA", rules.TabReadVia}
	rBigFit   = Rule{"NUM-BIGFIT", rules.NumBigFit}
	rPoolRst  = Rule{"ORD-POOLRESET", rules.OrdPoolReset}
	rSkipArms = Rule{"TAB-SKIPARMS", rules.TabSkipArms}
	rImpAdj   = Rule{"ORD-IMPADJUST", rules.OrdImpAdjust}
	rBigFresh = Rule{"OWN-BIGFRESH", rules.OwnBigFresh(rules.ScopeIon, 10)}
	rFixedLST = Rule{"OWN-FIXEDLST", rules.OwnFixedLST}
	rReflSet  = Rule{"TAB-REFLECTSET", rules.TabReflectSet}
	rBounds   = Rule{"TAB-BOUNDS", rules.TabBounds}
	rNegZero  = Rule{"ORD-NEGZERO", rules.OrdNegZero}
	rAppAlias = Rule{"OWN-APPENDALIAS", rules.OwnAppendAlias(rules.ScopeIon, 30)}
	rOpaque   = Rule{"TAB-OPAQUE", rules.TabOpaque}
	rKind     = Rule{"TAB-KIND", rules.TabKind}
	rCopyLoop = Rule{"TAB-COPYLOOP", rules.TabCopyLoop}

	rGuardW  = Rule{"ERR-GUARD-W", rules.ErrGuardW}
	rStickyW = Rule{"ERR-STICKY-W", rules.ErrStickyW}
	rAbsorbR = Rule{"ERR-ABSORB-R", rules.ErrAbsorbR}
	rStickyR = Rule{"ERR-STICKY-R", rules.ErrStickyR}
	rRefuse  = Rule{"REFUSE-PURE", rules.RefusePure}
)

const ssaTech = "SSA must-dataflow of branch facts, path search to exits and effect summaries over the VTA call graph"
const numTech = "interval abstract interpretation over SSA (defining expression, result ranges of len/time/strconv/io primitives and of module callees, dominating comparisons as branch facts, per-edge facts of phis, induction on loop-carried values) deciding operand-range ⊆ target-range at every lossy conversion, shift and narrow arithmetic"
const tabTech = "constant-table extraction from SSA (enum value-set dataflow over switch/if dispatch) compared with the Ion 1.0 tables embedded in the checker and with the sibling implementation's table"

var registry = map[string]*Property{
	"C01": {
		Decided:    "The finite tables of the writers and the readers are inverse of each other: every single-letter escape the text writer spells is mapped back to the same byte by the text reader and the needs-escaping tests cover delimiter, backslash and control characters (TAB-ESCAPE, writer obligations); typed-null spellings written = names the reader dispatches on = the 13 Ion type names (TAB-NULLKW); identifier-shaped text with a non-symbol meaning is quoted when written as a symbol (TAB-KEYWORD); binary type codes, per-code value types, float sizes and typed-null bytes equal the Ion 1.0 tables (TAB-TYPECODE); every value the writers open is closed on each success path, annotation wrappers included (ORD-VALUE); in Finish the version marker precedes the symbol table, which precedes the buffered values (ORD-LSTFIRST); every length the binary writer declares is computed with the codec, and for the operand, that the payload is appended with (TAB-LENPAY); each binary field uses the codec family Ion 1.0 prescribes on the writing and on the reading side (TAB-CODEC); a symbol token's text is never reinterpreted as a '$n' ID nor replaced by the token's source SID when written (OWN-TEXTAUTH). A flag bit ORed onto a VarUInt/VarInt octet never overlaps the payload (NUM-FLAGOR); a float is classified as zero on the output side only together with its sign bit (NUM-ZEROSIGN); no function that distinguishes negative zero decides a Decimal's sign from its coefficient where the flag may be set (ORD-DECSIGN). A slice emptied by reslicing is not stored into a writer field while a value read from the same field is still used (OWN-RESLICE0). Text taken from a SymbolToken reaches a raw output call of the text writer only in a function that asks symbolIdentifier about it (OWN-SYMQUOTE); no element count (len of anything but bytes) is handed to a length encoder (TAB-LENCOUNT). No byte buffer kept in a field of a reader or writer is handed out (OWN-SCRATCHOUT: zero such buffers today; the rule constrains any that is introduced).",
		Necessary:  "A byte escaped as \\X that the reader maps elsewhere, a typed null spelled with another type's name, a reserved word written unquoted, a type code decoded as another type, an unclosed 0xE0 wrapper or a table emitted after its values each change or lose a value named in the property's quantifier.",
		NotDecided: "payload encodings (ints, floats, decimals, timestamps), xLen = len(appendX), float/decimal/timestamp formatting; each codec's own length function (len(appendX(v)) = xLen(v))",
		Technique:  tabTech + "; CFG/SSA pairing for ORD; " + "codec-family pairing (length function vs append function per operand, by SSA path) and codec tables compared with Ion 1.0" + "; call-graph fixed point and value flow for OWN-TEXTAUTH" + "; interval check of flag/payload bit overlap (NUM-FLAGOR, with field invariants from every store to an unexported field); dominance of float-zero tests by Signbit tests" + "; alias check on s[:0] stores" + "; def-use closure from SymbolToken.Text to raw writes; type check of len() operands reaching length encoders" + "; escape walk of slices derived from receiver buffer fields, through helpers, append-style callees and call sites",
		DesignRef:  "DESIGN.md §3.4, §3.5, §4 C01",
		Rules: []Rule{
			only(rEscape, 18, whatHas("writer:")), rNullKW, rKeyword, rTypecode, rOrdValue, rOrdLstFirst,
			rLenPay, rCodec, rTextAuth,
			rFlagOr, rZeroSign, rDecSign,
			rReslice0,
			rSymQuote, rLenCount,
			rScrOut,
		},
	},
	"C02": {
		Decided:    "The text reader's finite tables equal the Ion 1.0 text tables: every escape with its code point and digit count, \\u and \\U refused inside clobs (TAB-ESCAPE, reader obligations); the 13 null.<type> names (TAB-NULLKW, reader obligations); every token the tokenizer can hand out at the start of a value has an arm in the reader's value dispatch (TAB-TOKEN, value arms); inside {{ }} no comment-skipping whitespace routine is reachable, so base64 text containing '//' or '/*' decodes (OWN-LOBWS); no comparison treats symbol ID 0 ($0) differently from the positive IDs (TAB-SID0); the timestamp parser separates second precision, nanosecond precision (up to nine digits) and rounding, and valid from invalid offsets, at the indices and values the grammar prescribes (TAB-BOUNDS, text timestamp obligations). Every function of the text tokenizer that recognises whitespace by comparing with ' ' and another whitespace character tests space, tab and line feed (TAB-WSSET); every caller of the comment-blind free function isStopChar looks for '/' itself (OWN-STOPCHAR). The code point of an escape in a string or symbol is never narrowed to a byte, and every function passes readEscapedChar the mode of the text kind it reads (TAB-ESCRUNE). String, long-string and quoted-symbol text is validated as UTF-8 (TAB-UTF8, text obligation). Next and ReadValue agree on where an operator or dot token's text starts (ORD-UNREAD); every scanner of an operator run stops in front of '//' and '/*' (TAB-OPCOMMENT); the '*' opening a block comment is consumed before the scan for '*/' (ORD-OPENSTAR); \\u surrogate pairs are combined (TAB-SURROGATE). No byte buffer kept in a field of a reader or writer is handed out (OWN-SCRATCHOUT: zero such buffers today; the rule constrains any that is introduced). An unquoted top-level $ion_1_0 is recognised only as the whole symbol, after its annotations were looked for (ORD-TEXTIVM); the input is consumed only through complete-or-error primitives, so no spelling decodes differently when the source delivers it in other chunks (OWN-INPUT).",
		Necessary:  "An escape decoded to another code point, a null.<type> name mapped to another type, or a value-start token without a dispatch arm makes a legal spelling decode to another value or to an error.",
		NotDecided: "number, string-segmentation, comment/whitespace and timestamp grammar (behaviour of loops over characters); $n handling",
		Technique:  tabTech + "; who-may-call check for the lob whitespace routines; spelling-insensitive boundary extraction for TAB-BOUNDS" + "; constant-set agreement of whitespace tests; who-may-call for isStopChar" + "; value-flow check of the escape rune and constant propagation of the escape mode through helper parameters" + "; presence of the UTF-8 validation on the text side" + "; sibling agreement of tokenizer exits per ReadValue arm (must-precede of unread); presence of the comment-start test in operator-run loops; must-precede of read() before the block-comment scan" + "; escape walk of slices derived from receiver buffer fields, through helpers, append-style callees and call sites",
		DesignRef:  "DESIGN.md §3.4, §4 C02",
		Rules: []Rule{
			only(rEscape, 18, whatHas("reader:")), only(rNullKW, 13, whatHas("reader:")), only(rToken, 14, whatHas("value arm")), rLobWS, rSid0, only(rBounds, 6, funcHas("ParseTimestamp", "computeTimezoneKind", "isIonYear")),
			rWSSet, rStopChar,
			rEscRune,
			only(rUTF8, 1, funcHas("tokenizer")),
			rUnread, rOpCmt, rOpenStar, rSurr,
			rScrOut, rTextIVM, rOwnInput,
		},
	},
	"C03": {
		Decided:    "The binary reader's type-code table, the value type stored for each type code and the accepted float sizes equal the Ion 1.0 tables (TAB-TYPECODE, reader obligations); validateAnnotatedValue special-cases exactly the type codes whose low nibble bitstream.Next does not read as a body length, so a wrapper around true/false or a sorted struct is measured correctly (TAB-NIBBLE); each field is decoded with the primitive Ion 1.0 prescribes (TAB-CODEC, reader obligations); the VarUInt/VarInt accumulators cannot drop high bits and every narrowing in the bitstream and binary reader is in range (NUM-SHIFT, NUM-NARROW, bitstream obligations); bytes handed to the caller never alias the read buffer (OWN-INPUT, Peek obligations); every value decoder consumes exactly the declared length of the current value (TAB-BUDGET); once Next has replaced the tag's nibble by a decoded length it no longer reads 14 and 15 as 'length follows' and 'null' (TAB-NIBBLE-NEXT); a decimal's negative-zero flag comes from the coefficient's sign bit (ORD-DECNEGZERO); no unsigned length or position subtraction in the bitstream can wrap below zero (NUM-USUB). The symbols list of a local symbol table yields one entry per element on every path round its loop (ORD-APPENDEACH); a struct is taken for a symbol table by its first annotation only (TAB-LSTFIRSTANN); leaving a value always passes clear() (ORD-BSCLEAR). A decoded length is compared with the space left after its own length field (TAB-OVERRUN); imports: $ion_symbol_table hands back nothing only when there is no current table (ORD-APPENDCARRY). The end of a container is reported only after looking whether a field name is pending (ORD-DANGLE-BIN); the bitstream keeps no value data in fields that clear() does not reset (OWN-BSSCRATCH). No byte buffer kept in a field of a reader or writer is handed out (OWN-SCRATCHOUT: zero such buffers today; the rule constrains any that is introduced). The calendar-field and symbol-ID width limits of the binary reader sit where the format puts them (TAB-BOUNDS, binary reader rows). The binary reader stores no scalar made up from a constant: every scalar comes out of the bitstream's Read* method, where negative zero and truncated bodies are rejected (TAB-READVIA).",
		Necessary:  "A type code decoded as another type, a refused float size, or a wrapper length check that misreads a bool's nibble (finding F13, fixed) rejects or misdecodes a valid encoding.",
		NotDecided: "VarUInt/VarInt arithmetic, padding, NOP handling, struct ordering, lengths (behavioural); TAB-BUDGET of the design was not built",
		Technique:  tabTech + "; " + "codec-family pairing (length function vs append function per operand, by SSA path) and codec tables compared with Ion 1.0" + "; " + numTech + "; escape walk of bufio.Reader.Peek results" + "; must-pass-through (append per loop iteration; clear() after a state store)" + "; edge-condition check of the exits of the append case" + "; field-write census of the bitstream against clear()" + "; escape walk of slices derived from receiver buffer fields, through helpers, append-style callees and call sites" + "; value-origin check of the binary reader's value stores",
		DesignRef:  "DESIGN.md §3.4, §4 C03",
		Rules: []Rule{
			only(rTypecode, 30, whatLacks("binaryNulls[")), rNibble,
			only(rCodec, 8, whatHas("decode")), only(rShift, 5, posHas("ion/bitstream.go")), only(rNarrow, 15, posHas("ion/bitstream.go", "ion/binaryreader.go")),
			only(rOwnInput, 2, whatHas("slice returned by Peek")), rBudget, rNibNext, rDecNZ, only(rUSub, 8, posHas("ion/bitstream.go")),
			rAppEach, rLSTAnn, rBSClear,
			rOverrun, rAppCarry,
			rDangleB, rBSScr,
			rScrOut, only(rBounds, 2, funcHas("ReadTimestamp", "ReadSymbolID")),
			rReadVia,
		},
	},
	"C04": {
		Decided:    "Binary typed-null bytes written equal the Ion 1.0 table (TAB-TYPECODE, writer obligations); text typed-null spellings are the 13 Ion type names (TAB-NULLKW, writer obligations); every single-letter escape the text writer spells denotes the written byte in the Ion 1.0 escape table, and the needs-escaping tests of strings, symbols and clobs cover delimiter, backslash, control characters and non-ASCII for clobs (TAB-ESCAPE, writer-vs-spec and predicate obligations); keywords are quoted when written as symbols (TAB-KEYWORD); every opened value/container/annotation wrapper is closed on each success path (ORD-VALUE); version marker before symbol table before values, fixed table before the first value (ORD-LSTFIRST); every declared length is computed with the codec and operand the payload is appended with, across the xLen/appendX and Len/EmitTo sibling pairs too (TAB-LENPAY); each field uses the codec Ion 1.0 prescribes (TAB-CODEC, writer obligations); no value is narrowed out of range on its way into the encoders, in particular no negative symbol ID (NUM-NARROW, writer files); IDs written come from this writer's table by text (OWN-TEXTAUTH, writer obligations). A flag bit ORed onto a VarUInt/VarInt octet never overlaps the payload (NUM-FLAGOR); a float is classified as zero only together with its sign bit (NUM-ZEROSIGN); negative zero's sign is never taken from the coefficient (ORD-DECSIGN); the text writer forgets an owed separator only on a path that writes to the output (ORD-SEPSTATE). No element count (len of anything but bytes) is handed to a length encoder of the binary writer (TAB-LENCOUNT). No byte buffer kept in a field of a reader or writer is handed out (OWN-SCRATCHOUT: zero such buffers today; the rule constrains any that is introduced).",
		Necessary:  "Each clause is checked against the specification embedded in the checker, not against this repository's reader: a wrong null byte or name, a raw delimiter, an unquoted keyword, an unclosed wrapper (declared length never patched) or a table after its values is ill-formed or denotes another value under any conforming decoder.",
		NotDecided: "each codec's own length function (len(appendX(v)) = xLen(v) is arithmetic), separators and number formatting of the text writer",
		Technique:  tabTech + "; CFG/SSA pairing for ORD; " + "codec-family pairing (length function vs append function per operand, by SSA path) and codec tables compared with Ion 1.0" + "; " + numTech + "; interval check of flag/payload bit overlap; must-pass-through of an output write around separator-state resets" + "; type check of len() operands reaching length encoders" + "; escape walk of slices derived from receiver buffer fields, through helpers, append-style callees and call sites",
		DesignRef:  "DESIGN.md §3.4, §3.5, §4 C04",
		Rules: []Rule{
			only(rTypecode, 13, whatHas("binaryNulls[")), only(rNullKW, 13, whatHas("writer:")), only(rEscape, 20, whatHas("escapes when", "writer-vs-spec:")), rKeyword, rOrdValue, rOrdLstFirst,
			rLenPay, only(rCodec, 25, whatLacks("decode")), only(rNarrow, 30, posHas("ion/binarywriter.go", "ion/bits.go", "ion/buf.go")), only(rTextAuth, 2, posHas("ion/binarywriter.go")),
			rFlagOr, rZeroSign, rDecSign, rSepState,
			rLenCount,
			rScrOut,
		},
	},
	"C05": {
		Decided:    "A symbol token's text is authoritative wherever a token is turned into bytes: (i) text taken from a SymbolToken is never handed to a parameter that is interpreted as a '$n' symbol-ID reference (symbolIdentifier with its ID result used, binaryWriter.resolve, Writer.WriteSymbolFromString, newSymbolToken — the set is computed from the call graph), in package ion and in the command's copy loop; (ii) in the binary writer a token's LocalSID becomes the ID to write only on the edge where its Text is nil, at the one place (resolveToken) all three uses — value, field name, annotation — go through; (iii) the text reader applies the '$n' interpretation only to unquoted identifier tokens (OWN-TEXTAUTH); no comparison of a LocalSID treats $0 differently from the positive IDs, so a symbol without text is copied like any other (TAB-SID0); no Reader field keeps a resolved token beyond the symbol table it was resolved in (OWN-TOKCACHE). Text taken from a SymbolToken reaches a raw output call of the text writer only in a function that asks symbolIdentifier about it, so $n-shaped annotations, field names and values are quoted alike (OWN-SYMQUOTE). A binary writer keeps no symbol-ID cache that outlives the table it was computed against (OWN-WRCACHE); an appending local symbol table carries over the imports and symbols of the table it extends (ORD-APPENDCARRY).",
		Necessary:  "The Reader attaches the source table's SID to every token. A writer that prefers LocalSID over text emits IDs of a table the output never declares (F6), and one that passes token text through the '$n' interpretation writes the symbol '$5' as symbol 5 (F5); both change the copied document whenever source and destination tables differ. Both were genuine defects on the pinned tree and were repaired (fix: f27bc41, 36b2787).",
		NotDecided: "equivalence of whole documents across formats; that every reader accessor result is forwarded by the copy loop; the text writer's spelling of tokens without text ($n)",
		Technique:  "call-graph fixed point for '$n'-interpreting parameters + SSA value-flow from SymbolToken.Text loads to call arguments; branch-fact dominance (Text == nil) at LocalSID uses; enum value-set dataflow of the token kind at newSymbolToken calls" + "; forward def-use closure from loads of SymbolToken.Text to raw output calls" + "; field census of the binary writer for ID caches; must-carry check of the append case",
		DesignRef:  "DESIGN.md §3.6 OWN-TEXTAUTH, §4 C05, §0.7",
		Rules:      []Rule{rTextAuth, rSid0, rTokCache, rSymQuote, rWrCache, rAppCarry},
	},
	"C06": {
		Decided:    "In package ion: a pointer obtained from an accessor that returns (nil, nil) for a typed null is dereferenced only where it is known non-nil, with preconditions inferred through helper calls (NIL-ACC); such a pointer is not passed to a callee that dereferences it unguarded (NIL-ARG); the pointer fields documented nil-if-unknown (SymbolToken.Text/Source, ImportSource) are dereferenced only under a nil test of the same access path (NIL-FIELD); every panicking pop on the reader-side stacks is dominated by a non-emptiness fact (ORD-POPGUARD, reader obligations); on the input side every allocation with a non-constant size is sized by the length of data already in memory or by a value bounded by 2^20 — a declared length never sizes an allocation before the bytes exist (NUM-ALLOC, 2 residual rows); every index into a slice, string or array on the input side (240 sites) is inside the bounds by the loop that produces it, by a dominating comparison with the length of the same object, by the callee's length contract (Peek(n), readN(n)) or by what every call site establishes (NUM-INDEX, 7 residual rows); the same for the bounds of slice expressions in the reader, symbol-table, unmarshal and timestamp files (NUM-SLICE, 3 residual rows); every call on the input side to a module function that panics when an integer expression over its parameters leaves a range (Decimal.ShiftL/upscale ...) establishes that range at the call (OWN-PANICAPI); no subtraction of unsigned lengths, positions or budgets in the reader files can wrap below zero — the operands are ordered by their intervals, by a dominating comparison, or by the contract that a budgeted reader never consumes more than its budget (NUM-USUB, 2 residual rows). Where bitstream.Next compares a length decoded from a separate VarUInt with the space left, that space has been reduced by the size of the length field (TAB-OVERRUN).",
		Necessary:  "An unguarded dereference of a typed null's nil accessor result, or an unguarded pop, is a panic on an input that exists (null.int, $0, imports:null.symbol — findings F7, F8, F9, all fixed).",
		NotDecided: "slice bounds inside the text formatters (decimal.go, textutils.go), explicit internal-consistency panics (bitstream.remaining/StepOut: pos <= end is arithmetic), loop termination, recursion depth, memory retained by deeply nested or very long valid input",
		Technique:  "SSA must-dataflow of nil facts keyed by canonical access path, with inferred callee preconditions; " + numTech + " (allocation sizes, index and slice bounds, callee panic ranges evaluated at each call site)" + "; def-use check that the compared space depends on the length field's size",
		DesignRef:  "DESIGN.md §3.2, §4 C06",
		Rules: []Rule{
			{"NIL-ACC", rules.NilAcc(rules.ScopeIon, 20)}, {"NIL-ARG", rules.NilArg(rules.ScopeIon, 0)}, {"NIL-FIELD", rules.NilField(rules.ScopeIon, 8)},
			only(rOrdPopGuard, 2, funcHas("Reader", "bitstream", "tokenizer")),
			rAlloc, rIndex, rSlice, rPanicAPI, rUSub,
			rOverrun,
		},
	},
	"C07": {
		Decided:    "The Reader error state is absorbing and every effect of a Reader method happens after 'no error yet' was established (ERR-ABSORB-R); an error obtained from the input layer is made sticky before it is returned (ERR-STICKY-R); end of input inside an open binary container is never a nil-error return (ORD-EOFDEPTH); the text reader ends a sequence in the value position only when no annotations are pending (ORD-DANGLE); a negative integer with a zero magnitude is rejected whichever representation the magnitude was decoded into (ORD-NEGZERO); in the reader files no error is discarded (ERR-DROP) and no path from a non-nil error test reaches an exit without consuming the error or returning a definitely non-nil one (ERR-SWAP). Clob-reading functions read escapes in clob mode, so \\u and \\U are refused there (TAB-ESCRUNE, mode obligations). The bitstream reports the end of a container only after looking whether a field name is pending (ORD-DANGLE-BIN); both readers validate string text as UTF-8 (TAB-UTF8). An unterminated '/*/' is not taken for a complete comment (ORD-OPENSTAR). The end-of-input sentinel -1 is returned with a nil error only on the edge where the source's error is io.EOF (ERR-EOFONLY). The binary reader stores no scalar made up from a constant: every scalar comes out of the bitstream's Read* method, where negative zero and truncated bodies are rejected (TAB-READVIA).",
		Necessary:  "A Next that continues after an error, an input-layer error that never reaches Err(), a truncated container read as complete (F14, fixed), 'a::' accepted (F15, fixed) or a dropped tokenizer/bitstream error each let malformed input finish with Err()==nil or let Next resume.",
		NotDecided: "that each grammar violation in the property's catalogue is detected by some check in the tokenizer or bitstream",
		Technique:  ssaTech + "; phi-edge inspection of the negative-zero flag" + "; constant propagation of the escape mode through helper parameters" + "; path search from the end-of-container test to the EOF store; sibling check of the UTF-8 validation" + "; must-precede of read() before the block-comment scan" + "; branch-fact check of the sentinel exits; value-origin check of the binary reader's value stores",
		DesignRef:  "DESIGN.md §3.1, §3.5, §4 C07",
		Rules: []Rule{
			rAbsorbR, rStickyR, rOrdEOFDepth, rOrdDangle, rNegZero,
			{"ERR-DROP", rules.ErrDrop(rules.ScopeReader, nil, 150)}, {"ERR-SWAP", rules.ErrSwap(rules.ScopeReader, rules.SwapSuppReader, 150)},
			only(rEscRune, 3, whatHas("escape mode")),
			rDangleB, rUTF8,
			rOpenStar,
			rEOFOnly, rReadVia,
		},
	},
	"C08": {
		Decided:    "Every Reader method exit that refuses a call (returns a fresh *UsageError) is free of side effects on the reader (REFUSE-PURE); every token the tokenizer hands out as an unfinished value has a skip arm (TAB-TOKEN, skip arms); StepIn enters a nesting level only for a non-null container in both implementations (ORD-STEPIN); none of the lob readers and skippers reaches the comment-skipping whitespace routine, so skip and read agree that '/' inside {{ }} is data (OWN-LOBWS); in binary, reading a value and skipping it hand the same declared length to the primitive readers, so both end at the same byte (TAB-BUDGET). Every bitstream method that leaves a value passes clear() on each path to a successful exit (ORD-BSCLEAR); the text reader's raw scan for a container's end starts only when the tokenizer has no unfinished value (ORD-TOKFINISH). The bitstream keeps no value data in fields that clear() does not reset, so what a value decodes to does not depend on which values were decoded before (OWN-BSSCRATCH). The operator readers and the whitespace/comment skipper used when a container is skipped agree on where an operator ends (TAB-OPCOMMENT). No byte buffer kept in a field of a reader or writer is handed out (OWN-SCRATCHOUT: zero such buffers today; the rule constrains any that is introduced). The container skipper uses every delimited-form skipper the value skippers use (TAB-SKIPARMS).",
		Necessary:  "A refused StepIn/StepOut/accessor that changes cursor state, or a value kind that cannot be skipped, makes later results depend on the navigation.",
		NotDecided: "agreement of skip and read on where an arbitrary value ends (finding F17, clob text containing '}', was repaired but no rule would detect its return)",
		Technique:  ssaTech + "; " + tabTech + "; enum value-set and nil-fact dominance at nesting-level pushes; who-may-call check for the lob whitespace routines" + "; must-pass-through of clear() after state stores; typestate of the tokenizer's unfinished flag (finisher summaries by fixed point) before a raw scan" + "; field-write census of the bitstream against clear()" + "; presence of the comment-start test in operator-run loops" + "; escape walk of slices derived from receiver buffer fields, through helpers, append-style callees and call sites" + "; callee-set agreement between the token-level skippers and the container skipper",
		DesignRef:  "DESIGN.md §3.1, §3.4, §4 C08",
		Rules:      []Rule{rRefuse, only(rToken, 13, whatHas("skip arm")), rStepIn, rLobWS, rBudget, rBSClear, rTokFin, rBSScr, rOpCmt, rScrOut, rSkipArms},
	},
	"C09": {
		Decided:    "Every insertion into a symbol text index (buildIndex, symbolTableBuilder.Add, Build) happens only when the text is not present yet, with imports consulted before locals, or copies an existing index (ORD-FIRSTWINS); NewSymbolTokenBySID looks an ID up only after 0 <= sid <= MaxID() was established and rejects everything else (ORD-SIDBOUND); a local table resolves text through its imports before its own index on every path (ORD-IMPORTFIRST); Build neither writes to the builder nor hands the builder's own symbols/index storage to the built table (OWN-BUILD); every table object is built with an index that describes exactly the symbols it holds (TAB-INDEXPAIR). Every table sst.Adjust(n) returns has max_id n: a new table stores the parameter, the receiver is returned only under maxID == s.maxID (TAB-ADJUSTMAX). An import leaves readImport as nil, as a placeholder of the declared size, or as the result of Adjust(declared max_id) — never as the catalog's table as found (ORD-IMPADJUST).",
		Necessary:  "An index insert that overwrites gives the highest instead of the lowest ID for a text and lets the builder renumber a known symbol; an unchecked ID above MaxID is not rejected.",
		NotDecided: "the offset arithmetic across imports (processImports, findByIDInImports, Adjust) — numeric; immutability of built tables is decided under C18 (OWN-IMMUT), not here, because a write that keeps the numbering (a lazily built index) does not break this property",
		Technique:  "SSA dominance facts keyed by canonical access path (comma-ok lookup / FindByName result false before the map update); CFG reachability between import and local lookups; parameter-rooted effect summary and copy-source tracing for Build; symbols/index pair tracing at table literals" + "; postcondition check of Adjust by branch facts at each return" + "; value-origin check of readImport's result",
		DesignRef:  "DESIGN.md §3.5, §4 C09",
		Rules:      []Rule{rOrdFirstWins, rOrdSidBound, rImpFirst, rBuild, rIdxPair, rAdjMax, rImpAdj},
	},
	"C10": {
		Decided:    "Every successful path of binaryReader.readBVM resets the context to the system table (ORD-BVMRESET); the text reader recognises an unquoted top-level $ion_1_0, resets the context on that edge and does not surface it as a value (ORD-TEXTIVM); once a top-level struct is recognised as $ion_symbol_table every exit reports 'not a user value' or an error (ORD-LSTHIDE); the symbol table reader dereferences accessor results only under the non-null precondition, so typed nulls in imports/name/version/max_id/symbols do not crash it (NIL-ACC scoped to readlocalsymboltable.go); every Reader field that can hold a resolved token is reset per value or after every assignment of the current table, so no token outlives the table it was resolved in (OWN-TOKCACHE); an import's declared max_id counts as declared from 0 upwards — only a negative or absent one falls back to the catalog (TAB-BOUNDS, readImport). The symbols list of a local symbol table yields one entry per element (ORD-APPENDEACH); a struct is a symbol table by its first annotation only (TAB-LSTFIRSTANN). imports: $ion_symbol_table hands back nothing only on an edge that established that the reader has no current table or only the system table (ORD-APPENDCARRY). An import leaves readImport as nil, as a placeholder of the declared size, or as the result of Adjust(declared max_id) — never as the catalog's table as found (ORD-IMPADJUST).",
		Necessary:  "A version marker that keeps the old table, a table struct surfacing as a user value, or a panic on a typed null in a table slot (F8, fixed) each break resolution against the table in force.",
		NotDecided: "append/replace semantics, catalog fallback order, max_id trimming/padding",
		Technique:  "SSA must-pass-through and nil-fact dataflow; forward path search from every assignment of the current table to an exit (token-holding fields); boundary extraction" + "; must-pass-through (append per loop iteration); index-constant check of the annotation compared" + "; edge-condition check of the exits of the append case" + "; value-origin check of readImport's result",
		DesignRef:  "DESIGN.md §3.2, §3.5, §4 C10",
		Rules:      []Rule{rOrdBVMReset, rOrdLstHide, {"NIL-ACC", rules.NilAcc(rules.ScopeLST, 4)}, rTokCache, only(rBounds, 1, funcHas("readImport")), rTextIVM, rAppEach, rLSTAnn, rAppCarry, rImpAdj},
	},
	"C11": {
		Decided:    "The field names and the annotation the symbol table writer emits are exactly those the symbol table reader dispatches on, max_id included (TAB-LSTFIELDS); the fixed/imported table is written before the first value (ORD-LSTFIRST); the builder consults imports and existing entries before defining a local symbol (ORD-FIRSTWINS); token text reaches the table lookup as it is — never through the '$n' interpretation, which would bypass a fixed table's 'not defined' error and emit an arbitrary ID (OWN-TEXTAUTH, binary writer obligations); with a fixed table, text it does not define ends in a non-nil error (OWN-FIXEDLST). No exported function of package ion ignores one of its named parameters, so shared tables, catalogs and options handed to a constructor or Marshal helper reach the writer (OWN-PARAMUSED). Every table sst.Adjust(n) returns has max_id n (TAB-ADJUSTMAX); lst.WriteTo writes one list element per entry of the table's symbols (ORD-APPENDEACH, writer obligation). A writer serialises its symbol table through its own methods only after clear() (ORD-LSTCLEAN).",
		Necessary:  "An import declaration the reader does not understand leaves every imported ID unresolvable; a table after the first value or a local redefinition of imported text emits IDs the stream does not (minimally) define.",
		NotDecided: "ID arithmetic across imports; minimality of the emitted table beyond lookup-before-add",
		Technique:  tabTech + "; SSA dominance for ORD; call-graph fixed point and value flow for OWN-TEXTAUTH; copy-source and path search rules for the builder and the writer" + "; SSA referrer check of exported functions' parameters" + "; postcondition check of Adjust; must-pass-through of a write per loop iteration" + "; must-pass-through of clear() before WriteTo(w), through callers of unexported helpers",
		DesignRef:  "DESIGN.md §3.4, §3.5, §4 C11",
		Rules:      []Rule{rLstFields, rOrdLstFirst, rOrdFirstWins, only(rTextAuth, 2, posHas("ion/binarywriter.go")), rImpFirst, rBuild, rWrCache, rIdxPair, rFixedLST, rParamUse, rAdjMax, only(rAppEach, 1, whatHas("one list element per entry")), rLstClean},
	},
	"C12": {
		Decided:    "For all 24 error-returning Writer methods on each writer implementation: the sticky error is tested before any effect on the writer (ERR-GUARD-W) and every returned error is the sticky error (ERR-STICKY-W); every value opened is closed on each success path (ORD-VALUE); Finish re-arms the binary writer before every success exit (ORD-REARM); every panicking pop on the writer-side stacks is dominated by a non-emptiness fact (ORD-POPGUARD, writer obligations); nothing in the writer implementation reachable from the Writer methods consults a time-, random- or schedule-dependent source and every map range there has an order-insensitive body (OWN-NONDET, functions outside marshal.go, fields.go and the command); an exit that refuses a call with an unrecorded UsageError (Finish away from the top level) is reached before any effect on the writer (REFUSE-PURE-W); closing a container reaches clear() before every exit that may succeed, so a pending field name or annotation never leaks to a later value (ORD-ENDCLEAR); the binary writer keeps no text-to-ID memory that outlives its symbol table builder (OWN-WRCACHE). The text writer forgets an owed separator only on a path that writes to the output (ORD-SEPSTATE). A slice emptied by reslicing is not stored into a writer field while a value read from the same field is still used, so pending annotations set aside during the symbol table's emission are not overwritten (OWN-RESLICE0). A writer serialises its symbol table through its own methods only after clear(), so an annotation pending at Finish is dropped, not attached to the table (ORD-LSTCLEAN).",
		Necessary:  "A method that works after an earlier error or returns an error it does not remember lets a later Finish return nil (F1–F3, fixed); an unclosed value or a Finish that is not re-armed emits an invalid stream on a nil Finish (F4, fixed); an unguarded pop panics on an illegal call sequence; a nondeterminism source makes the same calls yield different bytes.",
		NotDecided: "validity of the emitted stream beyond pairing (see C04), nil pointer arguments, WriteNullType with an out-of-range Type (finding F23, TAB-INDEX not built)",
		Technique:  ssaTech + "; forward path search to exits for ORD-ENDCLEAR / OWN-WRCACHE / REFUSE-PURE-W" + "; must-pass-through of an output write around separator-state resets" + "; alias check on s[:0] stores" + "; must-pass-through of clear() before WriteTo(w)",
		DesignRef:  "DESIGN.md §3.1, §3.5, §3.6, §4 C12",
		Rules: []Rule{
			rGuardW, rStickyW, rOrdValue, rOrdRearm, only(rOrdPopGuard, 2, funcHas("Writer", "writer")), only(rOwnNondet, 40, posLacks("ion/marshal.go", "ion/fields.go", "cmd/")), rRefuseW, rEndClear, rWrCache,
			rSepState,
			rReslice0,
			rLstClean,
		},
	},
	"C13": {
		Decided:     "On the numeric data path of package ion (every file that carries a number, length, symbol ID, exponent or calendar field between the API and the bytes): every integer conversion that can lose value bits or the sign has an operand interval inside the target type, or is the sign-magnitude idiom, or hands its result only to a callee that rejects the wrapped values, or is one of 5 residual rows with a reason (NUM-NARROW); every left shift keeps all value bits — in particular the 7-bits-per-byte VarUInt/VarInt accumulators are checked before each shift (NUM-SHIFT, 2 residual rows: fixed-width loops); every big.Int.Int64()/Uint64() is dominated by IsInt64()/IsUint64() on the same unmodified receiver (NUM-BIG); every float64→float32 narrowing is the losslessness test or dominated by it (NUM-F32); ints and symbol IDs are written as, and read from, the unsigned-magnitude codec Ion 1.0 prescribes — never the sign-magnitude Int subfield decoder (TAB-CODEC, int and symbol obligations); IntSize and IntValue draw the int32 boundary at exactly 2^31 and -2^31-1 (TAB-BOUNDS, accessor obligations). Under each case of a switch over IntSize() the accessor reached is wide enough for that case (TAB-INTSIZE); no typed accessor answers successfully before the value's type was read (TAB-ACCTYPE). The length a binary value announces is computed from the same operands, with the same width functions, as the bytes written after it (TAB-LENPAY). Int64Value refuses a *big.Int only after asking it whether it fits (NUM-BIGFIT). No byte buffer kept in a field of a reader or writer is handed out (OWN-SCRATCHOUT: zero such buffers today; the rule constrains any that is introduced).",
		Necessary:   "Each rule instance is a place where Go silently wraps, truncates or rounds: uint64(negative SID) (F25, fixed), int(VarUInt >= 2^63) as a year (fixed), a 10-byte VarUInt losing its top bits (fixed), Int64() of a 70-bit coefficient (F19, fixed), float32(x) without the equality test. An unchecked instance on the data path is a number that changes without an error.",
		NotDecided:  "the arithmetic inside each codec loop (bytes assembled in the right order), typed-null/usage-error behaviour of accessors (NIL-ACC under C06 covers the nil dereference side only); trip counts of the two fixed-width loops in ReadInt/ReadSymbolID (residual rows)",
		Technique:   numTech + "; enum value-set dataflow of IntSize() against accessor width; path search for a type read before successful exits of accessors" + "; sibling agreement of length functions and append functions" + "; presence of a deciding magnitude test before the too-large exit" + "; escape walk of slices derived from receiver buffer fields, through helpers, append-style callees and call sites",
		DesignRef:   "DESIGN.md §3.3, §4 C13, §0.7",
		Assumptions: []string{"int is 64 bits (linux/amd64, the analysed configuration)", "len/cap of a string or slice is at most 2^48 (runtime.maxAlloc on 64-bit platforms)", "documented result ranges of time.Time accessors, strconv.ParseInt(_, _, N), io.ReadFull, bufio.Reader.Discard, math/big.Int.BitLen"},
		Rules:       []Rule{rNarrow, rShift, rBig, rF32, only(rCodec, 12, funcHas("ReadInt", "ReadSymbolID", "WriteInt", "WriteUint", "WriteSymbol", "writeSymbolFromID")), only(rBounds, 5, funcHas("IntValue", "IntSize", "ReadSymbolID")), rIntSize, rAccType, rLenPay, rBigFit, rScrOut},
	},
	"C14": {
		Decided:    "Exponent arithmetic never wraps silently where this can be decided: every +, -, * and unary minus carried out in a type narrower than 64 bits (the decimal scale is an int32) has a result interval inside the type (NUM-EXP32) — Mul, ShiftL, ShiftR and ParseDecimal widen to int64, check the range and narrow; every narrowing in decimal.go has an in-range operand (NUM-NARROW, decimal.go obligations); no floating-point value takes part in Add, Sub, Mul, Neg, Abs, ShiftL, ShiftR, Cmp, Equal, Sign, Truncate, String, CoEx, ParseDecimal, NewDecimal or anything they call in the module (NUM-NOFLOAT). No function that distinguishes negative zero decides a Decimal's sign from an order test of its coefficient where the flag may be set (ORD-DECSIGN); every big.Int division in decimal.go is the truncating kind or has an Abs dividend (NUM-BIGDIV). Every big.Int method that writes its receiver is called on a big.Int allocated in the same function, so no operation changes an operand or a value handed out earlier (OWN-BIGFRESH).",
		Necessary:  "'0.1d-2147483648' parsed as 1d2147483647 because the fraction digits were subtracted from the exponent in int32 (F20, fixed: bbed24c). A float in an exact operation rounds. The four negations of the int32 scale (NewDecimal, CoEx, String x2) are a genuine, recorded defect at exponent -2^31 (known finding F20b: the value cannot be represented because the struct stores -exponent in an int32; ShiftL(1) on it panics).",
		NotDecided: "algebraic exactness of the big.Int arithmetic after rescaling, the three text layouts of String, Truncate's digit arithmetic, negative-zero propagation — arithmetic over unbounded runtime values; this is the weakest claim of the set",
		Technique:  numTech + "; call-graph closure for NUM-NOFLOAT" + "; branch-fact dataflow on isNegZero at coefficient sign tests; callee classification of big.Int division" + "; freshness check of the receivers of mutating big.Int methods",
		DesignRef:  "DESIGN.md §3.3, §4 C14, §0.7",
		Rules:      []Rule{rExp32, rNoFloat, only(rNarrow, 5, posHas("ion/decimal.go")), rDecSign, rBigDiv, only(rBigFresh, 8, posHas("ion/decimal.go"))},
	},
	"C15": {
		Decided:    "Calendar validation compares every field it hands to time.Date (which normalises month 13, day 32, hour 24, minute/second 60 instead of rejecting them) with the matching accessor of the result before every success exit, and the time value each decoded timestamp is built from has 1 <= Year() <= 9999 established — for the local time after the offset is applied, not for the UTC fields (TAB-DATEVAL); the binary timestamp layout uses the codecs Ion 1.0 prescribes on both sides — VarInt offset, VarUInt calendar fields, decimal fraction with VarInt exponent and Int coefficient (TAB-CODEC, timestamp obligations) — and timestampLen measures exactly the operands appendTimestamp appends, with the same codec, every unmeasured operand being a one-byte VarUInt by its interval (TAB-LENPAY, timestamp pair); calendar fields and fraction digits are narrowed only within range (NUM-NARROW, timestamp obligations) and the fraction rounding never extracts 64 bits from a larger big.Int (NUM-BIG); every index and slice bound the timestamp parser applies to its input string is inside the string (NUM-INDEX, NUM-SLICE, timestamp.go obligations — found F30: ParseTimestamp of 2000-01-01T00:00:00.123 panicked); the limits of the data model are drawn where the specification draws them — offset hours below 24, minutes below 60, years 1..9999, nine fraction digits kept, calendar fields at most 10000 (TAB-BOUNDS, timestamp obligations). No byte buffer kept in a field of a reader or writer is handed out (OWN-SCRATCHOUT: zero such buffers today; the rule constrains any that is introduced).",
		Necessary:  "Binary minute 60 was normalised into the next hour (F18, fixed); binary year 0, 10000, 2^31 and a wrapped 2^64-100 were accepted (fixed: 27f5dbd); a fraction coefficient measured with another codec than it is written with mis-frames every following byte (seeded C01-1/C04-1/C15-3); a 21-digit fraction decoded through Int64() of a 70-bit number (F19, fixed).",
		NotDecided: "text formatting (layout selection, trailing zeros), staged text parsing by string position, offset arithmetic and its 24h bound, rounding direction of fractions",
		Technique:  "SSA branch-fact dominance (equalities with time accessors, helper-predicate facts) + " + numTech + "; codec-family tables compared with Ion 1.0" + "; escape walk of slices derived from receiver buffer fields, through helpers, append-style callees and call sites",
		DesignRef:  "DESIGN.md §3.3, §3.4, §4 C15, §0.7",
		Rules: []Rule{
			rDateVal, only(rCodec, 14, anyOf(funcHas("imestamp", "readNsecs", "readDecimal"))), only(rLenPay, 18, funcHas("imestamp")),
			only(rNarrow, 12, anyOf(funcHas("imestamp", "readNsecs", "readDecimal"), posHas("ion/timestamp.go"))), only(rBig, 1, funcHas("round")), only(rIndex, 20, posHas("ion/timestamp.go")), only(rSlice, 8, posHas("ion/timestamp.go")), only(rBounds, 7, funcHas("imestamp", "computeTimezoneKind", "isIonYear")),
			rScrOut,
		},
	},
	"C16": {
		Decided:    "Only the determinism clause: MarshalText asks for sorted map keys and with that option encodeMap sorts the keys before emitting any field (ORD-SORTMAP); nothing reachable from Marshal*/Encoder/Writer methods consults a time-, random- or schedule-dependent source, and every map range has an order-insensitive body (OWN-NONDET); the one narrowing on the encode path, int64(v.Uint()), happens only under reflect kinds whose values fit (NUM-NARROW, marshal.go); every struct type without exported fields that the decoder recognises by identity (big.Int, Decimal, Timestamp, time.Time) is recognised by the encoder before the generic field walk (TAB-OPAQUE); every reflect.Kind the decoder accepts as a target is dispatched on by the encoder (TAB-KIND); a Go string marshalled as a symbol is written by its text, never through the '$n'-interpreting string API (OWN-TEXTAUTH, marshal obligations); no append in the field, marshal and unmarshal code keeps results of repeated appends to one fixed base slice, so field index paths of siblings never share a backing array (OWN-APPENDALIAS). A case-insensitive field match never ends the field search before every candidate was compared exactly (ORD-EXACTFIRST); the comparator of the key sort compares the keys themselves (ORD-SORTMAP); no exported function ignores a named parameter (OWN-PARAMUSED). No function of marshal.go reaches a mutating reflect call: Marshal never writes through the value it is given (OWN-ENCPURE). No slice is copied by appending it to a nil slice, which would turn an empty value into a nil one (NIL-EMPTYCOPY). reflect.Value.Addr is called only under CanAddr() or on a value addressable by construction (NIL-ADDR).",
		Necessary:  "Go's map iteration order is random, so an unsorted map encode or any other nondeterminism source makes MarshalText output differ between runs for the same value.",
		NotDecided: "value equality after the round trip: field paths through embedded structs, name matching, map keys, pointer/nil handling — behaviour of reflection over caller types",
		Technique:  "SSA dominance + call-graph reachability from the output API; type-identity and reflect.Kind tables extracted from SSA comparisons; loop/base analysis of append calls; value flow for OWN-TEXTAUTH" + "; loop-structure check around EqualFold (no return reachable without a back edge); comparator purity check; SSA referrer check of parameters" + "; call-graph reachability of mutating reflect methods from marshal.go" + "; shape check of append calls with a nil base" + "; branch-fact guard of reflect.Value.Addr",
		DesignRef:  "DESIGN.md §3.5, §3.6, §4 C16",
		Rules:      []Rule{rOrdSortMap, rOwnNondet, only(rNarrow, 1, posHas("ion/marshal.go")), rOpaque, rKind, only(rTextAuth, 1, posHas("ion/marshal.go", "ion/unmarshal.go")), only(rAppAlias, 2, posHas("ion/fields.go", "ion/marshal.go", "ion/unmarshal.go")), rExactFst, rParamUse, rEncPure, rEmptyCp, rAddr},
	},
	"C17": {
		Decided:    "In unmarshal.go: token text and the other nil-if-unknown pointer fields are tested before use (NIL-FIELD); accessor results are dereferenced only under the non-null precondition (NIL-ACC, NIL-ARG); Decoder.Decode/DecodeTo return the reader's error or ErrNoInput, never nil, when Next() reports no value (ORD-NOINPUT); every reflective numeric store is dominated by the matching Overflow test on the same value and operand, every signed-to-unsigned conversion by a sign test, every big.Int extraction by IsUint64 (NUM-REFLECT, NUM-NARROW, NUM-BIG in unmarshal.go); a reflective Set under a type-identity test stores a value of exactly that type (TAB-REFLECTSET); every index in unmarshal.go is in bounds (NUM-INDEX, unmarshal obligations). A case-insensitive field match never ends the field search before every candidate was compared exactly (ORD-EXACTFIRST); under each IntSize() case the accessor reached is wide enough (TAB-INTSIZE); no typed accessor answers successfully before the value's type was read (TAB-ACCTYPE). No slice is copied by appending it to a nil slice (NIL-EMPTYCOPY). reflect.Value.Addr is called only under CanAddr() or on a value addressable by construction (NIL-ADDR). Index paths of promoted fields are built on fresh storage (OWN-APPENDALIAS, fields.go): a shared backing array makes sibling fields of a deeply embedded struct decode into one another.",
		Necessary:  "A symbol without text ($0) or a typed null reaching an unguarded dereference panics instead of returning an error (F9, fixed); a Decoder that returns nil at the end of the stream never reports ErrNoInput.",
		NotDecided: "the value × target conversion table, the reader's position after a failed decode",
		Technique:  "SSA must-dataflow of nil facts; path search to exits; branch-fact dominance of Overflow*/IsUint64 tests; " + numTech + "; loop-structure check around EqualFold; enum value-set dataflow of IntSize(); path search for a type read before successful exits of accessors" + "; shape check of append calls with a nil base" + "; branch-fact guard of reflect.Value.Addr" + "; append-aliasing check of index paths",
		DesignRef:  "DESIGN.md §3.2, §3.5, §4 C17",
		Rules: []Rule{
			{"NIL-FIELD", rules.NilField(rules.ScopeUnmarshal, 2)}, {"NIL-ACC", rules.NilAcc(rules.ScopeUnmarshal, 10)}, {"NIL-ARG", rules.NilArg(rules.ScopeUnmarshal, 0)}, rOrdNoInput,
			rReflect, only(rBig, 1, posHas("ion/unmarshal.go")), only(rNarrow, 2, posHas("ion/unmarshal.go")), rReflSet, only(rIndex, 1, posHas("ion/unmarshal.go")),
			rExactFst, rIntSize, rAccType,
			rEmptyCp,
			rAddr,
			only(rAppAlias, 2, posHas("ion/fields.go", "ion/unmarshal.go")),
		},
	},
	"C18": {
		Decided:    "There is no shared mutable state: shared tables, local tables and the catalog are written only while being constructed (OWN-IMMUT); package-level variables and everything reachable from them are written only during package initialisation (OWN-GLOBAL); no method of a shared type hands out an alias of its internal slice or map (OWN-ESCAPE); nothing on the output path consults a schedule- or time-dependent source (OWN-NONDET). No function of marshal.go reaches a mutating reflect call, so concurrent Marshal calls on one value only read it (OWN-ENCPURE). Every big.Int method that writes its receiver is called on a big.Int allocated in the same function, so no operation changes an operand or a value handed out earlier (OWN-BIGFRESH). A value goes back into a sync.Pool only after a Reset on every path, error exits included (ORD-POOLRESET: no pool today; the rule constrains any that is introduced).",
		Necessary:  "With nothing written after construction every access to the shared objects is a read, and concurrent reads do not race (Go memory model); any write found by these rules is a write to an object two goroutines can hold.",
		NotDecided: "thread-safety of reflect, math/big, fmt, strconv internals (assumed); user-supplied io.Reader/io.Writer/Marshaler implementations",
		Technique:  "SSA store/alias roots + call-graph effect summaries; copy-source tracing for Build" + "; call-graph reachability of mutating reflect methods from marshal.go" + "; freshness check of the receivers of mutating big.Int methods" + "; must-precede of Reset before sync.Pool.Put on every exit",
		DesignRef:  "DESIGN.md §3.6, §4 C18",
		Rules:      []Rule{rOwnImmut, rOwnGlobal, rOwnEscape, rOwnNondet, rBuild, rEncPure, rBigFresh, rPoolRst},
	},
	"C19": {
		Decided:    "In the reader and writer files of package ion no error of a module function, ion interface method or I/O primitive is discarded (ERR-DROP) and no path from a non-nil error test reaches an exit with the error neither consumed nor replaced by a definitely non-nil error (ERR-SWAP); a failed write is sticky in every Writer method (ERR-STICKY-W); a failed read is made sticky before a Reader method returns it (ERR-STICKY-R); the caller's io.Reader is only wrapped in a bufio.Reader and that is used only through complete-or-error primitives (ReadByte, Peek, Discard, io.ReadFull), so no result depends on how a Read was chunked (OWN-INPUT). The end-of-input sentinel -1 is returned with a nil error only on the edge where the source's error is io.EOF (ERR-EOFONLY).",
		Necessary:  "bufio forgets an error once it has returned it, so an I/O error that is dropped, swapped for nil or returned without being stored looks like a clean end of data (F24, F26, fixed) or lets a later Finish return nil (F2, F3, fixed).",
		NotDecided: "equality of results across chunkings (follows from bufio's contract, trusted), the prefix property of accepted bytes",
		Technique:  ssaTech + "; who-may-call / escape analysis of the input primitives (OWN-INPUT)" + "; branch-fact check of the sentinel exits",
		DesignRef:  "DESIGN.md §3.1, §4 C19",
		Rules: []Rule{
			{"ERR-DROP", rules.ErrDrop(rules.ScopeIO, nil, 300)}, {"ERR-SWAP", rules.ErrSwap(rules.ScopeIO, rules.SwapSuppReader, 200)}, rStickyW, rStickyR, rOwnInput,
			rEOFOnly,
		},
	},
	"C20": {
		Decided:    "In cmd/ion-go: a possibly-nil accessor result (typed null) is dereferenced only where known non-nil and is not passed to a callee that dereferences it unguarded (NIL-ACC, NIL-ARG scoped to the command); the copy loop never extracts 64 bits from a big.Int without IsInt64/IsUint64 and never narrows a number out of range (NUM-BIG, NUM-NARROW scoped to the command); it never hands a token's text to a '$n'-interpreting Writer method (OWN-TEXTAUTH, command obligations); every Writer value method is called only under the reader Type() it writes, every accessor only under the type it reads, every Ion type has a writing arm and typed nulls go to WriteNullType on the IsNull() edge (TAB-COPYLOOP); every map field the command's writers assign into is initialised where the struct is built (NIL-MAP). Under each IntSize() case of the copy loop the accessor reached is wide enough (TAB-INTSIZE); output files are opened with O_TRUNC, O_APPEND or O_EXCL (TAB-OPENFLAGS). SymbolToken.Text is dereferenced in the command only under a nil test of the same path (NIL-FIELD, cmd scope). Every loop of the command that advances a Reader asks for the value's Type on every path round the loop, so no value is skipped unvalidated (TAB-NEXTVISIT).",
		Necessary:  "The copy loop reads every scalar through the nil-returning accessors; an unguarded dereference is a panic on null.int and friends (part of F22, fixed).",
		NotDecided: "output equivalence, event stream well-formedness (which text helper renders which type), reporting of write failures (11 write errors are assigned to a shadowed err and lost), the panic(err) calls in stringify/symbolify/clobify",
		Technique:  "SSA must-dataflow of nil facts with inferred callee preconditions; enum value-set dataflow of the reader Type() at every Reader accessor and Writer method call of the copy loop; branch-fact dominance for big.Int extraction; value flow for OWN-TEXTAUTH" + "; enum value-set dataflow of IntSize(); constant flag check of os.OpenFile" + "; branch-fact dataflow for nil-if-unknown fields" + "; must-pass-through of Type() between two Next() calls",
		DesignRef:  "DESIGN.md §3.2, §4 C20",
		Rules:      []Rule{{"NIL-ACC", rules.NilAcc(rules.ScopeCmd, 1)}, {"NIL-ARG", rules.NilArg(rules.ScopeCmd, 1)}, {"NUM-BIG", rules.NumBig(rules.ScopeCmd, 0)}, {"NUM-NARROW", rules.NumNarrow(rules.ScopeCmd, nil, 0)}, only(rTextAuth, 0, posHas("cmd/")), rCopyLoop, {"NIL-MAP", rules.NilMap(rules.ScopeCmd, 1)}, rIntSize, rOpenFl, {"NIL-FIELD", rules.NilField(rules.ScopeCmd, 0)}, rNextVis},
	},
}

// devRules: every rule by name, for `ionlint -dev RULE`.
var devRules = map[string]Rule{
	"ORD-VALUE":       rOrdValue,
	"TAB-LSTFIELDS":   rLstFields,
	"ORD-LSTHIDE":     rOrdLstHide,
	"TAB-KEYWORD":     rKeyword,
	"ORD-SORTMAP":     rOrdSortMap,
	"NUM-FLAGOR":      rFlagOr,
	"NUM-ZEROSIGN":    rZeroSign,
	"ORD-DECSIGN":     rDecSign,
	"NUM-BIGDIV":      rBigDiv,
	"TAB-INTSIZE":     rIntSize,
	"TAB-OPENFLAGS":   rOpenFl,
	"OWN-PARAMUSED":   rParamUse,
	"ORD-SEPSTATE":    rSepState,
	"ORD-EXACTFIRST":  rExactFst,
	"OWN-STOPCHAR":    rStopChar,
	"TAB-WSSET":       rWSSet,
	"ORD-APPENDEACH":  rAppEach,
	"TAB-LSTFIRSTANN": rLSTAnn,
	"ORD-BSCLEAR":     rBSClear,
	"ORD-TOKFINISH":   rTokFin,
	"TAB-ACCTYPE":     rAccType,
	"OWN-RESLICE0":    rReslice0,
	"TAB-ESCRUNE":     rEscRune,
	"OWN-ENCPURE":     rEncPure,
	"TAB-OVERRUN":     rOverrun,
	"NIL-FIELD-CMD":   {"NIL-FIELD", rules.NilField(rules.ScopeCmd, 0)},
	"ORD-APPENDCARRY": rAppCarry,
	"OWN-SYMQUOTE":    rSymQuote,
	"TAB-ADJUSTMAX":   rAdjMax,
	"TAB-LENCOUNT":    rLenCount,
	"TAB-NEXTVISIT":   rNextVis,
	"ORD-DANGLE-BIN":  rDangleB,
	"TAB-UTF8":        rUTF8,
	"ORD-LSTCLEAN":    rLstClean,
	"OWN-BSSCRATCH":   rBSScr,
	"NIL-EMPTYCOPY":   rEmptyCp,
	"ORD-UNREAD":      rUnread,
	"TAB-OPCOMMENT":   rOpCmt,
	"ORD-OPENSTAR":    rOpenStar,
	"TAB-SURROGATE":   rSurr,
	"NIL-ADDR":        rAddr,
	"OWN-SCRATCHOUT":  rScrOut,
	"ERR-EOFONLY":     rEOFOnly,
	"TAB-READVIA":     rReadVia,
	"NUM-BIGFIT":      rBigFit,
	"ORD-POOLRESET":   rPoolRst,
	"TAB-SKIPARMS":    rSkipArms,
	"ORD-IMPADJUST":   rImpAdj,
	"OWN-BIGFRESH":    rBigFresh,
	"NUM-NARROW-TU":   {"NUM-NARROW", rules.NumNarrow(rules.Scope{Name: "textutils.go", Pkgs: []string{"ion"}, Files: []string{"textutils.go"}}, nil, 0)},
	"NUM-NARROW":      {"NUM-NARROW", rules.NumNarrow(rules.ScopeNum, rules.NarrowResiduals, 0)},
	"NUM-SHIFT":       {"NUM-SHIFT", rules.NumShift(rules.ScopeNum, rules.ShiftResiduals, 0)},
	"NUM-EXP32":       {"NUM-EXP32", rules.NumArith32(rules.ScopeNum, nil, 0)},
	"NUM-BIG":         {"NUM-BIG", rules.NumBig(rules.ScopeIon, 0)},
	"NUM-F32":         {"NUM-F32", rules.NumF32(rules.ScopeIon, 0)},
	"NUM-REFLECT":     {"NUM-REFLECT", rules.NumReflect(rules.ScopeIon, 0)},
	"NUM-NOFLOAT":     {"NUM-NOFLOAT", rules.NumNoFloat},
	"TAB-LENPAY":      {"TAB-LENPAY", rules.TabLenPay},
	"TAB-CODEC":       {"TAB-CODEC", rules.TabCodec},
	"OWN-TEXTAUTH":    {"OWN-TEXTAUTH", rules.OwnTextAuth},
	"OWN-INPUT":       {"OWN-INPUT", rules.OwnInput},
	"TAB-DATEVAL":     {"TAB-DATEVAL", rules.TabDateVal},
	"ORD-STEPIN":      {"ORD-STEPIN", rules.OrdStepIn},
	"TAB-NIBBLE-NEXT": {"TAB-NIBBLE-NEXT", rules.TabNibbleNext},
	"ORD-DECNEGZERO":  {"ORD-DECNEGZERO", rules.OrdDecNegZero},
	"ORD-TEXTIVM":     {"ORD-TEXTIVM", rules.OrdTextIVM},
	"NUM-USUB":        {"NUM-USUB", rules.NumUSub(rules.ScopeReader, rules.USubResiduals, 0)},
	"TAB-BUDGET":      {"TAB-BUDGET", rules.TabBudget},
	"OWN-FIXEDLST":    {"OWN-FIXEDLST", rules.OwnFixedLST},
	"TAB-REFLECTSET":  {"TAB-REFLECTSET", rules.TabReflectSet},
	"TAB-INDEXPAIR":   {"TAB-INDEXPAIR", rules.TabIndexPair},
	"ORD-NEGZERO":     {"ORD-NEGZERO", rules.OrdNegZero},
	"TAB-BOUNDS":      {"TAB-BOUNDS", rules.TabBounds},
	"OWN-APPENDALIAS": {"OWN-APPENDALIAS", rules.OwnAppendAlias(rules.ScopeIon, 0)},
	"OWN-PANICAPI":    {"OWN-PANICAPI", rules.OwnPanicAPI(rules.ScopeAlloc, 0)},
	"TAB-COPYLOOP":    {"TAB-COPYLOOP", rules.TabCopyLoop},
	"NIL-MAP":         {"NIL-MAP", rules.NilMap(rules.Scope{Name: "the module"}, 0)},
	"TAB-OPAQUE":      {"TAB-OPAQUE", rules.TabOpaque},
	"TAB-KIND":        {"TAB-KIND", rules.TabKind},
	"ORD-ENDCLEAR":    {"ORD-ENDCLEAR", rules.OrdEndClear},
	"OWN-WRCACHE":     {"OWN-WRCACHE", rules.OwnWriterCache},
	"NUM-INDEX":       {"NUM-INDEX", rules.NumIndex(rules.ScopeAlloc, rules.IndexResiduals, 0)},
	"NUM-SLICE":       {"NUM-SLICE", rules.NumSlice(rules.ScopeSlice, rules.SliceResiduals, 0)},
	"REFUSE-PURE-W":   {"REFUSE-PURE-W", rules.RefusePureW},
	"OWN-TOKCACHE":    {"OWN-TOKCACHE", rules.OwnTokCache},
	"TAB-SID0":        {"TAB-SID0", rules.TabSid0},
	"ORD-IMPORTFIRST": {"ORD-IMPORTFIRST", rules.OrdImportFirst},
	"OWN-BUILD":       {"OWN-BUILD", rules.OwnBuild},
	"OWN-LOBWS":       {"OWN-LOBWS", rules.OwnLobWS},
	"NUM-ALLOC":       {"NUM-ALLOC", rules.NumAlloc(rules.ScopeAlloc, rules.AllocResiduals, 0)},
	"NUM-BIG-ALL":     {"NUM-BIG", rules.NumBig(rules.Scope{Name: "module"}, 0)},
}
