package main

import "verif/checker/internal/report"

func thorough(id string, p *Property, run *report.Run) {}
