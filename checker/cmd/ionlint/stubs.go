package main

import "verif/checker/internal/report"

func runMutant(prop, name string) int                  { return 2 }
func thorough(id string, p *Property, run *report.Run) {}
func runControls(id, tier string) []report.Control     { return nil }
