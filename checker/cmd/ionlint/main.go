// ionlint decides the structural clauses of the ion-go properties by static
// analysis of /repo's current working tree (go/types + go/ssa + VTA call graph).
//
//	ionlint -property C12 -tier quick|thorough
//	ionlint -all                 run every claimed property in one load (development aid)
//	ionlint -manifest            regenerate /verif/MANIFEST.json from the registry
//	ionlint -property C12 -mutant NAME   (internal) analyse an in-memory mutant and print fired keys
package main

import (
	"flag"
	"fmt"
	"os"
	"path/filepath"
	"runtime/debug"
	"sort"
	"strconv"
	"strings"
	"time"

	"verif/checker/internal/effects"
	"verif/checker/internal/load"
	"verif/checker/internal/report"
	"verif/checker/internal/rules"
)

var verifDir = func() string {
	if d := os.Getenv("IONLINT_VERIF"); d != "" {
		return d
	}
	return "/verif"
}()

func main() {
	prop := flag.String("property", "", "property id (C01..C20)")
	tier := flag.String("tier", "", "quick | thorough (default $VERIF_TIER or quick)")
	all := flag.Bool("all", false, "run all claimed properties")
	manifest := flag.Bool("manifest", false, "write MANIFEST.json")
	mutant := flag.String("mutant", "", "internal: analyse this mutant and list fired keys")
	listRules := flag.Bool("rules", false, "list rules per property")
	dump := flag.Bool("dump", false, "print every obligation")
	onlyRule := flag.String("rule", "", "run only this rule (development aid)")
	dev := flag.String("dev", "", "development aid: run one rule from devRules and print its obligations")
	idents := flag.Bool("idents", false, "development aid: print the identifiers of the module (for tools/gen_anchors.py)")
	flag.Parse()
	if *idents {
		prog, err := load.Load(load.Options{})
		if err != nil {
			fmt.Println("CHECKER-ERROR:", err)
			os.Exit(2)
		}
		for _, id := range rules.ModuleIdents(prog) {
			fmt.Println(id)
		}
		return
	}

	if *tier == "" {
		*tier = os.Getenv("VERIF_TIER")
	}
	if *tier == "" {
		*tier = "quick"
	}
	if *tier != "quick" && *tier != "thorough" {
		fmt.Fprintln(os.Stderr, "bad tier", *tier)
		os.Exit(2)
	}
	seed := int64(0)
	if s := os.Getenv("VERIF_SEED"); s != "" {
		seed, _ = strconv.ParseInt(s, 10, 64)
	}

	switch {
	case *dev != "":
		os.Exit(runDev(*dev))
	case *manifest:
		if err := writeManifest(); err != nil {
			fmt.Fprintln(os.Stderr, err)
			os.Exit(2)
		}
		return
	case *listRules:
		for _, id := range propertyIDs() {
			p := registry[id]
			var names []string
			for _, r := range p.Rules {
				names = append(names, r.ID)
			}
			fmt.Printf("%s  %s\n", id, strings.Join(names, " "))
		}
		return
	case *mutant != "":
		os.Exit(runMutant(*prop, *mutant))
	case *all:
		code := 0
		prog, err := load.Load(load.Options{})
		if err != nil {
			fmt.Println("CHECKER-ERROR:", err)
			os.Exit(2)
		}
		for _, id := range propertyIDs() {
			if len(registry[id].Rules) == 0 {
				continue
			}
			c := runProperty(id, *tier, seed, prog, *dump, *onlyRule)
			fmt.Printf("== %s exit %d\n", id, c)
			if c > code {
				code = c
			}
		}
		os.Exit(code)
	case *prop != "":
		os.Exit(runProperty(*prop, *tier, seed, nil, *dump, *onlyRule))
	default:
		flag.Usage()
		os.Exit(2)
	}
}

func propertyIDs() []string {
	var ids []string
	for id := range registry {
		ids = append(ids, id)
	}
	sort.Strings(ids)
	return ids
}

// runProperty loads the repository (unless a loaded program is passed in),
// runs the property's rules and controls, writes the evidence and prints the
// verdict.
func runProperty(id, tier string, seed int64, prog *load.Program, dump bool, onlyRule string) (code int) {
	p, ok := registry[id]
	if !ok || len(p.Rules) == 0 {
		fmt.Printf("CHECKER-ERROR: property %s is not claimed (see MANIFEST.not_applicable)\n", id)
		return 2
	}
	run := &report.Run{
		Property: id, Tier: tier, Seed: seed, Started: time.Now(),
		Explanation: p.Decided, NotDecided: p.NotDecided,
		Assumptions: p.Assumptions,
		Trusted:     trustedBase,
		CheckerCmd:  "bin/ionlint -property " + id + " -tier " + tier,
		Extra:       map[string]interface{}{},
	}
	defer func() {
		if r := recover(); r != nil {
			fmt.Printf("CHECKER-ERROR: panic in checker: %v\n%s\n", r, debug.Stack())
			code = 2
		}
	}()
	var err error
	if prog == nil {
		prog, err = load.Load(load.Options{})
		if err != nil {
			fmt.Println("CHECKER-ERROR:", err)
			return 2
		}
	}
	// Effect summaries are computed before any rule runs: they install the
	// pure-call canonicalisation used by access paths, so a rule's verdict
	// cannot depend on which rules ran before it.
	effects.Of(prog)
	rules.InstallPredicates(prog)
	for _, pk := range prog.Pkgs {
		run.Packages = append(run.Packages, pk.PkgPath)
	}
	run.Functions = len(prog.Funcs)
	run.Configs = []string{"linux/amd64, no build tags, non-test files"}
	for _, r := range p.Rules {
		if onlyRule != "" && r.ID != onlyRule {
			continue
		}
		res := runWithRoles(r, prog)
		res.DedupKeys()
		run.Results = append(run.Results, res)
	}
	if cg := prog.CallGraphIfBuilt(); cg != nil {
		n := 0
		for _, nd := range cg.Nodes {
			n += len(nd.Out)
		}
		run.CGEdges = n
	}
	if tier == "thorough" {
		thorough(id, p, run)
	}
	if onlyRule == "" {
		baseline := map[string]bool{}
		for _, r := range run.Results {
			for _, o := range r.Obligations {
				if o.Status != report.Discharged {
					baseline[o.Key] = true
				}
			}
		}
		run.Controls = append(run.Controls, runControlsFor(id, tier, baseline)...)
	}
	kf, err := report.LoadFindings(filepath.Join(verifDir, "known_findings.json"))
	if err != nil {
		fmt.Println("CHECKER-ERROR:", err)
		return 2
	}
	out := run.Decide(kf)
	if dump {
		for _, r := range run.Results {
			for _, o := range r.Obligations {
				fmt.Printf("%-10s %-11s %-28s %-40s %s | %s %s\n", o.Rule, o.Status, o.Pos, o.Func, o.What, o.By, o.Detail)
			}
		}
	}
	replay, err := run.WriteEvidence(filepath.Join(verifDir, "evidence"), out)
	if err != nil {
		fmt.Println("CHECKER-ERROR:", err)
		return 2
	}
	obl, dis := 0, 0
	for _, r := range run.Results {
		obl += len(r.Obligations)
		dis += r.Count(report.Discharged)
		fmt.Printf("  rule %-16s instances=%-4d discharged=%-4d violations=%d\n", r.ID, len(r.Obligations), r.Count(report.Discharged), r.Count(report.Violation)+r.Count(report.Undecided))
	}
	fmt.Printf("%s tier=%s packages=%d functions=%d obligations=%d discharged=%d controls=%d wall=%.1fs\n",
		id, tier, len(run.Packages), run.Functions, obl, dis, len(run.Controls), time.Since(run.Started).Seconds())
	return out.Print(id, replay)
}
