#!/usr/bin/env python3
# Generates controls/core.json: in-memory mutants (kind=break must make the named rule fire on the
# named construct, kind=refactor must stay silent). Edit here, then run this script.
import json, os
M = []
def m(name, rule, props, kind, file, old, new, expect="", quick=False, why="", more=None):
    d = dict(name=name, rule=rule, props=props, kind=kind, file=file, old=old, new=new, expect=expect, quick=quick, why=why)
    if more:
        d["more"] = [dict(old=o, new=n) for o, n in more]
    M.append(d)

BW, TW, WR = "ion/binarywriter.go", "ion/textwriter.go", "ion/writer.go"
BR, TR, RD = "ion/binaryreader.go", "ion/textreader.go", "ion/reader.go"
BS, TK, SK = "ion/bitstream.go", "ion/tokenizer.go", "ion/skipper.go"
ST, CT, UM, MS = "ion/symboltable.go", "ion/catalog.go", "ion/unmarshal.go", "ion/marshal.go"
TU, CO, RL, FD = "ion/textutils.go", "ion/consts.go", "ion/readlocalsymboltable.go", "ion/fields.go"
BITS, DEC = "ion/bits.go", "ion/decimal.go"

# ---- ERR-GUARD-W / ERR-STICKY-W
m("guardw-drop-guard-writeclob", "ERR-GUARD-W", ["C12"], "break", BW,
  "func (w *binaryWriter) WriteClob(val []byte) error {\n\tif w.err != nil {\n\t\treturn w.err\n\t}\n",
  "func (w *binaryWriter) WriteClob(val []byte) error {\n", "binaryWriter.WriteClob", True,
  "entry guard deleted: a value is buffered after an earlier error")
m("guardw-refactor-beginlist", "ERR-GUARD-W", ["C12"], "refactor", BW,
  "func (w *binaryWriter) BeginList() error {\n\tif w.err == nil {\n\t\tw.err = w.begin(\"Writer.BeginList\", ctxInList, 0xB0)\n\t}\n\treturn w.err\n}",
  "func (w *binaryWriter) BeginList() error {\n\tif w.err != nil {\n\t\treturn w.err\n\t}\n\tw.err = w.begin(\"Writer.BeginList\", ctxInList, 0xB0)\n\treturn w.err\n}",
  "", True, "guard spelled as early return instead of if-nil block")
m("stickyw-local-err-writestring", "ERR-STICKY-W", ["C12", "C19"], "break", TW,
  "\tif w.err = writeEscapedString(val, w.out); w.err != nil {\n\t\treturn w.err\n\t}",
  "\tif err := writeEscapedString(val, w.out); err != nil {\n\t\treturn err\n\t}", "textWriter.WriteString", True,
  "write error returned but not remembered")
m("stickyw-finish-nil-after-error", "ERR-STICKY-W", ["C12", "C19"], "break", TW,
  "\t\tif w.err = writeRawChar('\\n', w.out); w.err != nil {\n\t\t\treturn w.err\n\t\t}\n\t\tw.needsSeparator = false",
  "\t\tw.err = writeRawChar('\\n', w.out)\n\t\tw.needsSeparator = false", "textWriter.Finish", False,
  "Finish returns nil although the final write failed")
m("stickyw-refactor-writevalue", "ERR-STICKY-W", ["C12", "C19"], "refactor", BW,
  "\tif w.err = w.write(val); w.err != nil {\n\t\treturn w.err\n\t}\n\n\tw.err = w.endValue()\n\treturn w.err\n}",
  "\terr := w.write(val)\n\tif err != nil {\n\t\tw.err = err\n\t\treturn err\n\t}\n\n\tw.err = w.endValue()\n\treturn w.err\n}",
  "", False, "store-then-return spelled with a local")

# ---- reader error rules
m("absorb-drop-guard-stepin", "ERR-ABSORB-R", ["C07"], "break", BR,
  "func (r *binaryReader) StepIn() error {\n\tif r.err != nil {\n\t\treturn r.err\n\t}\n",
  "func (r *binaryReader) StepIn() error {\n", "binaryReader.StepIn", True, "StepIn mutates the cursor after an error")
m("absorb-explode-without-done", "ERR-ABSORB-R", ["C07"], "break", TR,
  "\tt.state = trsDone\n\tt.err = err\n", "\tt.err = err\n", "errstore", False, "err set but Next keeps going")
m("absorb-next-guard-inverted", "ERR-ABSORB-R", ["C07"], "break", BR,
  "\tif r.eof || r.err != nil {\n\t\treturn false\n\t}", "\tif r.eof {\n\t\treturn false\n\t}", "binaryReader.Next", False,
  "Next continues after an error")
m("stickyr-stepout-no-explode", "ERR-STICKY-R", ["C07", "C19"], "break", TR,
  "\t_, err := t.tok.FinishValue()\n\tif err != nil {\n\t\tt.explode(err)\n\t\treturn err\n\t}",
  "\t_, err := t.tok.FinishValue()\n\tif err != nil {\n\t\treturn err\n\t}", "textReader.StepOut", True,
  "skip error returned but Err() stays nil")
m("stickyr-next-local-err", "ERR-STICKY-R", ["C07", "C19"], "break", BR,
  "\t\tdone, r.err = r.next()\n\t\tif r.err != nil {\n\t\t\treturn false\n\t\t}",
  "\t\tvar err error\n\t\tdone, err = r.next()\n\t\tif err != nil {\n\t\t\treturn false\n\t\t}", "binaryReader.Next", False,
  "Next returns false on error without recording it: looks like a clean end")
m("refuse-clear-before-refusal", "REFUSE-PURE", ["C08", "C07"], "break", BR,
  "\tif r.value == nil {\n\t\treturn &UsageError{\"Reader.StepIn\", \"cannot step in to a null container\"}",
  "\tr.annotations = nil\n\tif r.value == nil {\n\t\treturn &UsageError{\"Reader.StepIn\", \"cannot step in to a null container\"}",
  "binaryReader.StepIn|refusal", True, "a refused StepIn wipes the annotations")

# ---- ERR-DROP / ERR-SWAP
m("errdrop-writefieldname", "ERR-DROP", ["C19"], "break", TW,
  "\tif err := writeSymbol(*name, w.out); err != nil {\n\t\treturn err\n\t}\n\n\tsep := \":\"",
  "\twriteSymbol(*name, w.out)\n\n\tsep := \":\"", "writeFieldName", True, "write error discarded")
m("errswap-readn-ioerror", "ERR-SWAP", ["C19", "C07", "C06"], "break", BS,
  "\t\tif err != nil {\n\t\t\treturn nil, &IOError{err}\n\t\t}\n\n\t\tfilled = len(bs)",
  "\t\tif err != nil {\n\t\t\treturn bs, nil\n\t\t}\n\n\t\tfilled = len(bs)", "readN", True, "I/O failure turned into success")
m("errswap-tokenizer-read-continue", "ERR-SWAP", ["C19", "C07"], "break", TK,
  "\tc, err := t.in.ReadByte()\n\tif err == io.EOF {\n\t\treturn -1, nil\n\t}\n\tif err != nil {\n\t\treturn 0, &IOError{err}\n\t}",
  "\tc, err := t.in.ReadByte()\n\tif err != nil {\n\t\treturn -1, nil\n\t}", "tokenizer).read", False,
  "every read failure is reported as end of input")

# ---- NIL
m("nilacc-readsymbols-deref", "NIL-ACC", ["C06", "C10"], "break", RL,
  "\t\t\tif sym != nil {\n\t\t\t\tsyms = append(syms, *sym)\n\t\t\t} else {\n\t\t\t\tsyms = append(syms, \"\")\n\t\t\t}",
  "\t\t\tsyms = append(syms, *sym)", "readSymbols", True, "null.string in symbols list crashes")
m("nilacc-decode-drop-isnull", "NIL-ACC", ["C06", "C17"], "break", UM,
  "func (d *Decoder) decode() (interface{}, error) {\n\tif d.r.IsNull() {\n\t\treturn nil, nil\n\t}\n",
  "func (d *Decoder) decode() (interface{}, error) {\n", "decode|", True, "typed null reaches *val")
m("nilacc-decodeto-null-fallthrough", "NIL-ACC", ["C06", "C17"], "break", UM,
  "\t\tif v.Type().Kind() == reflect.Struct {\n\t\t\treturn d.attachAnnotations(v)\n\t\t}\n\t\treturn nil\n\t}",
  "\t\tif v.Type().Kind() == reflect.Struct {\n\t\t\treturn d.attachAnnotations(v)\n\t\t}\n\t}", "decode", False,
  "null no longer returns early, so the inferred non-null precondition of decodeXTo is lost")
m("nilacc-refactor-readsymbols", "NIL-ACC", ["C06", "C10"], "refactor", RL,
  "\t\t\tif sym != nil {\n\t\t\t\tsyms = append(syms, *sym)\n\t\t\t} else {\n\t\t\t\tsyms = append(syms, \"\")\n\t\t\t}",
  "\t\t\tif sym == nil {\n\t\t\t\tsyms = append(syms, \"\")\n\t\t\t\tcontinue\n\t\t\t}\n\t\t\tsyms = append(syms, *sym)", "", True,
  "guard spelled as early continue")
m("nilfield-isionsymboltable", "NIL-FIELD", ["C06"], "break", BR,
  "len(as) > 0 && as[0].Text != nil && *as[0].Text == \"$ion_symbol_table\"",
  "len(as) > 0 && *as[0].Text == \"$ion_symbol_table\"", "isIonSymbolTable", True, "annotation $0 on a top-level struct crashes")

# ---- OWN
m("immut-lazy-index", "OWN-IMMUT", ["C18", "C09"], "break", ST,
  "func (s *sst) FindByName(sym string) (uint64, bool) {\n\tid, ok := s.index[sym]",
  "func (s *sst) FindByName(sym string) (uint64, bool) {\n\tif s.index == nil {\n\t\ts.index = buildIndex(s.symbols, 1)\n\t}\n\tid, ok := s.index[sym]",
  "sst.index", True, "lazy index build on a shared table: data race between readers")
m("immut-adjust-in-place", "OWN-IMMUT", ["C18", "C09"], "break", ST,
  "\tif maxID == s.maxID {\n\t\t// Nothing needs to change.\n\t\treturn s\n\t}",
  "\tif maxID == s.maxID {\n\t\t// Nothing needs to change.\n\t\treturn s\n\t}\n\tif maxID == s.maxID+1 {\n\t\ts.maxID = maxID\n\t\treturn s\n\t}",
  "sst.maxID", False, "Adjust mutates the receiver for one special case")
m("global-field-cache", "OWN-GLOBAL", ["C18"], "break", FD,
  "func fieldsFor(t reflect.Type) []field {\n\tfldr := fielder{index: map[string]bool{}}\n\tfldr.inspect(t, nil)\n\treturn fldr.fields\n}",
  "var fieldCache = map[reflect.Type][]field{}\n\nfunc fieldsFor(t reflect.Type) []field {\n\tif fs, ok := fieldCache[t]; ok {\n\t\treturn fs\n\t}\n\tfldr := fielder{index: map[string]bool{}}\n\tfldr.inspect(t, nil)\n\tfieldCache[t] = fldr.fields\n\treturn fldr.fields\n}",
  "fieldCache", True, "unsynchronised global cache: concurrent Marshal calls race (fatal 'concurrent map writes')")
m("escape-symbols-alias", "OWN-ESCAPE", ["C18"], "break", ST,
  "func (t *lst) Symbols() []string {\n\tsyms := make([]string, len(t.symbols))\n\tcopy(syms, t.symbols)\n\treturn syms\n}",
  "func (t *lst) Symbols() []string {\n\treturn t.symbols\n}", "lst).Symbols", True, "getter hands out internal storage")
m("nondet-build-from-map-order", "OWN-NONDET", ["C18", "C12"], "break", ST,
  "\tfor s, i := range b.index {\n\t\tindex[s] = i\n\t}",
  "\tfor s := range b.index {\n\t\tsymbols = append(symbols, s)\n\t}", "Build|range over map", True,
  "symbol order taken from map iteration")

# ---- TAB
m("typecode-null-clob", "TAB-TYPECODE", ["C01", "C04"], "break", CO,
  "\tret[ClobType] = 0x9F", "\tret[ClobType] = 0xAF", "binaryNulls[ClobType]", True, "null.clob written as null.blob")
m("typecode-reader-clob-as-blob", "TAB-TYPECODE", ["C03", "C01"], "break", BR,
  "\tcase bitcodeClob:\n\t\tr.valueType = ClobType", "\tcase bitcodeClob:\n\t\tr.valueType = BlobType", "value type for bitcodeClob", True,
  "clob decoded as blob")
m("typecode-float-size-2", "TAB-TYPECODE", ["C03"], "break", BS,
  "\tcase 0:\n\t\tret = 0\n\n\tcase 4:", "\tcase 0, 2:\n\t\tret = 0\n\n\tcase 4:", "accepted float sizes", False, "2-byte float accepted")
m("nibble-drop-bool-case", "TAB-NIBBLE", ["C03"], "break", BS,
  "\tif code == bitcodeFalse {\n\t\t// Booleans keep their value, not a length, in the low nibble and have no body.\n\t\tlength = 0\n\t}\n\n",
  "", "bitcodeFalse", True, "annotated true rejected")
m("nullkw-writer-sexp", "TAB-NULLKW", ["C01", "C04"], "break", CO,
  "\tret[SexpType] = \"null.sexp\"", "\tret[SexpType] = \"null.list\"", "textNulls[SexpType]", True, "null.sexp written as null.list")
m("nullkw-reader-sexp", "TAB-NULLKW", ["C01", "C02"], "break", TR,
  "\tcase \"sexp\":\n\t\treturn SexpType, nil", "\tcase \"sexp\":\n\t\treturn ListType, nil", "null.sexp", False, "null.sexp read as null.list")
m("escape-reader-v", "TAB-ESCAPE", ["C01", "C02"], "break", TK,
  "\tcase 'v':\n\t\treturn '\\v', nil", "\tcase 'v':\n\t\treturn '\\f', nil", "reader: \\v||writer: byte 0x0B", True, "\\v decoded as form feed")
m("escape-writer-v", "TAB-ESCAPE", ["C01", "C04"], "break", TU,
  "\tcase '\\v':\n\t\treturn writeRawString(\"\\\\v\", out)", "\tcase '\\v':\n\t\treturn writeRawString(\"\\\\?\", out)", "0x0B", False,
  "vertical tab written as \\? which reads back as '?'")
m("escape-symbol-predicate", "TAB-ESCAPE", ["C01", "C04"], "break", TU,
  "\t\tif c < 32 || c == '\\\\' || c == '\\'' {", "\t\tif c < 32 || c == '\\\\' || c == '\"' {", "writeEscapedSymbol escapes when eq:39", False,
  "a quote inside a quoted symbol is written raw")
m("escape-u-in-clob", "TAB-ESCAPE", ["C02", "C07"], "break", TK,
  "\tcase 'u':\n\t\tif isClob {\n\t\t\treturn 0, t.invalidChar('u')\n\t\t}\n\t\tr, err := t.readHexEscapeSeq(4)",
  "\tcase 'u':\n\t\tr, err := t.readHexEscapeSeq(4)", "\\u refused in clobs", False, "\\u accepted in clobs")
m("keyword-nan-unquoted", "TAB-KEYWORD", ["C01", "C04"], "break", TU,
  "\tcase \"\", \"null\", \"true\", \"false\", \"nan\":\n\t\treturn true", "\tcase \"\", \"null\", \"true\", \"false\":\n\t\treturn true", "nan", True,
  "symbol 'nan' written unquoted reads back as a float")
m("lstfields-maxid-renamed", "TAB-LSTFIELDS", ["C11", "C10"], "break", ST,
  "st, err = NewSymbolToken(t, \"max_id\")", "st, err = NewSymbolToken(t, \"maxid\")", "max", True, "imports written without a max_id the reader understands")
m("token-skip-arm-removed", "TAB-TOKEN", ["C08"], "break", SK,
  "\tcase tokenLongString:\n\t\tc, err = t.skipLongString()\n", "", "tokenLongString", True, "skipping a long string panics")

# ---- controls added with the final registry (ORD engine, side-restricted rules)
PR = "cmd/ion-go/process.go"
m("errdrop-tokenizer-doublecolon", "ERR-DROP", ["C07", "C19"], "break", TK,
  "\t\tif c2 == ':' {\n\t\t\t_, err = t.read()\n\t\t\tif err != nil {\n\t\t\t\treturn err\n\t\t\t}\n\t\t\treturn t.ok(tokenDoubleColon, false)",
  "\t\tif c2 == ':' {\n\t\t\tt.read()\n\t\t\treturn t.ok(tokenDoubleColon, false)", "tokenizer).Next", True,
  "a read error while consuming '::' is discarded")
m("token-value-arm-removed", "TAB-TOKEN", ["C02"], "break", TR,
  "\tcase tokenBinary, tokenHex, tokenNumber, tokenFloatInf, tokenFloatMinusInf:", "\tcase tokenBinary, tokenHex, tokenNumber, tokenFloatInf:", "tokenFloatMinusInf", True, "-inf has no value arm any more")
m("nilfield-decodesymbolto-text", "NIL-FIELD", ["C17", "C06"], "break", UM,
  "\t\t\tif val.Text == nil {\n\t\t\t\treturn fmt.Errorf(\"ion: cannot decode symbol $%v with unknown text to %v\", val.LocalSID, v.Type().String())\n\t\t\t}\n\t\t\tv.SetString(*val.Text)",
  "\t\t\tv.SetString(*val.Text)", "decodeSymbolTo", True, "$0 into a string dereferences nil text")
m("nilacc-cmd-null-guard-removed", "NIL-ACC", ["C20"], "break", PR,
  "\t\t\tif err != nil {\n\t\t\t\treturn p.error(write, err)\n\t\t\t}\n\t\t\tcontinue\n\t\t}\n",
  "\t\t\tif err != nil {\n\t\t\t\treturn p.error(write, err)\n\t\t\t}\n\t\t}\n", "process", True,
  "F22 returns: typed nulls fall through to the scalar arms, which dereference the nil accessor result")
m("ordvalue-writevalue-no-endvalue", "ORD-VALUE", ["C12", "C01", "C04"], "break", BW,
  "\tif w.err = w.write(val); w.err != nil {\n\t\treturn w.err\n\t}\n\n\tw.err = w.endValue()\n\treturn w.err\n}",
  "\tif w.err = w.write(val); w.err != nil {\n\t\treturn w.err\n\t}\n\n\treturn w.err\n}", "binaryWriter.writeValue", True,
  "an annotation wrapper opened by beginValue is never closed")
m("lstfirst-emit-before-lst", "ORD-LSTFIRST", ["C01", "C04", "C11"], "break", BW,
  "\t\tif w.err = w.writeLST(lst); w.err != nil {\n\t\t\treturn w.err\n\t\t}\n\t\tif w.err = w.emit(seq); w.err != nil {\n\t\t\treturn w.err\n\t\t}",
  "\t\tif w.err = w.emit(seq); w.err != nil {\n\t\t\treturn w.err\n\t\t}\n\t\tif w.err = w.writeLST(lst); w.err != nil {\n\t\t\treturn w.err\n\t\t}", "binaryWriter).Finish", True,
  "values emitted before the symbol table that defines their IDs")
m("rearm-finish-no-push", "ORD-REARM", ["C12"], "break", BW,
  "\t\tw.bufs.push(&datagram{})\n\t\tw.lstb = NewSymbolTableBuilder(lst.Imports()...)\n", "", "Finish", True,
  "F4 returns: the writer is not re-armed after Finish")
m("popguard-endvalue", "ORD-POPGUARD", ["C12"], "break", BW,
  "\tseq := w.bufs.peek()\n\tif seq != nil {\n\t\tif c, ok := seq.(*container); ok && c.code == 0xE0 {\n\t\t\tw.bufs.pop()\n\t\t\treturn w.emit(seq)\n\t\t}\n\t}\n\treturn nil",
  "\tseq := w.bufs.peek()\n\tif c, ok := seq.(*container); !ok || c.code == 0xE0 {\n\t\tw.bufs.pop()\n\t\treturn w.emit(seq)\n\t}\n\treturn nil", "endValue", True,
  "pop without knowing the stack is non-empty")
m("popguard-reader-stepout", "ORD-POPGUARD", ["C06"], "break", TR,
  "\tctx := t.ctx.peek()\n\tif ctx == ctxAtTopLevel {\n\t\treturn &UsageError{\"Reader.StepOut\", \"cannot step out of top-level datagram\"}\n\t}\n\tctype := ctxToContainerType(ctx)",
  "\tctx := t.ctx.peek()\n\tctype := ctxToContainerType(ctx)", "textReader).StepOut", True,
  "StepOut at top level pops an empty context stack")
m("bvmreset-keep-table", "ORD-BVMRESET", ["C10"], "break", BR,
  "\t\tcase 0:\n\t\t\tr.lst = V1SystemSymbolTable\n\t\t\treturn nil", "\t\tcase 0:\n\t\t\treturn nil", "readBVM", True,
  "a version marker keeps the previous symbol table")
m("lsthide-surface-table", "ORD-LSTHIDE", ["C10"], "break", BR,
  "\t\t\tif err == nil {\n\t\t\t\tr.lst = st\n\t\t\t\treturn false, nil\n\t\t\t}\n\t\t\treturn false, err",
  "\t\t\tif err == nil {\n\t\t\t\tr.lst = st\n\t\t\t\treturn true, nil\n\t\t\t}\n\t\t\treturn false, err", "binaryReader).next", True,
  "a consumed symbol table struct is reported as a user value")
m("eofdepth-clean-end-in-container", "ORD-EOFDEPTH", ["C07"], "break", BS,
  "\t\tif !b.stack.empty() {\n\t\t\t// The input ended before the container we are in did.\n\t\t\treturn &UnexpectedEOFError{b.pos}\n\t\t}\n", "", "bitstream).Next", True,
  "F14 returns: end of input inside a container is a clean end")
m("dangle-eof-with-annotations", "ORD-DANGLE", ["C07"], "break", TR,
  "\t\t\tif len(t.annotations) > 0 {\n\t\t\t\t// Annotations must be followed by a value.\n\t\t\t\treturn false, &UnexpectedEOFError{t.tok.Pos() - 1}\n\t\t\t}\n", "", "nextBeforeTypeAnnotations", True,
  "F15 returns: 'a::' at end of input accepted")
m("dangle-bracket-with-annotations", "ORD-DANGLE", ["C07"], "break", TR,
  "\t\tif t.ctx.peek() == ctxInList && len(t.annotations) == 0 {", "\t\tif t.ctx.peek() == ctxInList {", "nextBeforeTypeAnnotations", False,
  "[a::] accepted")
m("sortmap-marshaltext-unsorted", "ORD-SORTMAP", ["C16"], "break", MS,
  "\tw := NewTextWriterOpts(&buf, TextWriterQuietFinish)\n\te := Encoder{\n\t\tw:    w,\n\t\topts: EncodeSortMaps,\n\t}",
  "\tw := NewTextWriterOpts(&buf, TextWriterQuietFinish)\n\te := Encoder{\n\t\tw:    w,\n\t\topts: 0,\n\t}", "MarshalText", True,
  "MarshalText output follows Go's random map order")
m("sortmap-encodemap-no-sort", "ORD-SORTMAP", ["C16"], "break", MS,
  "\tif m.opts&EncodeSortMaps != 0 {\n\t\tsort.Slice(keys, func(i, j int) bool { return keys[i].s < keys[j].s })\n\t}\n", "\t_ = sort.Slice\n", "encodeMap", False,
  "keys never sorted")
m("firstwins-add-overwrites", "ORD-FIRSTWINS", ["C09", "C11"], "break", ST,
  "\tif id, ok := b.FindByName(symbol); ok {\n\t\treturn id, false\n\t}\n\n\tb.symbols = append(b.symbols, symbol)",
  "\tb.symbols = append(b.symbols, symbol)", "symbolTableBuilder).Add", True,
  "known text gets a new ID and the index is overwritten")
m("sidbound-no-maxid-test", "ORD-SIDBOUND", ["C09"], "break", "ion/symboltoken.go",
  "\tif sid < 0 || uint64(sid) > symbolTable.MaxID() {", "\tif sid < 0 {", "NewSymbolTokenBySID", True,
  "IDs above MaxID are not rejected")
m("noinput-decode-nil-at-end", "ORD-NOINPUT", ["C17"], "break", UM,
  "\tif !d.r.Next() {\n\t\tif d.r.Err() != nil {\n\t\t\treturn nil, d.r.Err()\n\t\t}\n\t\treturn nil, ErrNoInput\n\t}\n\n\treturn d.decode()",
  "\tif !d.r.Next() {\n\t\tif d.r.Err() != nil {\n\t\t\treturn nil, d.r.Err()\n\t\t}\n\t\treturn nil, nil\n\t}\n\n\treturn d.decode()", "Decoder.Decode", True,
  "end of stream reported as a nil value with nil error")
m("nondet-quick-c16", "OWN-NONDET", ["C16"], "break", MS,
  "\tkeys := keysFor(v)\n\tif m.opts&EncodeSortMaps != 0 {", "\tkeys := keysFor(v)\n\tif time.Now().UnixNano()%2 == 0 && m.opts&EncodeSortMaps != 0 {", "time.Now", True,
  "output depends on the clock")

# ---- behaviour-preserving rewrites of ORD sites (must stay silent)
m("sidbound-refactor-two-ifs", "ORD-SIDBOUND", ["C09"], "refactor", "ion/symboltoken.go",
  "\tif sid < 0 || uint64(sid) > symbolTable.MaxID() {\n\t\treturn SymbolToken{}, fmt.Errorf(\"ion: Symbol token not found for SID '%v' in symbol table %v\", sid, symbolTable)\n\t}",
  "\tif sid < 0 {\n\t\treturn SymbolToken{}, fmt.Errorf(\"ion: Symbol token not found for SID '%v' in symbol table %v\", sid, symbolTable)\n\t}\n\tif max := symbolTable.MaxID(); uint64(sid) > max {\n\t\treturn SymbolToken{}, fmt.Errorf(\"ion: Symbol token not found for SID '%v' in symbol table %v\", sid, symbolTable)\n\t}",
  "", False, "bounds test split in two")
m("noinput-refactor-positive-first", "ORD-NOINPUT", ["C17"], "refactor", UM,
  "\tif !d.r.Next() {\n\t\tif d.r.Err() != nil {\n\t\t\treturn nil, d.r.Err()\n\t\t}\n\t\treturn nil, ErrNoInput\n\t}\n\n\treturn d.decode()",
  "\tif d.r.Next() {\n\t\treturn d.decode()\n\t}\n\tif err := d.r.Err(); err != nil {\n\t\treturn nil, err\n\t}\n\treturn nil, ErrNoInput", "", False, "positive branch first, error kept in a local")
m("eofdepth-refactor-empty-first", "ORD-EOFDEPTH", ["C07"], "refactor", BS,
  "\t\tif !b.stack.empty() {\n\t\t\t// The input ended before the container we are in did.\n\t\t\treturn &UnexpectedEOFError{b.pos}\n\t\t}\n\t\tb.code = bitcodeEOF\n\t\treturn nil",
  "\t\tif b.stack.empty() {\n\t\t\tb.code = bitcodeEOF\n\t\t\treturn nil\n\t\t}\n\t\treturn &UnexpectedEOFError{b.pos}", "", False, "branches swapped")
m("firstwins-refactor-add", "ORD-FIRSTWINS", ["C09", "C11"], "refactor", ST,
  "\tif id, ok := b.FindByName(symbol); ok {\n\t\treturn id, false\n\t}\n\n\tb.symbols = append(b.symbols, symbol)\n\tid := b.maxImportID + uint64(len(b.symbols))\n\tb.index[symbol] = id\n\n\treturn id, true",
  "\told, ok := b.FindByName(symbol)\n\tif !ok {\n\t\tb.symbols = append(b.symbols, symbol)\n\t\tid := b.maxImportID + uint64(len(b.symbols))\n\t\tb.index[symbol] = id\n\t\treturn id, true\n\t}\n\treturn old, false",
  "", False, "negative branch first")
m("dangle-refactor-nested", "ORD-DANGLE", ["C07"], "refactor", TR,
  "\t\tif t.ctx.peek() == ctxInList && len(t.annotations) == 0 {\n\t\t\tt.eof = true\n\t\t\treturn true, nil\n\t\t}\n\t\treturn false, &UnexpectedTokenError{\"]\", t.tok.Pos() - 1}",
  "\t\tif t.ctx.peek() == ctxInList {\n\t\t\tif n := len(t.annotations); n == 0 {\n\t\t\t\tt.eof = true\n\t\t\t\treturn true, nil\n\t\t\t}\n\t\t}\n\t\treturn false, &UnexpectedTokenError{\"]\", t.tok.Pos() - 1}",
  "", False, "conjunction spelled as nested ifs")
m("rearm-refactor-helper", "ORD-REARM", ["C12"], "refactor", BW,
  "\t\tw.bufs.push(&datagram{})\n\t\tw.lstb = NewSymbolTableBuilder(lst.Imports()...)\n",
  "\t\tnext := NewSymbolTableBuilder(lst.Imports()...)\n\t\tw.lstb = next\n\t\tw.bufs.push(&datagram{})\n", "", False, "re-arm statements reordered")


# ---- NUM engine
BT, DC, TS, PR = "ion/bits.go", "ion/decimal.go", "ion/timestamp.go", "cmd/ion-go/process.go"
m("narrow-negative-sid", "NUM-NARROW", ["C04", "C13"], "break", BW,
  "\tif tok.LocalSID < 0 {\n\t\treturn 0, &UsageError{api, \"symbol token without defined text or symbol id is invalid\"}\n\t}\n\treturn uint64(tok.LocalSID), nil",
  "\treturn uint64(tok.LocalSID), nil", "resolveToken", True, "a negative LocalSID is encoded as a huge unsigned ID")
m("narrow-parseint64-exponent", "NUM-NARROW", ["C13", "C14"], "break", DC,
  "tmp, err := strconv.ParseInt(exp, 10, 32)", "tmp, err := strconv.ParseInt(exp, 10, 64)", "ParseDecimal", True,
  "exponent parsed in 64 bits and narrowed to int32 without a range test")
m("narrow-timestamp-field-bound", "NUM-NARROW", ["C03", "C13", "C15"], "break", BS,
  "\t\tif val > 10000 {\n\t\t\t// No calendar field is larger than the UTC year of 9999-12-31T23:59-00:01.\n\t\t\treturn Timestamp{}, &SyntaxError{\"invalid timestamp - calendar field out of range\", b.pos - vlength}\n\t\t}\n",
  "", "ReadTimestamp", False, "a VarUInt calendar field >= 2^63 wraps to a negative int")
m("narrow-decodeint-sign-test", "NUM-NARROW", ["C17"], "break", UM,
  "\t\tif *val < 0 || v.OverflowUint(uint64(*val)) {", "\t\tif v.OverflowUint(uint64(*val)) {", "decodeIntTo", True,
  "a negative int is stored into an unsigned target wrapped")
m("narrow-refactor-intlen-else", "NUM-NARROW", ["C04", "C13"], "refactor", BT,
  "\tmag := uint64(n)\n\tif n < 0 {\n\t\tmag = uint64(-n)\n\t}\n\n\tlength := uintLen(mag)",
  "\tvar mag uint64\n\tif n < 0 {\n\t\tmag = uint64(-n)\n\t} else {\n\t\tmag = uint64(n)\n\t}\n\n\tlength := uintLen(mag)", "", True,
  "sign-magnitude spelled with if/else")
m("narrow-refactor-sidbound-local", "NUM-NARROW", ["C13"], "refactor", "ion/symboltoken.go",
  "\ttext, ok := symbolTable.FindByID(uint64(sid))", "\tusid := uint64(sid)\n\ttext, ok := symbolTable.FindByID(usid)", "", False, "conversion hoisted into a local")
m("shift-drop-varuint-check", "NUM-SHIFT", ["C03", "C13"], "break", BS,
  "\t\tif val > math.MaxUint64>>7 {\n\t\t\t// The next 7 bits would be shifted out of the 64 we have.\n\t\t\treturn 0, 0, &SyntaxError{\"varuint too large\", b.pos - length - 1}\n\t\t}\n",
  "", "readVarUintLen", True, "a 10-byte VarUInt loses its top bits")
m("shift-refactor-bound-spelling", "NUM-SHIFT", ["C03", "C13"], "refactor", BS,
  "\t\tif val > math.MaxInt64>>7 {", "\t\tif val >= 1<<56 {", "", True, "the same bound written as a power of two")
m("exp32-int32-fraction-digits", "NUM-EXP32", ["C14"], "break", DC,
  "\t\tshifted := int64(exponent) - int64(len(fpart))\n\t\tif shifted < math.MinInt32 {\n\t\t\treturn nil, &ParseError{in, \"exponent out of range\"}\n\t\t}\n\t\texponent = int32(shifted)",
  "\t\texponent -= int32(len(fpart))", "ParseDecimal", True, "exponent arithmetic back in int32")
m("exp32-mul-int32", "NUM-EXP32", ["C14"], "break", DC,
  "\tscale := int64(d.scale) + int64(o.scale)\n\tif scale > math.MaxInt32 || scale < math.MinInt32 {\n\t\tpanic(\"exponent out of bounds\")\n\t}\n\n\treturn &Decimal{\n\t\tn:     new(big.Int).Mul(d.n, o.n),\n\t\tscale: int32(scale),",
  "\tscale := d.scale + o.scale\n\n\treturn &Decimal{\n\t\tn:     new(big.Int).Mul(d.n, o.n),\n\t\tscale: scale,", "(*Decimal).Mul", False,
  "scales added in int32")
m("exp32-refactor-mul-order", "NUM-EXP32", ["C14"], "refactor", DC,
  "\tif scale > math.MaxInt32 || scale < math.MinInt32 {\n\t\tpanic(\"exponent out of bounds\")\n\t}\n\n\treturn &Decimal{\n\t\tn:     new(big.Int).Mul(d.n, o.n),",
  "\tif scale < math.MinInt32 {\n\t\tpanic(\"exponent out of bounds\")\n\t}\n\tif scale > math.MaxInt32 {\n\t\tpanic(\"exponent out of bounds\")\n\t}\n\n\treturn &Decimal{\n\t\tn:     new(big.Int).Mul(d.n, o.n),", "", True,
  "range test split in two")
m("big-int64value-bitlen", "NUM-BIG", ["C13"], "break", RD,
  "\tif bi.IsInt64() {\n\t\tval := bi.Int64()", "\tif bi.BitLen() <= 64 {\n\t\tval := bi.Int64()", "Int64Value", True,
  "a 64-bit magnitude is extracted as a wrapped int64")
m("big-round-bitlen", "NUM-BIG", ["C13", "C15"], "break", DC,
  "\tif !rounded.IsInt64() {", "\tif rounded.BitLen() > 64 {", "round", True, "fraction coefficient extracted without IsInt64")
m("big-refactor-positive", "NUM-BIG", ["C13"], "refactor", RD,
  "\tif bi.IsInt64() {\n\t\tval := bi.Int64()\n\t\treturn &val, nil\n\t}\n\n\treturn nil, &UsageError{\"Reader.Int64Value\", \"value too large for an int64\"}",
  "\tif !bi.IsInt64() {\n\t\treturn nil, &UsageError{\"Reader.Int64Value\", \"value too large for an int64\"}\n\t}\n\tval := bi.Int64()\n\treturn &val, nil", "", False,
  "guard as early return")
m("f32-range-instead-of-equality", "NUM-F32", ["C13"], "break", BW,
  "\tif val == float64(float32(val)) {", "\tif math.Abs(val) <= math.MaxFloat32 {", "WriteFloat", True,
  "float32 chosen by magnitude, not by losslessness")
m("reflect-nan-instead-of-overflow", "NUM-REFLECT", ["C17"], "break", UM,
  "\t\tif v.OverflowFloat(*val) {", "\t\tif *val != *val {", "decodeFloatTo", True, "float stored without the overflow test")
m("nofloat-mul-through-float", "NUM-NOFLOAT", ["C14"], "break", DC,
  "\t// a*10^x * b*10^y = (a*b) * 10^(x+y)\n", "\t// a*10^x * b*10^y = (a*b) * 10^(x+y)\n\tif f, _ := new(big.Float).SetInt(d.n).Float64(); f == 0 {\n\t\treturn d\n\t}\n", "(*Decimal).Mul", True,
  "a float shortcut inside an exact operation")
m("alloc-readn-unbounded-first", "NUM-ALLOC", ["C06"], "break", BS,
  "\tfirst := n\n\tif first > readChunkSize {\n\t\tfirst = readChunkSize\n\t}\n", "\tfirst := n\n", "readN", True,
  "the declared length sizes the first allocation")
m("alloc-round-no-digit-guard", "NUM-ALLOC", ["C06"], "break", DC,
  "\t\tif int(ud.scale) > digits {\n\t\t\t// The magnitude is below 0.1.\n\t\t\treturn 0, nil\n\t\t}\n", "\t\t_ = digits\n", "round", False,
  "10^scale is built for any declared scale")
m("alloc-refactor-readn-min", "NUM-ALLOC", ["C06"], "refactor", BS,
  "\tfirst := n\n\tif first > readChunkSize {\n\t\tfirst = readChunkSize\n\t}\n", "\tfirst := uint64(readChunkSize)\n\tif n < first {\n\t\tfirst = n\n\t}\n", "", True,
  "minimum computed the other way round")

# ---- codec pairing / spec
m("lenpay-timestamp-uintlen", "TAB-LENPAY", ["C01", "C04", "C15"], "break", BT,
  "\t\t\tret += intLen(int64(ns))", "\t\t\tret += uintLen(uint64(ns))", "timestampLen", True,
  "fraction coefficient measured as UInt, written as Int")
m("lenpay-decimal-varuintlen", "TAB-LENPAY", ["C01", "C04"], "break", BW,
  "\tvlength := varIntLen(int64(exp))", "\tvlength := varUintLen(uint64(exp))", "WriteDecimal", False,
  "exponent measured as VarUInt, written as VarInt")
m("lenpay-refactor-year-local", "TAB-LENPAY", ["C01", "C04", "C15"], "refactor", BT,
  "\tb = appendVarUint(b, uint64(utc.dateTime.Year()))", "\tyear := utc.dateTime.Year()\n\tb = appendVarUint(b, uint64(year))", "", True,
  "operand kept in a local")
m("codec-timestamp-fraction-uint", "TAB-CODEC", ["C01", "C04", "C15"], "break", BT,
  "\t\t\tb = appendInt(b, int64(ns))", "\t\t\tb = appendUint(b, uint64(ns))", "appendTimestamp", True,
  "fraction coefficient written as UInt; Ion says Int")
m("dateval-drop-minute", "TAB-DATEVAL", ["C15"], "break", TS,
  "ts[3] != date.Hour() || ts[4] != date.Minute() || ts[5] != date.Second() {", "ts[3] != date.Hour() || ts[5] != date.Second() {", "minute", True,
  "minute 60 is normalised into the next hour")
m("dateval-drop-local-year", "TAB-DATEVAL", ["C15"], "break", TS,
  "\t// The fields above are UTC, so they may name year 0 or 10000; the local year may not.\n\tif !isIonYear(date.Year()) {\n\t\treturn Timestamp{}, fmt.Errorf(\"ion: invalid timestamp\")\n\t}\n",
  "", "year of the decoded timestamp", True, "the local year after applying the offset is unchecked")
m("dateval-refactor-predicate-shape", "TAB-DATEVAL", ["C15"], "refactor", TS,
  "\treturn year >= 1 && year <= 9999", "\tif year < 1 {\n\t\treturn false\n\t}\n\treturn year <= 9999", "", True,
  "helper predicate written with an early return")

# ---- text is authoritative / input primitives
m("textauth-resolve-token-text", "OWN-TEXTAUTH", ["C01", "C04", "C05", "C11"], "break", BW,
  "\t\treturn w.resolveFromSymbolTable(api, *tok.Text)", "\t\treturn w.resolve(api, *tok.Text)", "resolveToken", True,
  "token text goes through the $n interpretation")
m("textauth-sid-first", "OWN-TEXTAUTH", ["C01", "C05"], "break", BW,
  "\tif tok.Text != nil {\n\t\treturn w.resolveFromSymbolTable(api, *tok.Text)\n\t}\n\tif tok.LocalSID < 0 {",
  "\tif tok.LocalSID >= 0 {\n\t\treturn uint64(tok.LocalSID), nil\n\t}\n\tif tok.Text != nil {\n\t\treturn w.resolveFromSymbolTable(api, *tok.Text)\n\t}\n\tif tok.LocalSID < 0 {",
  "LocalSID", True, "the source stream's SID wins over the text")
m("textauth-string-fieldname-sid", "OWN-TEXTAUTH", ["C01", "C05"], "break", TR,
  "\t\tif tok == tokenSymbol {\n\t\t\t// Only an unquoted identifier of the form $n is a symbol ID reference.",
  "\t\tif tok != tokenSymbolQuoted {\n\t\t\t// Only an unquoted identifier of the form $n is a symbol ID reference.", "nextBeforeFieldName", False,
  "a string field name \"$5\" is read as symbol 5")
m("textauth-cmd-fromstring", "OWN-TEXTAUTH", ["C05", "C20"], "break", PR,
  "\t\t\t\terr = p.out.WriteSymbol(*val)", "\t\t\t\tif val.Text != nil {\n\t\t\t\t\terr = p.out.WriteSymbolFromString(*val.Text)\n\t\t\t\t} else {\n\t\t\t\t\terr = p.out.WriteSymbol(*val)\n\t\t\t\t}", "process", True,
  "the copy loop hands token text to the $n-interpreting string API")
m("textauth-refactor-else", "OWN-TEXTAUTH", ["C01", "C04", "C05", "C11"], "refactor", BW,
  "\tif tok.Text != nil {\n\t\treturn w.resolveFromSymbolTable(api, *tok.Text)\n\t}\n\tif tok.LocalSID < 0 {\n\t\treturn 0, &UsageError{api, \"symbol token without defined text or symbol id is invalid\"}\n\t}\n\treturn uint64(tok.LocalSID), nil",
  "\tif tok.Text == nil {\n\t\tif tok.LocalSID < 0 {\n\t\t\treturn 0, &UsageError{api, \"symbol token without defined text or symbol id is invalid\"}\n\t\t}\n\t\treturn uint64(tok.LocalSID), nil\n\t}\n\ttext := *tok.Text\n\treturn w.resolveFromSymbolTable(api, text)",
  "", True, "nil case first, text in a local")
m("input-read-instead-of-readbyte", "OWN-INPUT", ["C19"], "break", BS,
  "\tc, err := b.in.ReadByte()\n\tb.pos++", "\tvar one [1]byte\n\t_, err := b.in.Read(one[:])\n\tc := one[0]\n\tb.pos++", "bufio.Reader.Read", True,
  "a chunk-dependent primitive on the input")
m("input-peek-returned", "OWN-INPUT", ["C03", "C19"], "break", BS,
  "\tfirst := n\n\tif first > readChunkSize {", "\tif n <= 16 {\n\t\tif bs, err := b.in.Peek(int(n)); err == nil {\n\t\t\tb.in.Discard(int(n))\n\t\t\tb.pos += n\n\t\t\treturn bs, nil\n\t\t}\n\t}\n\tfirst := n\n\tif first > readChunkSize {", "slice returned by Peek", True,
  "bytes handed to the caller alias the read buffer")


# ---- sibling / ownership rules of the second round
m("stepin-drop-null-check", "ORD-STEPIN", ["C08"], "break", BR,
  "\tif r.value == nil {\n\t\treturn &UsageError{\"Reader.StepIn\", \"cannot step in to a null container\"}\n\t}\n", "", "binaryReader).StepIn", True,
  "StepIn on null.list pushes a nesting level")
m("stepin-refactor-combined", "ORD-STEPIN", ["C08"], "refactor", BR,
  "\tif r.value == nil {\n\t\treturn &UsageError{\"Reader.StepIn\", \"cannot step in to a null container\"}\n\t}\n\n\tr.ctx.push(containerTypeToCtx(r.valueType))",
  "\tif v := r.value; v == nil {\n\t\treturn &UsageError{\"Reader.StepIn\", \"cannot step in to a null container\"}\n\t}\n\tc := containerTypeToCtx(r.valueType)\n\tr.ctx.push(c)", "", True,
  "value kept in a local, ctx computed first")
m("lobws-skip-comments-in-blob", "OWN-LOBWS", ["C02", "C08"], "break", SK,
  "\tfor c != '}' {\n\t\tc, _, err = t.skipLobWhitespace()", "\tfor c != '}' {\n\t\tc, _, err = t.skipWhitespace()", "skipBlobHelper", True,
  "'//' inside a skipped blob is taken for a comment")
m("build-hand-over-storage", "OWN-BUILD", ["C09", "C11", "C18"], "break", ST,
  "\tsymbols := append([]string{}, b.symbols...)\n", "\tsymbols := b.symbols\n", "Build", True, "the built table shares the builder's symbols slice")
m("build-refactor-make-copy", "OWN-BUILD", ["C09", "C11", "C18"], "refactor", ST,
  "\tsymbols := append([]string{}, b.symbols...)\n", "\tsymbols := make([]string, len(b.symbols))\n\tcopy(symbols, b.symbols)\n", "", True, "copy spelled with make+copy")
m("importfirst-local-fast-path", "ORD-IMPORTFIRST", ["C09", "C11"], "break", ST,
  "func (t *lst) FindByName(s string) (uint64, bool) {\n", "func (t *lst) FindByName(s string) (uint64, bool) {\n\tif id, ok := t.index[s]; ok {\n\t\treturn id, true\n\t}\n", "FindByName", True,
  "local index consulted before the imports")
m("sid0-writesymbol-positive", "TAB-SID0", ["C02", "C05"], "break", TU,
  "\t} else if token.LocalSID != SymbolIDUnknown {", "\t} else if token.LocalSID > 0 {", "writeSymbol", True, "$0 cannot be written as text")
m("sid0-refactor-nonneg", "TAB-SID0", ["C02", "C05"], "refactor", TU,
  "\t} else if token.LocalSID != SymbolIDUnknown {", "\t} else if token.LocalSID >= 0 {", "", True, "unknown spelled as negative")
m("tokcache-fieldname-cache", "OWN-TOKCACHE", ["C05", "C10"], "break", BR,
  "\tbits bitstream\n\tcat  Catalog\n}", "\tbits bitstream\n\tcat  Catalog\n\n\tlastField map[uint64]SymbolToken\n}", "lastField", True,
  "a token cache that no table change resets")
m("refusew-finish-clear-first", "REFUSE-PURE-W", ["C12"], "break", BW,
  "\tif w.ctx.peek() != ctxAtTopLevel {\n\t\treturn &UsageError{\"Writer.Finish\", \"not at top level\"}\n\t}\n\n\tw.clear()\n\tw.wroteLST = false\n",
  "\tw.clear()\n\tw.wroteLST = false\n\tif w.ctx.peek() != ctxAtTopLevel {\n\t\treturn &UsageError{\"Writer.Finish\", \"not at top level\"}\n\t}\n", "binaryWriter.Finish", True,
  "a refused Finish forgets that the fixed symbol table was written")


m("endclear-text-end-no-clear", "ORD-ENDCLEAR", ["C12"], "break", TW,
  "\tw.clear()\n\tw.ctx.pop()\n\tw.endValue()\n\n\treturn nil\n}", "\tw.ctx.pop()\n\tw.endValue()\n\n\treturn nil\n}", "textWriter).end", True,
  "a field name pending at EndStruct leaks to the next value")
m("endclear-refactor-order", "ORD-ENDCLEAR", ["C12"], "refactor", TW,
  "\tw.clear()\n\tw.ctx.pop()\n\tw.endValue()\n\n\treturn nil\n}", "\tw.ctx.pop()\n\tw.clear()\n\tw.endValue()\n\n\treturn nil\n}", "", False, "clear and pop swapped")
m("wrcache-symids-field", "OWN-WRCACHE", ["C11", "C12"], "break", BW,
  "\tlst  SymbolTable\n\tlstb SymbolTableBuilder\n\n\twroteLST bool\n}", "\tlst  SymbolTable\n\tlstb SymbolTableBuilder\n\n\twroteLST bool\n\n\tsymIDs map[string]uint64\n}", "symIDs", True,
  "a text-to-ID cache that Finish does not reset")
m("codec-readint-bigint-helper", "TAB-CODEC", ["C13", "C03"], "break", BS,
  "\tbs, err := b.readN(b.len)\n\tif err != nil {\n\t\treturn \"\", err\n\t}\n\n\tvar ret interface{}",
  "\tif b.len > 64 {\n\t\ttmp := new(big.Int)\n\t\tif _, err := b.readBigInt(b.len, tmp); err != nil {\n\t\t\treturn \"\", err\n\t\t}\n\t\treturn tmp, nil\n\t}\n\tbs, err := b.readN(b.len)\n\tif err != nil {\n\t\treturn \"\", err\n\t}\n\n\tvar ret interface{}",
  "ReadInt", True, "wide ints decoded with the sign-magnitude subfield decoder")


EW = "cmd/ion-go/eventwriter.go"
m("opaque-drop-bigint-arm", "TAB-OPAQUE", ["C16"], "break", MS,
  "\tif t == bigIntType {\n\t\treturn m.encodeBigInt(v)\n\t}\n", "", "bigIntType", True, "big.Int marshals as {}")
m("kind-drop-array-arm", "TAB-KIND", ["C16"], "break", MS,
  "\tcase reflect.Array:\n\t\treturn m.encodeArray(v, hint)\n", "", "Array", True, "arrays can be filled but not written")
m("textauth-marshal-symbol-fromstring", "OWN-TEXTAUTH", ["C16"], "break", MS,
  "\t\t\treturn m.w.WriteSymbol(NewSymbolTokenFromString(v.String()))", "\t\t\treturn m.w.WriteSymbolFromString(v.String())", "encodeValue", True,
  "a symbol-tagged Go string \"$5\" is written as symbol ID 5")
m("copyloop-clob-as-blob", "TAB-COPYLOOP", ["C20"], "break", PR,
  "\t\t\terr = p.out.WriteClob(val)", "\t\t\terr = p.out.WriteBlob(val)", "WriteBlob", True, "clobs are copied as blobs")
m("copyloop-drop-typed-null", "TAB-COPYLOOP", ["C20"], "break", PR,
  "\t\t\t\terr = p.out.WriteNullType(in.Type())", "\t\t\t\terr = p.out.WriteNull()", "typed nulls", False, "null.int copied as null")
m("nilmap-eventwriter", "NIL-MAP", ["C20"], "break", EW,
  "\treturn &eventwriter{enc: ion.NewEncoder(w), inStruct: map[int]bool{}}", "\treturn &eventwriter{enc: ion.NewEncoder(w)}", "inStruct", True, "events writer panics on the first struct")


m("index-parsetimestamp-no-end-check", "NUM-INDEX", ["C06", "C15"], "break", TS,
  "\t\tif idx >= len(dateStr) {\n\t\t\t// The string ends after the seconds (or their fraction): the offset is missing.\n\t\t\treturn invalidTimestamp(dateStr)\n\t\t}\n", "", "computeTimezoneKind", True,
  "the offset is looked for one past the end of the string")
m("index-sst-findbyid-maxid", "NUM-INDEX", ["C06"], "break", ST,
  "\tif id <= 0 || id > uint64(len(s.symbols)) {", "\tif id <= 0 || id > s.maxID {", "FindByID", True,
  "an ID inside a padded import's gap indexes past the symbols")
m("index-refactor-findbyid-local", "NUM-INDEX", ["C06"], "refactor", ST,
  "\tif id <= 0 || id > uint64(len(s.symbols)) {", "\tn := uint64(len(s.symbols))\n\tif id <= 0 || id > n {", "", True, "length kept in a local")
m("slice-roundfrac-no-end-check", "NUM-SLICE", ["C06", "C15"], "break", TS,
  "\t\tif idx >= len(dateStr) {\n\t\t\t// The string ends after the seconds (or their fraction): the offset is missing.\n\t\t\treturn invalidTimestamp(dateStr)\n\t\t}\n", "\t\tif idx > len(dateStr)+1 {\n\t\t\treturn invalidTimestamp(dateStr)\n\t\t}\n", "roundFractionalSeconds", False,
  "slice bound past the end of the string")


m("panicapi-readnsecs-no-guard", "OWN-PANICAPI", ["C06"], "break", BS,
  "\tif int64(d.scale)-9 < math.MinInt32 {", "\tif false && int64(d.scale)-9 < math.MinInt32 {", "readNsecs", True,
  "a fraction exponent of 2^31-1 reaches ShiftL(9), which panics")
m("panicapi-refactor-guard-spelling", "OWN-PANICAPI", ["C06"], "refactor", BS,
  "\tif int64(d.scale)-9 < math.MinInt32 {", "\tif shifted := int64(d.scale) - 9; shifted < math.MinInt32 {", "", True, "guard expression kept in a local")


m("bounds-offset-hour-25", "TAB-BOUNDS", ["C02", "C15"], "break", TS,
  "\t\tif hourOffset >= 24 || minuteOffset >= 60 {", "\t\tif hourOffset > 24 || minuteOffset >= 60 {", "boundary 24", True, "an offset of +24:00 is accepted")
m("bounds-refactor-offset-spelling", "TAB-BOUNDS", ["C02", "C15"], "refactor", TS,
  "\t\tif hourOffset >= 24 || minuteOffset >= 60 {", "\t\tif hourOffset > 23 || !(minuteOffset < 60) {", "", True, "same boundaries, other spelling")
m("bounds-maxid-zero-undeclared", "TAB-BOUNDS", ["C10"], "break", RL,
  "\tif maxID < 0 {\n\t\tif imp == nil", "\tif maxID <= 0 {\n\t\tif imp == nil", "boundary 0", True, "a declared max_id of 0 is treated as undeclared")
m("bounds-intvalue-off-by-one", "TAB-BOUNDS", ["C13"], "break", RD,
  "\tif *i > math.MaxInt32 || *i < math.MinInt32 {", "\tif *i >= math.MaxInt32 || *i < math.MinInt32 {", "boundary 2147483648", True, "IntValue refuses 2^31-1")
m("negzero-big-arm-forgets", "ORD-NEGZERO", ["C07"], "break", BS,
  "\t\tisZero = i.BitLen() == 0\n", "", "zero flag", True, "a padded negative zero of 9 bytes is accepted")
m("appendalias-field-path", "OWN-APPENDALIAS", ["C16"], "break", FD,
  "\t\tnewpath := make([]int, len(path)+1)\n\t\tcopy(newpath, path)\n\t\tnewpath[len(path)] = i\n", "\t\tnewpath := append(path, i)\n", "inspect", True,
  "sibling fields of a deeply embedded struct share one index path")


m("indexpair-adjust-shares-index", "TAB-INDEXPAIR", ["C09", "C11"], "break", ST,
  "\tsymbols := s.symbols[:maxID]\n\tindex := buildIndex(symbols, 1)\n", "\tsymbols := s.symbols[:maxID]\n\tindex := s.index\n", "Adjust", True,
  "a shrunk import still resolves text beyond its max_id")


m("budget-readstring-fixed-len", "TAB-BUDGET", ["C03", "C08"], "break", BS,
  "\tif b.code != bitcodeString {\n\t\tpanic(\"not a string\")\n\t}\n\n\tbs, err := b.readN(b.len)", "\tif b.code != bitcodeString {\n\t\tpanic(\"not a string\")\n\t}\n\n\tbs, err := b.readN(b.len + 1)", "ReadString", True,
  "a string swallows the first byte of the next value")
m("fixedlst-invent-id", "OWN-FIXEDLST", ["C11"], "break", BW,
  "\t\tif !ok {\n\t\t\treturn 0, &UsageError{api, fmt.Sprintf(\"symbol '%v' not defined\", sym)}\n\t\t}\n\t\treturn id, nil", "\t\tif !ok {\n\t\t\treturn w.lst.MaxID() + 1, nil\n\t\t}\n\t\treturn id, nil", "not defined", True,
  "an ID past the fixed table is written for unknown text")
m("reflectset-pointer-into-struct", "TAB-REFLECTSET", ["C17"], "break", UM,
  "\t\tif v.Type() == symbolType {\n\t\t\tif val != nil {\n\t\t\t\tv.Set(reflect.ValueOf(*val))", "\t\tif v.Type() == symbolType {\n\t\t\tif val != nil {\n\t\t\t\tv.Set(reflect.ValueOf(val))", "decodeSymbolTo", True,
  "a *SymbolToken is set into a SymbolToken (reflect panics)")


m("usub-annotation-length-unordered", "NUM-USUB", ["C03", "C06"], "break", BS,
  "\tafterLength := b.len - lengthOfAnnotFieldLength\n\tif annotFieldLength >= afterLength {", "\tafterLength := b.len - lengthOfAnnotFieldLength\n\tif afterLength == 0 {", "ReadAnnotations", True,
  "an annotation list longer than its wrapper wraps the remaining length around")
m("usub-refactor-guard-flipped", "NUM-USUB", ["C03", "C06"], "refactor", BS,
  "\tif annotFieldLength >= afterLength {", "\tif !(afterLength > annotFieldLength) {", "", True, "the same ordering, spelled the other way round")
m("textivm-not-recognised", "ORD-TEXTIVM", ["C10"], "break", TR,
  "\t\t\tif tok == tokenSymbol && val == ionVersionMarker && len(t.annotations) == 0 && t.ctx.peek() == ctxAtTopLevel {", "\t\t\tif false && tok == tokenSymbol && val == ionVersionMarker && len(t.annotations) == 0 && t.ctx.peek() == ctxAtTopLevel {", "version marker", True,
  "a text version marker keeps the previous symbol table")
m("textivm-no-reset", "ORD-TEXTIVM", ["C10"], "break", TR,
  "\t\t\t\tt.lst = V1SystemSymbolTable\n\t\t\t\tt.clear()\n\t\t\t\tt.state = t.stateAfterValue()\n\t\t\t\treturn false, nil", "\t\t\t\tt.clear()\n\t\t\t\tt.state = t.stateAfterValue()\n\t\t\t\treturn false, nil", "version marker resets", False,
  "the marker is swallowed but the table is kept")
m("nibblenext-null-on-decoded-length", "TAB-NIBBLE-NEXT", ["C03"], "break", BS,
  "\tif lengthIsNibble && length == 0x0F {", "\tif length == 0x0F {", "length == 15", True, "a sorted struct of 15 bytes is read as null.struct")
m("decnegzero-any-zero", "ORD-DECNEGZERO", ["C03"], "break", BS,
  "\t\tnegZero = neg && coef.Sign() == 0", "\t\tnegZero = coef.Sign() == 0\n\t\t_ = neg", "negative-zero argument", True, "52 80 00 decodes as -0.")


m("sortmap-refactor-constructor", "ORD-SORTMAP", ["C16"], "refactor", MS,
  "\tw := NewTextWriterOpts(&buf, TextWriterQuietFinish)\n\te := Encoder{\n\t\tw:    w,\n\t\topts: EncodeSortMaps,\n\t}\n", "\tw := NewTextWriterOpts(&buf, TextWriterQuietFinish)\n\te := *NewEncoderOpts(w, EncodeSortMaps)\n", "", True,
  "the Encoder is built by its constructor instead of a literal (seeded change C11-r2-2 showed this to alarm falsely)")


# ---- rules written after the second seeding round
UT, PR = "cmd/ion-go/util.go", "cmd/ion-go/process.go"
m("flagor-payload-8-bits", "NUM-FLAGOR", ["C01", "C04"], "break", BITS,
  "\tbuf[i] = 0x80 | byte(v&0x7F)", "\tbuf[i] = 0x80 | byte(v&0xFF)", "appendVarUint", True, "the last VarUInt octet keeps 8 payload bits under the end flag")
m("flagor-refactor-operand-order", "NUM-FLAGOR", ["C01", "C04"], "refactor", BITS,
  "\tbuf[i] = 0x80 | byte(v&0x7F)", "\tbuf[i] = byte(v&0x7F) | 0x80", "", True, "operands swapped")
m("zerosign-float-shortcut", "NUM-ZEROSIGN", ["C01", "C04"], "break", BW,
  "\tif val == 0 && !math.Signbit(val) {", "\tif val == 0 {", "WriteFloat", True, "-0e0 is written as 0x40, positive zero")
m("zerosign-refactor-signbit-first", "NUM-ZEROSIGN", ["C01", "C04"], "refactor", BW,
  "\tif val == 0 && !math.Signbit(val) {", "\tif !math.Signbit(val) && val == 0 {", "", True, "sign tested first")
m("decsign-string-prefix-from-coefficient", "ORD-DECSIGN", ["C01", "C04", "C14"], "break", DEC,
  "\t\tif len(str) > 0 && str[0] == '-' {", "\t\tif d.n.Sign() < 0 {", "Decimal).String", True, "-0.0 is formatted with the layout of a non-negative number (three independent seeded changes)")
m("decsign-refactor-flag-then-coefficient", "ORD-DECSIGN", ["C01", "C04", "C14"], "refactor", DEC,
  "\t\tif len(str) > 0 && str[0] == '-' {", "\t\tif d.isNegZero || d.n.Sign() < 0 {", "", True, "the coefficient is consulted only where the flag is known to be false")
m("bigdiv-euclidean-round", "NUM-BIGDIV", ["C14"], "break", DEC,
  "\t\tquo, rem := new(big.Int).QuoRem(ud.n, pow, new(big.Int))", "\t\tquo, rem := new(big.Int).DivMod(ud.n, pow, new(big.Int))", "DivMod", True, "Euclidean division of a possibly negative coefficient")
m("intsize-int64-arm-reads-int32", "TAB-INTSIZE", ["C13", "C17", "C20"], "break", UM,
  "\tcase Int64:\n\t\tval, err := d.r.Int64Value()", "\tcase Int64:\n\t\tval, err := d.r.IntValue()", "IntValue where the size", True, "every int outside int32 fails to decode into interface{}")
m("openflags-no-trunc", "TAB-OPENFLAGS", ["C20"], "break", UT,
  "\treturn os.OpenFile(outf, os.O_RDWR|os.O_TRUNC|os.O_CREATE, 0644)", "\treturn os.OpenFile(outf, os.O_RDWR|os.O_CREATE, 0644)", "OpenOutput", True, "the tail of an existing longer output file survives")
m("paramused-marshalbinary-drops-ssts", "OWN-PARAMUSED", ["C11", "C16"], "break", MS,
  "\tbuf := bytes.Buffer{}\n\tw := NewBinaryWriter(&buf, ssts...)\n\te := Encoder{w: w}", "\tbuf := bytes.Buffer{}\n\tw := NewBinaryWriter(&buf)\n\te := Encoder{w: w}", "parameter ssts", True, "MarshalBinary ignores the shared tables it is given")
m("sepstate-finish-resets-without-newline", "ORD-SEPSTATE", ["C04", "C12"], "break", TW,
  "\t\tw.needsSeparator = false\n\t\tw.emptyStream = true\n\t}\n\n\tw.clear()", "\t}\n\tw.needsSeparator = false\n\tw.emptyStream = true\n\n\tw.clear()", "Finish", True, "quiet Finish forgets the separator: 1 Finish 2 gives 12 (two independent seeded changes)")
m("sepstate-refactor-begin-write-first", "ORD-SEPSTATE", ["C04", "C12"], "refactor", TW,
  "\tw.needsSeparator = false\n\tw.emptyContainer = true\n\n\treturn writeRawChar(c, w.out)", "\terr := writeRawChar(c, w.out)\n\tw.needsSeparator = false\n\tw.emptyContainer = true\n\treturn err", "", True, "the bracket is written before the state is reset")
m("exactfirst-return-on-fold", "ORD-EXACTFIRST", ["C16", "C17"], "break", UM,
  "\t\tif f == nil && strings.EqualFold(ff.name, name) {\n\t\t\tf = ff\n\t\t}", "\t\tif strings.EqualFold(ff.name, name) {\n\t\t\treturn ff\n\t\t}", "EqualFold", True, "the first fold match wins over a later exact one (two independent seeded changes)")
m("exactfirst-refactor-two-loops", "ORD-EXACTFIRST", ["C16", "C17"], "refactor", UM,
  "\tvar f *field\n\tfor i := range fields {\n\t\tff := &fields[i]\n\t\tif ff.name == name {\n\t\t\treturn ff\n\t\t}\n\t\tif f == nil && strings.EqualFold(ff.name, name) {\n\t\t\tf = ff\n\t\t}\n\t}\n\treturn f",
  "\tfor i := range fields {\n\t\tif fields[i].name == name {\n\t\t\treturn &fields[i]\n\t\t}\n\t}\n\tfor i := range fields {\n\t\tif strings.EqualFold(fields[i].name, name) {\n\t\t\treturn &fields[i]\n\t\t}\n\t}\n\treturn nil", "", True, "an exact pass, then a fold pass")
m("stopchar-timestamp-comment-blind", "OWN-STOPCHAR", ["C02"], "break", TK,
  "func (t *tokenizer) readTimestampFinish(c int, w fmt.Stringer) (string, error) {\n\tok, err := t.isStopChar(c)\n\tif err != nil {\n\t\treturn \"\", err\n\t}\n\tif !ok {", "func (t *tokenizer) readTimestampFinish(c int, w fmt.Stringer) (string, error) {\n\tok := isStopChar(c)\n\tif !ok {", "readTimestampFinish", True, "2001T//c is rejected")
m("wsset-iswhitespace-forgets-tab", "TAB-WSSET", ["C02"], "break", TU,
  "\tcase ' ', '\\t', '\\n', '\\r':\n\t\treturn true\n\t}\n\treturn false", "\tcase ' ', '\\n', '\\r':\n\t\treturn true\n\t}\n\treturn false", "isWhitespace", True, "a tab is not whitespace")
m("appendeach-skip-non-strings", "ORD-APPENDEACH", ["C03", "C10"], "break", RL,
  "\t\t} else {\n\t\t\tsyms = append(syms, \"\")\n\t\t}\n\t}\n\n\terr := r.StepOut()", "\t\t}\n\t}\n\n\terr := r.StepOut()", "readSymbols", True, "a non-string element takes no ID: later symbols are off by one")
m("lstfirstann-any-position", "TAB-LSTFIRSTANN", ["C03", "C10"], "break", BR,
  "\treturn len(as) > 0 && as[0].Text != nil && *as[0].Text == \"$ion_symbol_table\"", "\tfor _, a := range as {\n\t\tif a.Text != nil && *a.Text == \"$ion_symbol_table\" {\n\t\t\treturn true\n\t\t}\n\t}\n\treturn false", "isIonSymbolTable", True, "a::$ion_symbol_table::{} is taken for a symbol table")
m("lstfirstann-refactor-local", "TAB-LSTFIRSTANN", ["C03", "C10"], "refactor", BR,
  "\treturn len(as) > 0 && as[0].Text != nil && *as[0].Text == \"$ion_symbol_table\"", "\tif len(as) == 0 {\n\t\treturn false\n\t}\n\tfirst := as[0]\n\treturn first.Text != nil && *first.Text == \"$ion_symbol_table\"", "", True, "the first annotation copied to a local")
m("bsclear-stepout-fast-path", "ORD-BSCLEAR", ["C03", "C08"], "break", BS,
  "\tif diff > 0 {\n\t\tif err := b.skip(diff); err != nil {\n\t\t\treturn err\n\t\t}\n\t}\n\n\tb.state = b.stateAfterValue()\n\tb.clear()", "\tb.state = b.stateAfterValue()\n\tif diff == 0 {\n\t\treturn nil\n\t}\n\tif err := b.skip(diff); err != nil {\n\t\treturn err\n\t}\n\tb.clear()", "StepOut", True, "stepping out of a fully consumed container leaves code/null/len of the last child")
m("bsclear-refactor-clear-first", "ORD-BSCLEAR", ["C03", "C08"], "refactor", BS,
  "\t\t}\n\t}\n\n\tb.state = b.stateAfterValue()\n\tb.clear()\n\n\treturn nil", "\t\t}\n\t}\n\n\tb.clear()\n\tb.state = b.stateAfterValue()\n\n\treturn nil", "", True, "clear() before the state store")
m("tokfinish-stepout-no-finish", "ORD-TOKFINISH", ["C08"], "break", TR,
  "\t// Finish off whatever value *inside* the container that we're currently reading.\n\t_, err := t.tok.FinishValue()\n\tif err != nil {\n\t\tt.explode(err)\n\t\treturn err\n\t}\n", "", "SkipContainerContents", True, "StepOut from a half-read child container scans from inside it")
m("acctype-intsize-null-first", "TAB-ACCTYPE", ["C13", "C17"], "break", RD,
  "\tif r.valueType != IntType {\n\t\treturn NullInt, &UsageError{\"Reader.IntSize\", \"value is not a int\"}\n\t}\n\tif r.value == nil {\n\t\treturn NullInt, nil\n\t}", "\tif r.value == nil {\n\t\treturn NullInt, nil\n\t}\n\tif r.valueType != IntType {\n\t\treturn NullInt, &UsageError{\"Reader.IntSize\", \"value is not a int\"}\n\t}", "IntSize", True, "IntSize answers NullInt, nil for null.string")
m("sortmap-comparator-not-injective", "ORD-SORTMAP", ["C16"], "break", MS,
  "\t\tsort.Slice(keys, func(i, j int) bool { return keys[i].s < keys[j].s })", "\t\tsort.Slice(keys, func(i, j int) bool { return len(keys[i].s) < len(keys[j].s) })", "field emission", True, "keys of equal length keep their random map order")
m("sortmap-refactor-comparator-flipped", "ORD-SORTMAP", ["C16"], "refactor", MS,
  "\t\tsort.Slice(keys, func(i, j int) bool { return keys[i].s < keys[j].s })", "\t\tsort.Slice(keys, func(i, j int) bool { return keys[j].s > keys[i].s })", "", True, "the same order, spelled the other way round")

m("reslice0-annotations-set-aside", "OWN-RESLICE0", ["C01", "C12"], "break", TW,
  "\tas := w.annotations\n\tw.clear()\n", "\tas := w.annotations\n\tw.clear()\n\tw.annotations = as[:0]\n", "[:0]", True,
  "the annotations pending for the first value share their array with the field the symbol table's own annotation is appended to")
m("escrune-x-escape-as-byte", "TAB-ESCRUNE", ["C02"], "break", TK,
  "\tr, err := t.readEscapedChar(nonClobText)\n\tif err != nil {\n\t\treturn err\n\t}\n\tsb.WriteRune(r)", "\tr, err := t.readEscapedChar(nonClobText)\n\tif err != nil {\n\t\treturn err\n\t}\n\tsb.WriteByte(byte(r))", "escape read in text mode", True,
  "\"\\xE9\" yields the byte E9 instead of U+00E9")
m("escrune-clob-reads-text-mode", "TAB-ESCRUNE", ["C02", "C07"], "break", TK,
  "\tr, err := t.readEscapedChar(clobText)", "\tr, err := t.readEscapedChar(nonClobText)", "escape mode", True,
  "a clob accepts \\u escapes")

m("encpure-annotation-wrapper-allocates", "OWN-ENCPURE", ["C16", "C18"], "break", MS,
  "\t\t\tannotations, found := readSubvalue(original, &field)\n\t\t\tif !found {\n\t\t\t\t// Behind a nil embedded pointer: there are no annotations.\n\t\t\t\tcontinue\n\t\t\t}",
  "\t\t\tannotations, err := findSubvalue(original, &field)\n\t\t\tfound := err == nil\n\t\t\tif !found {\n\t\t\t\tcontinue\n\t\t\t}", "encodeWithAnnotation", True,
  "marshalling allocates a nil embedded pointer in the caller's value (F35; the seeded changes C16-3 and C16-r3-3 do the same in encodeStruct)")
m("keyword-version-marker-unquoted", "TAB-KEYWORD", ["C01", "C04"], "break", TU,
  "\tcase ionVersionMarker:\n\t\t// Unquoted, the text reader takes it for a version marker, not a symbol.\n\t\treturn true\n", "", "version marker", True,
  "a symbol $ion_1_0 is written unquoted and read back as a version marker (F36)")

LAZY_MORE = [
  ("\t// Slice the symbols down to size and reindex.\n\tsymbols := s.symbols[:maxID]\n\tindex := buildIndex(symbols, 1)\n\n\treturn &sst{\n\t\tname:    s.name,\n\t\tversion: s.version,\n\t\tsymbols: symbols,\n\t\tindex:   index,\n\t\tmaxID:   maxID,\n\t}",
   "\treturn &sst{\n\t\tname:    s.name,\n\t\tversion: s.version,\n\t\tsymbols: s.symbols[:maxID],\n\t\tmaxID:   maxID,\n\t}"),
  ("\tid, ok := s.index[sym]\n\treturn id, ok", "\tid, ok := s.nameIndex()[sym]\n\treturn id, ok"),
]
LAZY_OLD = "\tindex := buildIndex(syms, 1)\n\n\treturn &sst{\n\t\tname:    name,\n\t\tversion: version,\n\t\tsymbols: syms,\n\t\tindex:   index,\n\t\tmaxID:   uint64(len(syms)),\n\t}\n}\n"
LAZY_NEW = "\treturn &sst{\n\t\tname:    name,\n\t\tversion: version,\n\t\tsymbols: syms,\n\t\tmaxID:   uint64(len(syms)),\n\t}\n}\n\nfunc (s *sst) nameIndex() map[string]uint64 {\n\tif s.index == nil {\n\t\ts.index = buildIndex(s.symbols, 1)\n\t}\n\treturn s.index\n}\n"
for rule, props in [("TAB-INDEXPAIR", ["C09", "C11"]), ("ORD-FIRSTWINS", ["C09"]), ("NUM-INDEX", ["C06"]), ("NUM-NARROW", ["C13"])]:
    m("lazyindex-refactor-" + rule.lower(), rule, props, "refactor", ST, LAZY_OLD, LAZY_NEW, "", rule == "TAB-INDEXPAIR",
      "a shared table builds its name index on first use (seeded change C18-r3-2: a data race, reported by OWN-IMMUT, but single-threaded behaviour is unchanged; the first run alarmed here falsely)", more=LAZY_MORE)
m("lazyindex-race-own-immut", "OWN-IMMUT", ["C18"], "break", ST, LAZY_OLD, LAZY_NEW, "nameIndex", False,
  "the same edit is a write to a shared table after construction", more=LAZY_MORE)

m("overrun-space-not-reduced", "TAB-OVERRUN", ["C03", "C06"], "break", BS,
  "\t\trem -= lenghtOfRemaining\n", "\t\t_ = lenghtOfRemaining\n", "decoded length", True,
  "a child may overrun its container by the size of its length field (three independent seeded changes)")
m("appendcarry-nothing-to-carry", "ORD-APPENDCARRY", ["C03", "C10"], "break", RL,
  "\t\t\timps := r.SymbolTable().Imports()\n", "\t\t\tif len(r.SymbolTable().Symbols()) == 0 {\n\t\t\t\treturn nil, nil\n\t\t\t}\n\t\t\timps := r.SymbolTable().Imports()\n", "exit without imports", True,
  "an append to a table without local symbols drops that table's imports (two independent seeded changes)")
m("nilfield-cmd-symbol-text", "NIL-FIELD", ["C20"], "break", PR,
  "\t\t\t\terr = p.out.WriteSymbol(*val)\n", "\t\t\t\terr = p.out.WriteSymbol(ion.NewSymbolTokenFromString(*val.Text))\n", "SymbolToken.Text", True,
  "the symbol $0 crashes the command")
m("symquote-annotation-fast-path", "OWN-SYMQUOTE", ["C01", "C05"], "break", TW,
  "\tfor _, a := range as {\n\t\tif err := writeSymbol(a, w.out); err != nil {", "\tfor _, a := range as {\n\t\tif a.Text != nil && !symbolNeedsQuoting(*a.Text) {\n\t\t\tif err := writeRawString(*a.Text+\"::\", w.out); err != nil {\n\t\t\t\treturn err\n\t\t\t}\n\t\t\tcontinue\n\t\t}\n\t\tif err := writeSymbol(a, w.out); err != nil {", "writeAnnotations", True,
  "an annotation with the text $7 is written unquoted")
m("adjustmax-receiver-when-larger", "TAB-ADJUSTMAX", ["C09", "C11"], "break", ST,
  "\tif maxID == s.maxID {\n\t\t// Nothing needs to change.", "\tif maxID >= s.maxID {\n\t\t// Nothing needs to change.", "returns the receiver", True,
  "an import declaring a larger max_id than the catalog's table no longer reserves its range")
m("adjustmax-refactor-flipped", "TAB-ADJUSTMAX", ["C09", "C11"], "refactor", ST,
  "\tif maxID == s.maxID {\n\t\t// Nothing needs to change.", "\tif s.maxID == maxID {\n\t\t// Nothing needs to change.", "", True, "operands swapped")
m("lencount-annotation-count", "TAB-LENCOUNT", ["C01", "C04"], "break", BW,
  "\t\tbuf = appendVarUint(buf, idlen)\n", "\t\tbuf = appendVarUint(buf, uint64(len(ids)))\n", "appendVarUint(len", True,
  "annot_length is the number of annotations instead of the byte length of their IDs")
m("appendeach-writeto-skips-empty", "ORD-APPENDEACH", ["C11"], "break", ST,
  "\t\tfor _, sym := range t.symbols {\n\t\t\tif err := w.WriteString(sym); err != nil {", "\t\tfor _, sym := range t.symbols {\n\t\t\tif sym == \"\" {\n\t\t\t\tcontinue\n\t\t\t}\n\t\t\tif err := w.WriteString(sym); err != nil {", "WriteTo", True,
  "a gap in the table is not written, every later symbol is off by one in the stream")
m("narrow-parseint-uint-magnitude", "NUM-NARROW", ["C13"], "break", TU,
  "\t\t// Skip over the '0x' prefix.\n\t\tdigits = digits[2:]\n", "\t\t// Skip over the '0x' prefix.\n\t\tdigits = digits[2:]\n\t\tif mag, err := strconv.ParseUint(digits, radix, 64); err == nil && mag <= 1<<63 && !neg {\n\t\t\treturn int64(mag), nil\n\t\t}\n", "parseInt", False,
  "0x8000000000000000 is read as -2^63")

m("nextvisit-discard-fast-path", "TAB-NEXTVISIT", ["C20"], "break", PR,
  "\tfor in.Next() {\n\t\tp.idx++\n", "\tfor in.Next() {\n\t\tp.idx++\n\t\tif p.format == \"none\" {\n\t\t\tcontinue\n\t\t}\n", "Next on", True,
  "with -f none the values are skipped, not validated: invalid Ion inside a container goes unreported (two independent seeded changes)")

m("danglebin-end-without-looking", "ORD-DANGLE-BIN", ["C03", "C07"], "break", BS,
  "\t\t\tif cur.code == bitcodeStruct && b.state == bssBeforeValue {\n\t\t\t\t// A field name was read and the struct ends before its value.\n\t\t\t\treturn &SyntaxError{\"field name without a value at the end of a struct\", b.pos}\n\t\t\t}\n", "", "end of container", True,
  "DE 81 84 reads as an empty struct (F38)")
m("utf8-text-not-validated", "TAB-UTF8", ["C02", "C07"], "break", TK,
  "\t\tif !utf8.ValidString(str) {\n\t\t\treturn \"\", &SyntaxError{\"text is not valid UTF-8\", t.pos}\n\t\t}\n", "\t\t_ = utf8.RuneError\n", "string text validated", True,
  "raw invalid bytes in a text string are handed on (F39)")
m("lstclean-finish-clears-late", "ORD-LSTCLEAN", ["C11", "C12"], "break", BW,
  "\tw.clear()\n\tw.wroteLST = false\n\n\tseq := w.bufs.peek()", "\tdefer w.clear()\n\tw.wroteLST = false\n\n\tseq := w.bufs.peek()", "symbol table written", True,
  "an annotation pending at Finish is written in front of $ion_symbol_table (two independent seeded changes)")
m("bsscratch-reused-bigint", "OWN-BSSCRATCH", ["C03", "C08"], "break", BS,
  "\tcode bitcode\n\tnull bool\n\tlen  uint64\n}", "\tcode bitcode\n\tnull bool\n\tlen  uint64\n\n\tbigint big.Int\n}", "field bigint", True,
  "ReadInt hands out one big.Int for every big integer",
  more=[("\t\ti := new(big.Int).SetBytes(bs)\n\t\tisZero = i.BitLen() == 0", "\t\ti := b.bigint.SetBytes(bs)\n\t\tisZero = i.BitLen() == 0")])
m("overrun-sorted-struct-path", "TAB-OVERRUN", ["C03", "C06"], "break", BS,
  "\tpos := b.pos\n\trem := b.remaining()\n", "", "decoded length", False,
  "the budget is measured before the sorted struct's length field is read",
  more=[("\tlengthIsNibble := true\n", "\tpos := b.pos\n\trem := b.remaining()\n\tlengthIsNibble := true\n")])

m("emptycopy-lob-defensive-copy", "NIL-EMPTYCOPY", ["C16", "C17"], "break", UM,
  "func (d *Decoder) decodeLobTo(v reflect.Value) error {\n\tval, err := d.r.ByteValue()\n\tif err != nil {\n\t\treturn err\n\t}\n", "func (d *Decoder) decodeLobTo(v reflect.Value) error {\n\tval, err := d.r.ByteValue()\n\tif err != nil {\n\t\treturn err\n\t}\n\tval = append([]byte(nil), val...)\n", "append(nil", True,
  "an empty blob is decoded as a nil slice")


# ---- rules for F40-F44
m("unread-dot-conditionally", "ORD-UNREAD", ["C02"], "break", TK,
  "\t\t// The dot is read back as the text of the symbol, whatever follows it.\n\t\tt.unread(c)\n", "\t\tif c2 == ' ' || isIdentifierPart(c2) {\n\t\t\tt.unread(c)\n\t\t}\n", "tokenDot", True,
  "a lone '.' before ')' is read back as the empty symbol (F40)")
m("opcomment-read-ignores-comment", "TAB-OPCOMMENT", ["C02", "C08"], "break", TK,
  "\t\t\tif len(cs) == 2 && (cs[1] == '/' || cs[1] == '*') {\n\t\t\t\tbreak\n\t\t\t}\n", "\t\t\t_ = cs\n", "readOperator", True,
  "'+// note' is read as the operator '+//' (F41)")
m("opcomment-refactor-helper", "TAB-OPCOMMENT", ["C02", "C08"], "refactor", SK,
  "\t\t\tif c2 == '/' || c2 == '*' {\n\t\t\t\tbreak\n\t\t\t}\n\t\t}\n\n\t\tc, err = t.read()", "\t\t\tif startsComment(c2) {\n\t\t\t\tbreak\n\t\t\t}\n\t\t}\n\n\t\tc, err = t.read()", "", True,
  "the comment-start test moved into a helper",
  more=[("// SkipString skips over a \"-enclosed string, returning the next char.", "func startsComment(c2 int) bool { return c2 == '/' || c2 == '*' }\n\n// SkipString skips over a \"-enclosed string, returning the next char.")])
m("openstar-not-consumed", "ORD-OPENSTAR", ["C02", "C07"], "break", SK,
  "\t\tif _, err := t.read(); err != nil {\n\t\t\treturn false, err\n\t\t}\n\t\treturn true, t.skipBlockComment()", "\t\treturn true, t.skipBlockComment()", "block comment", True,
  "'/*/' counts as a complete comment (F42)")
m("surrogate-not-paired", "TAB-SURROGATE", ["C02"], "break", TK,
  "\t\tif utf16.IsSurrogate(r) {\n\t\t\treturn t.readLowSurrogate(r)\n\t\t}\n", "\t\t_ = utf16.IsSurrogate\n", "four-digit escape", True,
  "a \\u surrogate pair decodes to two U+FFFD (F43)",
  more=[("func (t *tokenizer) readLowSurrogate(hi rune) (rune, error) {", "func (t *tokenizer) readLowSurrogateUnused(hi rune) (rune, error) {")])
m("addr-decimal-unaddressable", "NIL-ADDR", ["C16", "C17"], "break", MS,
  "\td := v.Interface().(Decimal)\n\treturn m.w.WriteDecimal(&d)\n", "\td := v.Addr().Interface().(*Decimal)\n\treturn m.w.WriteDecimal(d)\n", "reflect.Value.Addr", True,
  "Marshal of a Decimal held by value panics (F44)")
m("addr-refactor-guarded-copy", "NIL-ADDR", ["C16", "C17"], "refactor", MS,
  "\td := v.Interface().(Decimal)\n\treturn m.w.WriteDecimal(&d)\n", "\tif v.CanAddr() {\n\t\treturn m.w.WriteDecimal(v.Addr().Interface().(*Decimal))\n\t}\n\td := v.Interface().(Decimal)\n\treturn m.w.WriteDecimal(&d)\n", "", True,
  "Addr used under CanAddr, copy otherwise")


# ---- OWN-SCRATCHOUT (expected count on the unchanged tree: zero; these are its positive examples)
m("scratchout-timestamp-scratch-buffered", "OWN-SCRATCHOUT", ["C04", "C15", "C12"], "break", BW,
  "\tbuf := make([]byte, 0, bufLength)\n\n\tbuf = appendTag(buf, 0x60, vlength)\n\tbuf = appendTimestamp(buf, offset, val)\n",
  "\tif uint64(cap(w.tsbuf)) < bufLength {\n\t\tw.tsbuf = make([]byte, 0, bufLength)\n\t}\n\tbuf := w.tsbuf[:0]\n\n\tbuf = appendTag(buf, 0x60, vlength)\n\tbuf = appendTimestamp(buf, offset, val)\n", "buffer field tsbuf", True,
  "every timestamp is encoded into one per-writer buffer that the datagram keeps by reference until Finish (seeded change C15-r5-3)",
  more=[("\twroteLST bool\n}\n\n// NewBinaryWriter creates", "\twroteLST bool\n\n\ttsbuf []byte\n}\n\n// NewBinaryWriter creates")])
m("scratchout-refactor-scratch-copied", "OWN-SCRATCHOUT", ["C04", "C15", "C12"], "refactor", BW,
  "\tbuf := make([]byte, 0, bufLength)\n\n\tbuf = appendTag(buf, 0x60, vlength)\n\tbuf = appendTimestamp(buf, offset, val)\n",
  "\tw.tsbuf = appendTimestamp(w.tsbuf[:0], offset, val)\n\tbuf := make([]byte, 0, bufLength)\n\n\tbuf = appendTag(buf, 0x60, vlength)\n\tbuf = append(buf, w.tsbuf...)\n", "", True,
  "the scratch buffer is copied from, never handed out",
  more=[("\twroteLST bool\n}\n\n// NewBinaryWriter creates", "\twroteLST bool\n\n\ttsbuf []byte\n}\n\n// NewBinaryWriter creates")])
m("scratchout-clob-buffer-returned", "OWN-SCRATCHOUT", ["C02", "C08"], "break", TK,
  "\tvar ret []byte\n\n\tfor {\n\t\tc, err := t.read()\n\t\tif err != nil {\n\t\t\treturn nil, err\n\t\t}\n\t\t// -1 denotes EOF, and new lines are not allowed in short string",
  "\tret := t.lob[:0]\n\n\tfor {\n\t\tc, err := t.read()\n\t\tif err != nil {\n\t\t\treturn nil, err\n\t\t}\n\t\t// -1 denotes EOF, and new lines are not allowed in short string", "buffer field lob", True,
  "clob text is collected in a buffer of the tokenizer and returned without a copy: a later clob overwrites an earlier ByteValue result (seeded change C02-r5-3)",
  more=[("\tunfinished bool\n\tpos        uint64\n}", "\tunfinished bool\n\tpos        uint64\n\tlob        []byte\n}"),
        ("closing \" , which means an empty clob.\n\t\t\t\treturn []byte{}, nil\n\t\t\t}\n\t\t\treturn ret, nil", "closing \" , which means an empty clob.\n\t\t\t\treturn []byte{}, nil\n\t\t\t}\n\t\t\tt.lob = ret\n\t\t\treturn ret, nil")])


m("textivm-reset-before-doublecolon", "ORD-TEXTIVM", ["C02", "C10"], "break", TR,
  "\t\tok, ws, err := t.tok.SkipDoubleColon()\n", "\t\tif tok == tokenSymbol && val == ionVersionMarker && len(t.annotations) == 0 && t.ctx.peek() == ctxAtTopLevel {\n\t\t\tt.lst = V1SystemSymbolTable\n\t\t}\n\t\tok, ws, err := t.tok.SkipDoubleColon()\n", "no '::' follows", True,
  "$ion_1_0::x resets the symbol table although it is an annotated value (seeded change C02-r5-2)")


m("eofonly-unexpected-eof-as-clean-end", "ERR-EOFONLY", ["C19", "C07"], "break", BS,
  "\tc, err := b.in.ReadByte()\n\tb.pos++\n\n\tif err == io.EOF {\n", "\tc, err := b.in.ReadByte()\n\tb.pos++\n\n\tif err == io.EOF || err == io.ErrUnexpectedEOF {\n", "sentinel", True,
  "io.ErrUnexpectedEOF from the source ends a binary traversal with Err() == nil (seeded change C19-r5-2)")
m("readvia-zero-length-int-shortcut", "TAB-READVIA", ["C07", "C03"], "break", BR,
  "\t\tif !r.bits.IsNull() {\n\t\t\tval, err := r.bits.ReadInt()\n", "\t\tif !r.bits.IsNull() {\n\t\t\tif r.bits.Len() == 0 {\n\t\t\t\tr.value = int64(0)\n\t\t\t\treturn true, nil\n\t\t\t}\n\t\t\tval, err := r.bits.ReadInt()\n", "current value stored", True,
  "0x30 (negative zero) is delivered as 0 (seeded change C07-r5-2)")


m("bigfit-int64value-trusts-dynamic-type", "NUM-BIGFIT", ["C13"], "break", RD,
  "\tbi := r.value.(*big.Int)\n\tif bi.IsInt64() {\n\t\tval := bi.Int64()\n\t\treturn &val, nil\n\t}\n\n\treturn nil, &UsageError{\"Reader.Int64Value\"", "\treturn nil, &UsageError{\"Reader.Int64Value\"", "error exit of Int64Value", True,
  "-2^63, which the binary reader delivers as *big.Int, is refused by Int64Value (seeded change C13-r5-3)")


m("bigfresh-neg-in-place", "OWN-BIGFRESH", ["C14", "C18"], "break", DEC,
  "\t\tn:     new(big.Int).Neg(d.n),", "\t\tn:     d.n.Neg(d.n),", "big.Int.Neg", True,
  "Neg negates the operand's own coefficient")
m("bigfresh-refactor-local-accumulator", "OWN-BIGFRESH", ["C14", "C18"], "refactor", DEC,
  "\treturn &Decimal{\n\t\tn:     new(big.Int).Add(dd.n, oo.n),", "\tsum := new(big.Int)\n\tsum.Add(dd.n, oo.n)\n\treturn &Decimal{\n\t\tn:     sum,", "", True,
  "the fresh receiver is held in a local first")


m("poolreset-buffer-returned-dirty-on-error", "ORD-POOLRESET", ["C18"], "break", MS,
  "\tbuf := bytes.Buffer{}\n\tw := NewTextWriterOpts(&buf, TextWriterQuietFinish)\n\te := Encoder{\n\t\tw:    w,\n\t\topts: EncodeSortMaps,\n\t}\n\n\tif err := e.Encode(v); err != nil {\n\t\treturn nil, err\n\t}\n\tif err := e.Finish(); err != nil {\n\t\treturn nil, err\n\t}\n\n\treturn buf.Bytes(), nil\n",
  "\tbuf := marshalBuffers.Get().(*bytes.Buffer)\n\tdefer marshalBuffers.Put(buf)\n\tw := NewTextWriterOpts(buf, TextWriterQuietFinish)\n\te := Encoder{\n\t\tw:    w,\n\t\topts: EncodeSortMaps,\n\t}\n\n\tif err := e.Encode(v); err != nil {\n\t\treturn nil, err\n\t}\n\tif err := e.Finish(); err != nil {\n\t\treturn nil, err\n\t}\n\n\tres := append([]byte(nil), buf.Bytes()...)\n\tbuf.Reset()\n\treturn res, nil\n", "sync.Pool", True,
  "a pooled buffer goes back with the partial output of a failed MarshalText (seeded change C18-r5-3)",
  more=[("\t\"sort\"\n\t\"time\"\n)\n", "\t\"sort\"\n\t\"sync\"\n\t\"time\"\n)\n\nvar marshalBuffers = sync.Pool{New: func() interface{} { return &bytes.Buffer{} }}\n")])
m("poolreset-refactor-reset-first", "ORD-POOLRESET", ["C18"], "refactor", MS,
  "\tbuf := bytes.Buffer{}\n\tw := NewTextWriterOpts(&buf, TextWriterQuietFinish)\n\te := Encoder{\n\t\tw:    w,\n\t\topts: EncodeSortMaps,\n\t}\n\n\tif err := e.Encode(v); err != nil {\n\t\treturn nil, err\n\t}\n\tif err := e.Finish(); err != nil {\n\t\treturn nil, err\n\t}\n\n\treturn buf.Bytes(), nil\n",
  "\tbuf := marshalBuffers.Get().(*bytes.Buffer)\n\tbuf.Reset()\n\tdefer marshalBuffers.Put(buf)\n\tw := NewTextWriterOpts(buf, TextWriterQuietFinish)\n\te := Encoder{\n\t\tw:    w,\n\t\topts: EncodeSortMaps,\n\t}\n\n\tif err := e.Encode(v); err != nil {\n\t\treturn nil, err\n\t}\n\tif err := e.Finish(); err != nil {\n\t\treturn nil, err\n\t}\n\n\treturn append([]byte(nil), buf.Bytes()...), nil\n", "", True,
  "the buffer is reset when it is taken out, before anything is written",
  more=[("\t\"sort\"\n\t\"time\"\n)\n", "\t\"sort\"\n\t\"sync\"\n\t\"time\"\n)\n\nvar marshalBuffers = sync.Pool{New: func() interface{} { return &bytes.Buffer{} }}\n")])


m("skiparms-lob-skipped-as-braces", "TAB-SKIPARMS", ["C08"], "break", SK,
  "\t\t\tif c == '{' {\n\t\t\t\tif _, err := t.read(); err != nil {\n\t\t\t\t\treturn err\n\t\t\t\t}\n\t\t\t\tif err := t.skipBlobHelper(); err != nil {\n\t\t\t\t\treturn err\n\t\t\t\t}\n\t\t\t} else if c == '}' {", "\t\t\tif c == '}' {", "skipBlobHelper", True,
  "a blob whose base64 text contains // swallows the rest of the line when its container is skipped (seeded change C08-r5-1)")


m("impadjust-exact-match-returned-as-found", "ORD-IMPADJUST", ["C09", "C10"], "break", RL,
  "\t} else {\n\t\timp = imp.Adjust(uint64(maxID))\n\t}", "\t} else if imp.Version() != version || uint64(maxID) < imp.MaxID() {\n\t\timp = imp.Adjust(uint64(maxID))\n\t}", "import returned", True,
  "an exact catalog match declared with a larger max_id is not padded: later imports and locals get lower IDs (seeded change C09-r5-2)")


m("utf8-quoted-symbol-not-validated", "TAB-UTF8", ["C02", "C07"], "break", TK,
  "\tcase tokenString, tokenLongString, tokenSymbolQuoted:\n\t\t// Ion text is UTF-8;", "\tcase tokenString, tokenLongString:\n\t\t// Ion text is UTF-8;", "tokenSymbolQuoted validated", True,
  "raw invalid bytes inside a quoted symbol are accepted (seeded change C07-r6-2)")

os.makedirs(os.path.dirname(os.path.abspath(__file__)), exist_ok=True)
with open(os.path.join(os.path.dirname(os.path.abspath(__file__)), "core.json"), "w") as f:
    json.dump(M, f, indent=1)
print(len(M), "mutants")
