// Package load type-checks the repository under analysis from its working
// tree and builds go/ssa for it. Nothing is cached between runs.
package load

import (
	"fmt"
	"go/ast"
	"go/token"
	"go/types"
	"os"
	"path/filepath"
	"sort"
	"strings"

	"golang.org/x/tools/go/callgraph"
	"golang.org/x/tools/go/callgraph/cha"
	"golang.org/x/tools/go/callgraph/vta"
	"golang.org/x/tools/go/packages"
	"golang.org/x/tools/go/ssa"
	"golang.org/x/tools/go/ssa/ssautil"
)

const (
	IonPath = "github.com/amzn/ion-go/ion"
	CmdPath = "github.com/amzn/ion-go/cmd/ion-go"
	IntPath = "github.com/amzn/ion-go/internal"
)

// Options selects what is loaded.
type Options struct {
	Dir     string            // repository root (default $IONLINT_REPO or /repo)
	Overlay map[string][]byte // absolute file name -> replacement content
	Tests   bool              // also load _test.go files
	GOARCH  string            // "" = host
}

// Program is the loaded, type-checked and SSA-built module.
type Program struct {
	Dir   string
	Fset  *token.FileSet
	Pkgs  []*packages.Package
	Prog  *ssa.Program
	Ion   *ssa.Package
	Cmd   *ssa.Package
	Int   *ssa.Package
	Funcs []*ssa.Function // every function with a body in the module, incl. closures, sorted by position

	byPkg map[*types.Package]*packages.Package
	cg    *callgraph.Graph
	sites map[ssa.CallInstruction][]*ssa.Function
}

// RepoDir returns the directory analysed by default.
func RepoDir() string {
	if d := os.Getenv("IONLINT_REPO"); d != "" {
		return d
	}
	return "/repo"
}

// Load loads the module. Any type error, load error or missing package is an
// error: the checker must never give a verdict on a partially loaded program.
func Load(opt Options) (*Program, error) {
	if opt.Dir == "" {
		opt.Dir = RepoDir()
	}
	env := []string{}
	for _, e := range os.Environ() {
		if strings.HasPrefix(e, "GOWORK=") || strings.HasPrefix(e, "GOFLAGS=") || strings.HasPrefix(e, "GOARCH=") {
			continue
		}
		env = append(env, e)
	}
	env = append(env, "GOWORK=off", "GOFLAGS=-mod=mod", "GOPROXY=off", "GOSUMDB=off", "GOTOOLCHAIN=local")
	if opt.GOARCH != "" {
		env = append(env, "GOARCH="+opt.GOARCH)
	}
	cfg := &packages.Config{
		Mode:    packages.LoadSyntax,
		Dir:     opt.Dir,
		Env:     env,
		Tests:   opt.Tests,
		Overlay: opt.Overlay,
	}
	pkgs, err := packages.Load(cfg, "./...")
	if err != nil {
		return nil, fmt.Errorf("packages.Load: %v", err)
	}
	var errs []string
	packages.Visit(pkgs, nil, func(p *packages.Package) {
		for _, e := range p.Errors {
			errs = append(errs, e.Error())
		}
	})
	if len(errs) > 0 {
		return nil, fmt.Errorf("load/type errors: %s", strings.Join(errs, "; "))
	}
	if len(pkgs) < 3 {
		return nil, fmt.Errorf("expected >= 3 packages under %s, got %d", opt.Dir, len(pkgs))
	}
	prog, _ := ssautil.Packages(pkgs, ssa.InstantiateGenerics)
	prog.Build()
	p := &Program{Dir: opt.Dir, Fset: pkgs[0].Fset, Pkgs: pkgs, Prog: prog, byPkg: map[*types.Package]*packages.Package{}}
	for _, pk := range pkgs {
		p.byPkg[pk.Types] = pk
		sp := prog.Package(pk.Types)
		if sp == nil {
			continue
		}
		// With Tests=true the plain package and its test variant both exist;
		// prefer the variant that contains test files (a superset).
		switch pk.PkgPath {
		case IonPath:
			if p.Ion == nil || len(pk.Syntax) > len(p.pkgOf(p.Ion).Syntax) {
				p.Ion = sp
			}
		case CmdPath:
			if p.Cmd == nil || len(pk.Syntax) > len(p.pkgOf(p.Cmd).Syntax) {
				p.Cmd = sp
			}
		case IntPath:
			if p.Int == nil {
				p.Int = sp
			}
		}
	}
	if p.Ion == nil || p.Cmd == nil {
		return nil, fmt.Errorf("packages %s / %s not found", IonPath, CmdPath)
	}
	// collect functions with bodies that belong to the module
	seen := map[*ssa.Function]bool{}
	var add func(f *ssa.Function)
	add = func(f *ssa.Function) {
		if f == nil || seen[f] || len(f.Blocks) == 0 {
			return
		}
		seen[f] = true
		p.Funcs = append(p.Funcs, f)
		for _, a := range f.AnonFuncs {
			add(a)
		}
	}
	for _, sp := range []*ssa.Package{p.Ion, p.Cmd, p.Int} {
		if sp == nil {
			continue
		}
		for _, m := range sp.Members {
			switch m := m.(type) {
			case *ssa.Function:
				add(m)
			case *ssa.Type:
				for _, T := range []types.Type{m.Type(), types.NewPointer(m.Type())} {
					ms := prog.MethodSets.MethodSet(T)
					for i := 0; i < ms.Len(); i++ {
						f := prog.MethodValue(ms.At(i))
						if f != nil && f.Synthetic == "" {
							add(f)
						}
					}
				}
			}
		}
	}
	sort.Slice(p.Funcs, func(i, j int) bool {
		a, b := p.Fset.Position(p.Funcs[i].Pos()), p.Fset.Position(p.Funcs[j].Pos())
		if a.Filename != b.Filename {
			return a.Filename < b.Filename
		}
		if a.Offset != b.Offset {
			return a.Offset < b.Offset
		}
		return p.Funcs[i].String() < p.Funcs[j].String()
	})
	return p, nil
}

func (p *Program) pkgOf(sp *ssa.Package) *packages.Package { return p.byPkg[sp.Pkg] }

// Package returns the go/packages record of an SSA package.
func (p *Program) Package(sp *ssa.Package) *packages.Package { return p.byPkg[sp.Pkg] }

// IsTestFile reports whether pos lies in a _test.go file.
func (p *Program) IsTestFile(pos token.Pos) bool {
	return strings.HasSuffix(p.Fset.Position(pos).Filename, "_test.go")
}

// InTest reports whether fn is declared in a _test.go file.
func (p *Program) InTest(fn *ssa.Function) bool {
	for fn.Parent() != nil {
		fn = fn.Parent()
	}
	return p.IsTestFile(fn.Pos())
}

// Pos renders a position relative to the repository root.
func (p *Program) Pos(pos token.Pos) string {
	if !pos.IsValid() {
		return "-"
	}
	ps := p.Fset.Position(pos)
	rel, err := filepath.Rel(p.Dir, ps.Filename)
	if err != nil {
		rel = ps.Filename
	}
	return fmt.Sprintf("%s:%d", rel, ps.Line)
}

// File returns the file name (relative) of a position.
func (p *Program) File(pos token.Pos) string {
	ps := p.Fset.Position(pos)
	rel, err := filepath.Rel(p.Dir, ps.Filename)
	if err != nil {
		rel = ps.Filename
	}
	return rel
}

// Func looks a function or method up by a short name: "NewReader",
// "(*binaryWriter).WriteSymbol", "reader.IntValue" (value or pointer receiver
// is tried). pkg is Ion unless given.
func (p *Program) Func(sp *ssa.Package, name string) *ssa.Function {
	if sp == nil {
		sp = p.Ion
	}
	name = strings.TrimPrefix(name, "(*")
	name = strings.Replace(name, ").", ".", 1)
	if i := strings.Index(name, "."); i >= 0 {
		tn, mn := name[:i], name[i+1:]
		t, ok := sp.Members[tn].(*ssa.Type)
		if !ok {
			return nil
		}
		for _, T := range []types.Type{types.NewPointer(t.Type()), t.Type()} {
			ms := p.Prog.MethodSets.MethodSet(T)
			for i := 0; i < ms.Len(); i++ {
				if ms.At(i).Obj().Name() == mn {
					f := p.Prog.MethodValue(ms.At(i))
					return Unwrap(f)
				}
			}
		}
		return nil
	}
	f, _ := sp.Members[name].(*ssa.Function)
	return f
}

// Unwrap follows synthetic promotion wrappers / bound-method thunks to the
// declared function.
func Unwrap(f *ssa.Function) *ssa.Function {
	for i := 0; i < 4 && f != nil && f.Synthetic != "" && len(f.Blocks) > 0; i++ {
		var callee *ssa.Function
		n := 0
		for _, b := range f.Blocks {
			for _, in := range b.Instrs {
				if c, ok := in.(ssa.CallInstruction); ok {
					if sc := c.Common().StaticCallee(); sc != nil {
						callee = sc
						n++
					}
				}
			}
		}
		if n != 1 {
			return f
		}
		f = callee
	}
	return f
}

// Type returns a named type of the ion package.
func (p *Program) Type(sp *ssa.Package, name string) *types.Named {
	if sp == nil {
		sp = p.Ion
	}
	t, ok := sp.Members[name].(*ssa.Type)
	if !ok {
		return nil
	}
	n, _ := t.Type().(*types.Named)
	return n
}

// CallGraph builds (once) the VTA call graph seeded with CHA.
func (p *Program) CallGraph() *callgraph.Graph {
	if p.cg == nil {
		all := ssautil.AllFunctions(p.Prog)
		p.cg = vta.CallGraph(all, cha.CallGraph(p.Prog))
		p.sites = map[ssa.CallInstruction][]*ssa.Function{}
		for _, n := range p.cg.Nodes {
			for _, e := range n.Out {
				if e.Site != nil {
					p.sites[e.Site] = append(p.sites[e.Site], e.Callee.Func)
				}
			}
		}
	}
	return p.cg
}

// Callees returns the possible callees of a call site: the static callee, or
// the VTA targets of an interface invoke / closure call; promotion wrappers
// are unwrapped.
func (p *Program) Callees(c ssa.CallInstruction) []*ssa.Function {
	if sc := c.Common().StaticCallee(); sc != nil {
		return []*ssa.Function{Unwrap(sc)}
	}
	p.CallGraph()
	var out []*ssa.Function
	seen := map[*ssa.Function]bool{}
	for _, f := range p.sites[c] {
		f = Unwrap(f)
		if f != nil && !seen[f] {
			seen[f] = true
			out = append(out, f)
		}
	}
	sort.Slice(out, func(i, j int) bool { return out[i].String() < out[j].String() })
	return out
}

// InModule reports whether fn is declared in the analysed module.
func (p *Program) InModule(fn *ssa.Function) bool {
	if fn == nil {
		return false
	}
	for fn.Parent() != nil {
		fn = fn.Parent()
	}
	if fn.Pkg == nil {
		// synthetic wrappers have no package; decide by the receiver/object
		if o := fn.Object(); o != nil && o.Pkg() != nil {
			return strings.HasPrefix(o.Pkg().Path(), "github.com/amzn/ion-go")
		}
		return false
	}
	return fn.Pkg == p.Ion || fn.Pkg == p.Cmd || (p.Int != nil && fn.Pkg == p.Int)
}

// FuncName is a stable, position-free name: "(*binaryWriter).WriteSymbol",
// "NewReaderCat", "cmd.(*processor).process", closures get "$n".
func (p *Program) FuncName(fn *ssa.Function) string {
	if fn == nil {
		return "<nil>"
	}
	s := fn.RelString(p.Ion.Pkg)
	s = strings.Replace(s, "github.com/amzn/ion-go/cmd/ion-go.", "cmd.", 1)
	s = strings.Replace(s, "github.com/amzn/ion-go/internal.", "internal.", 1)
	return s
}

// Syntax returns the AST files of an SSA package.
func (p *Program) Syntax(sp *ssa.Package) []*ast.File {
	if pk := p.byPkg[sp.Pkg]; pk != nil {
		return pk.Syntax
	}
	return nil
}

// Info returns the types.Info of an SSA package.
func (p *Program) Info(sp *ssa.Package) *types.Info {
	if pk := p.byPkg[sp.Pkg]; pk != nil {
		return pk.TypesInfo
	}
	return nil
}

// CallGraphIfBuilt returns the call graph if some rule asked for it.
func (p *Program) CallGraphIfBuilt() *callgraph.Graph { return p.cg }
