package ssau

import (
	"go/token"
	"sort"
	"strings"

	"golang.org/x/tools/go/ssa"
)

// A Fact is a branch fact: something a conditional edge establishes.
//
//	Kind "nil"/"nonnil"   Path is nil / not nil
//	Kind "true"/"false"   boolean Path has that value
//	Kind "eq"/"ne"        Path ==/!= Arg   (Arg is a path; constants are "k:…")
//	Kind "lt","le","gt","ge"  Path op Arg
type Fact struct {
	Kind, Path, Arg string
}

func (f Fact) String() string {
	if f.Arg == "" {
		return f.Kind + "(" + f.Path + ")"
	}
	return f.Kind + "(" + f.Path + "," + f.Arg + ")"
}

// PredicateHook, when set, returns the facts implied by a call of a module
// helper predicate evaluating to branch (e.g. isIonYear(y) == true implies
// y >= 1 and y <= 9999), phrased over the argument paths of the call.
var PredicateHook func(c *ssa.Call, branch bool) []Fact

// CondFacts lists the facts that hold when cond evaluates to branch.
func CondFacts(cond ssa.Value, branch bool) []Fact {
	if c, ok := cond.(*ssa.Call); ok && PredicateHook != nil {
		if fs := PredicateHook(c, branch); len(fs) > 0 {
			return append(fs, boolFact(cond, branch)...)
		}
	}
	switch c := cond.(type) {
	case *ssa.UnOp:
		if c.Op == token.NOT {
			return CondFacts(c.X, !branch)
		}
	case *ssa.BinOp:
		x, y := c.X, c.Y
		op := c.Op
		switch op {
		case token.EQL, token.NEQ:
			eq := (op == token.EQL) == branch
			if IsNilConst(y) || IsNilConst(x) {
				o := x
				if IsNilConst(x) {
					o = y
				}
				k := "nonnil"
				if eq {
					k = "nil"
				}
				return []Fact{{k, Path(o), ""}}
			}
			px, py := Path(x), Path(y)
			if strings.HasPrefix(px, "k:") && !strings.HasPrefix(py, "k:") {
				px, py = py, px
			}
			k := "ne"
			if eq {
				k = "eq"
			}
			fs := []Fact{{k, px, py}}
			if !strings.HasPrefix(py, "k:") {
				fs = append(fs, Fact{k, py, px})
			}
			// boolean compared with constant
			if py == "k:true" || py == "k:false" {
				val := (py == "k:true") == eq
				fs = append(fs, boolFact(x, val)...)
			}
			return fs
		case token.LSS, token.LEQ, token.GTR, token.GEQ:
			k := map[token.Token]string{token.LSS: "lt", token.LEQ: "le", token.GTR: "gt", token.GEQ: "ge"}[op]
			if !branch {
				k = map[string]string{"lt": "ge", "le": "gt", "gt": "le", "ge": "lt"}[k]
			}
			flip := map[string]string{"lt": "gt", "le": "ge", "gt": "lt", "ge": "le"}
			return []Fact{{k, Path(x), Path(y)}, {flip[k], Path(y), Path(x)}}
		}
	}
	return boolFact(cond, branch)
}

func boolFact(v ssa.Value, val bool) []Fact {
	k := "false"
	if val {
		k = "true"
	}
	return []Fact{{k, Path(v), ""}}
}

// FactSet is a set of facts (must-hold).
type FactSet map[Fact]bool

func (s FactSet) clone() FactSet {
	o := make(FactSet, len(s))
	for k := range s {
		o[k] = true
	}
	return o
}

// Has reports membership.
func (s FactSet) Has(kind, path, arg string) bool { return s[Fact{kind, path, arg}] }

// Any returns the facts with the given kind whose path satisfies pred.
func (s FactSet) Any(kind string, pred func(Fact) bool) (Fact, bool) {
	var hits []Fact
	for f := range s {
		if f.Kind == kind && pred(f) {
			hits = append(hits, f)
		}
	}
	if len(hits) == 0 {
		return Fact{}, false
	}
	sort.Slice(hits, func(i, j int) bool { return hits[i].String() < hits[j].String() })
	return hits[0], true
}

// Sorted lists the facts in a stable order.
func (s FactSet) Sorted() []string {
	var out []string
	for f := range s {
		out = append(out, f.String())
	}
	sort.Strings(out)
	return out
}

// KillFunc returns, for an instruction, a predicate selecting the facts it
// invalidates (nil = kills nothing).
type KillFunc func(ssa.Instruction) func(Fact) bool

// FactFlow is the result of the must-dataflow: the facts holding at the entry
// of each block on every path from the function entry.
type FactFlow struct {
	fn   *ssa.Function
	in   map[*ssa.BasicBlock]FactSet
	kill KillFunc
}

// StoreKills is the default kill function: a store to address A kills every
// fact whose path mentions the location A.
func StoreKills(in ssa.Instruction) func(Fact) bool {
	st, ok := in.(*ssa.Store)
	if !ok {
		return nil
	}
	ap := Path(st.Addr)
	if !strings.HasPrefix(ap, "&") {
		ap = ap + "^"
	} else {
		ap = ap[1:]
	}
	return func(f Fact) bool { return mentions(f.Path, ap) || mentions(f.Arg, ap) }
}

// mentions reports whether location loc occurs in path as a component prefix.
func mentions(path, loc string) bool {
	i := strings.Index(path, loc)
	for i >= 0 {
		end := i + len(loc)
		startOK := i == 0 || !isIdent(path[i-1])
		endOK := end == len(path) || !isIdent(path[end])
		if startOK && endOK {
			return true
		}
		j := strings.Index(path[i+1:], loc)
		if j < 0 {
			break
		}
		i = i + 1 + j
	}
	return false
}

func isIdent(b byte) bool {
	return b == '_' || b >= '0' && b <= '9' || b >= 'a' && b <= 'z' || b >= 'A' && b <= 'Z'
}

// Mentions is exported for rule-specific kill functions.
func Mentions(path, loc string) bool { return mentions(path, loc) }

// ComputeFacts runs the forward must-analysis. Facts are generated on the
// out-edges of If instructions and killed inside blocks by kill.
func ComputeFacts(fn *ssa.Function, kill KillFunc) *FactFlow {
	return ComputeFactsInit(fn, kill, nil)
}

// ComputeFactsInit is ComputeFacts with facts assumed at function entry
// (inferred preconditions).
func ComputeFactsInit(fn *ssa.Function, kill KillFunc, init FactSet) *FactFlow {
	ff := &FactFlow{fn: fn, in: map[*ssa.BasicBlock]FactSet{}, kill: kill}
	if len(fn.Blocks) == 0 {
		return ff
	}
	out := map[*ssa.BasicBlock]FactSet{}
	// optimistic initialisation: nil = "not yet computed" (top)
	ff.in[fn.Blocks[0]] = FactSet{}
	for f := range init {
		ff.in[fn.Blocks[0]][f] = true
	}
	work := []*ssa.BasicBlock{fn.Blocks[0]}
	inq := map[*ssa.BasicBlock]bool{fn.Blocks[0]: true}
	for len(work) > 0 {
		b := work[0]
		work = work[1:]
		inq[b] = false
		cur := ff.in[b].clone()
		ff.applyBlock(b, cur, nil)
		out[b] = cur
		for si, s := range b.Succs {
			if infeasibleEdge(b, si) {
				continue // `if false { ... }`: the dead arm establishes nothing
			}
			es := ff.edgeFacts(b, si, cur)
			old, seen := ff.in[s]
			var nw FactSet
			if !seen {
				nw = es
			} else {
				nw = FactSet{}
				for f := range old {
					if es[f] {
						nw[f] = true
					}
				}
			}
			if !seen || len(nw) != len(old) {
				ff.in[s] = nw
				if !inq[s] {
					inq[s] = true
					work = append(work, s)
				}
			}
		}
	}
	return ff
}

func (ff *FactFlow) edgeFacts(b *ssa.BasicBlock, si int, outFacts FactSet) FactSet {
	es := outFacts.clone()
	if len(b.Instrs) == 0 {
		return es
	}
	if ifi, ok := b.Instrs[len(b.Instrs)-1].(*ssa.If); ok && len(b.Succs) == 2 && b.Succs[0] != b.Succs[1] {
		for _, f := range CondFacts(ifi.Cond, si == 0) {
			es[f] = true
		}
	}
	return es
}

// applyBlock applies kills of b's instructions to cur, stopping before stop
// (nil = whole block).
func (ff *FactFlow) applyBlock(b *ssa.BasicBlock, cur FactSet, stop ssa.Instruction) {
	if ff.kill == nil {
		return
	}
	for _, in := range b.Instrs {
		if in == stop {
			return
		}
		if k := ff.kill(in); k != nil {
			for f := range cur {
				if k(f) {
					delete(cur, f)
				}
			}
		}
	}
}

// At returns the facts holding immediately before instr.
func (ff *FactFlow) At(instr ssa.Instruction) FactSet {
	b := instr.Block()
	in, ok := ff.in[b]
	if !ok {
		return FactSet{} // unreachable block
	}
	cur := in.clone()
	ff.applyBlock(b, cur, instr)
	return cur
}

// Reachable reports whether the block was reached by the analysis.
func (ff *FactFlow) Reachable(b *ssa.BasicBlock) bool { _, ok := ff.in[b]; return ok }

// OnEdge returns the facts holding on the CFG edge from -> from.Succs[si].
func (ff *FactFlow) OnEdge(from *ssa.BasicBlock, si int) FactSet {
	in, ok := ff.in[from]
	if !ok {
		return FactSet{}
	}
	cur := in.clone()
	ff.applyBlock(from, cur, nil)
	return ff.edgeFacts(from, si, cur)
}

// OnPhiEdge returns the facts holding on the edge that supplies operand i of
// the phi.
func (ff *FactFlow) OnPhiEdge(phi *ssa.Phi, i int) FactSet {
	b := phi.Block()
	if i >= len(b.Preds) {
		return FactSet{}
	}
	pred := b.Preds[i]
	for si, s := range pred.Succs {
		if s == b {
			return ff.OnEdge(pred, si)
		}
	}
	return FactSet{}
}

// infeasibleEdge: the block ends in an If on a constant and edge si is the arm
// that is never taken.
func infeasibleEdge(b *ssa.BasicBlock, si int) bool {
	if len(b.Instrs) == 0 || len(b.Succs) != 2 {
		return false
	}
	ifi, ok := b.Instrs[len(b.Instrs)-1].(*ssa.If)
	if !ok {
		return false
	}
	c, ok := ifi.Cond.(*ssa.Const)
	if !ok || c.Value == nil {
		return false
	}
	taken := 1
	if c.Value.ExactString() == "true" {
		taken = 0
	}
	return si != taken
}
