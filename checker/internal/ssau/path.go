// Package ssau holds SSA helpers shared by the rule engines: canonical access
// paths (go/ssa performs no CSE, so the same field read twice is two loads),
// branch facts with a must-dataflow over the CFG, and def-use walks.
package ssau

import (
	"fmt"
	"go/constant"
	"go/token"
	"go/types"
	"strings"

	"golang.org/x/tools/go/ssa"
)

// PureCall decides whether a call's result may be canonicalised by callee and
// argument paths (two calls with equal paths denote the same value unless a
// kill intervenes). Set by the effects package; nil means "never".
var PureCall func(c *ssa.Call) bool

// Path returns a canonical access path for v.
//
// Grammar:  value paths   p.x  fv.x  g.pkg.x  k:<const>  a.x@N (load of local)
//
//	X.f (field)  X^ (pointee)  X[i]  X.m(args) (pure call)  X#i (extract)
//	address paths start with '&'.
//
// Values without a canonical form get a unique path "v<name>@<func>".
func Path(v ssa.Value) string {
	return pathDepth(v, 0)
}

func pathDepth(v ssa.Value, d int) string {
	if d > 24 {
		return uniq(v)
	}
	switch v := v.(type) {
	case *ssa.Parameter:
		return "p." + v.Name()
	case *ssa.FreeVar:
		// a captured variable is a pointer to the outer variable
		return "&fv." + v.Name()
	case *ssa.Global:
		pk := ""
		if v.Pkg != nil {
			pk = v.Pkg.Pkg.Name()
		}
		return "&g." + pk + "." + v.Name()
	case *ssa.Const:
		if v.Value == nil {
			return "k:nil"
		}
		return "k:" + v.Value.ExactString()
	case *ssa.Alloc:
		if p := spilledParam(v); p != nil {
			return "&p." + p.Name()
		}
		return fmt.Sprintf("&a.%s@%d", v.Comment, v.Pos())
	case *ssa.FieldAddr:
		x := pathDepth(v.X, d+1)
		fn := fieldName(v.X.Type(), v.Field)
		if strings.HasPrefix(x, "&") {
			return x + "." + fn
		}
		return "&" + x + "^." + fn
	case *ssa.Field:
		return pathDepth(v.X, d+1) + "." + fieldName(v.X.Type(), v.Field)
	case *ssa.IndexAddr:
		x := pathDepth(v.X, d+1)
		i := pathDepth(v.Index, d+1)
		if strings.HasPrefix(x, "&") { // pointer to array held in a variable
			return x + "[" + i + "]"
		}
		return "&" + x + "[" + i + "]"
	case *ssa.Index:
		return pathDepth(v.X, d+1) + "[" + pathDepth(v.Index, d+1) + "]"
	case *ssa.Lookup:
		if v.CommaOk {
			return uniq(v)
		}
		return pathDepth(v.X, d+1) + "[" + pathDepth(v.Index, d+1) + "]"
	case *ssa.UnOp:
		switch v.Op {
		case token.MUL:
			x := pathDepth(v.X, d+1)
			if strings.HasPrefix(x, "&") {
				return x[1:]
			}
			return x + "^"
		case token.NOT:
			return "!" + pathDepth(v.X, d+1)
		case token.SUB:
			return "-" + pathDepth(v.X, d+1)
		}
		return uniq(v)
	case *ssa.ChangeType:
		return pathDepth(v.X, d+1)
	case *ssa.ChangeInterface:
		return pathDepth(v.X, d+1)
	case *ssa.MakeInterface:
		return pathDepth(v.X, d+1)
	case *ssa.Convert:
		return "conv<" + v.Type().String() + ">(" + pathDepth(v.X, d+1) + ")"
	case *ssa.Extract:
		return pathDepth(v.Tuple, d+1) + fmt.Sprintf("#%d", v.Index)
	case *ssa.BinOp:
		return "(" + pathDepth(v.X, d+1) + v.Op.String() + pathDepth(v.Y, d+1) + ")"
	case *ssa.Call:
		if PureCall != nil && PureCall(v) {
			return callPath(v, d)
		}
		if isBuiltin(v, "len") {
			return "len(" + pathDepth(v.Call.Args[0], d+1) + ")"
		}
		return uniq(v)
	}
	return uniq(v)
}

func callPath(v *ssa.Call, d int) string {
	var sb strings.Builder
	c := v.Common()
	if c.IsInvoke() {
		sb.WriteString(pathDepth(c.Value, d+1))
		sb.WriteString(".")
		sb.WriteString(c.Method.Name())
		sb.WriteString("(")
		for i, a := range c.Args {
			if i > 0 {
				sb.WriteString(",")
			}
			sb.WriteString(pathDepth(a, d+1))
		}
		sb.WriteString(")")
		return sb.String()
	}
	callee := c.StaticCallee()
	if callee == nil {
		return uniq(v)
	}
	args := c.Args
	if callee.Signature.Recv() != nil && len(args) > 0 {
		r := pathDepth(args[0], d+1)
		// normalise "&X" receivers (address of addressable var) and pointer values
		r = strings.TrimPrefix(r, "&")
		sb.WriteString(r)
		sb.WriteString(".")
		args = args[1:]
	}
	sb.WriteString(callee.Name())
	sb.WriteString("(")
	for i, a := range args {
		if i > 0 {
			sb.WriteString(",")
		}
		sb.WriteString(pathDepth(a, d+1))
	}
	sb.WriteString(")")
	return sb.String()
}

func isBuiltin(v *ssa.Call, name string) bool {
	b, ok := v.Call.Value.(*ssa.Builtin)
	return ok && b.Name() == name
}

// IsBuiltinCall reports whether instr is a call of the named builtin.
func IsBuiltinCall(instr ssa.Instruction, name string) bool {
	c, ok := instr.(*ssa.Call)
	return ok && isBuiltin(c, name)
}

func uniq(v ssa.Value) string {
	fn := ""
	if p := v.Parent(); p != nil {
		fn = p.Name()
	}
	return fmt.Sprintf("v%s@%s@%p", v.Name(), fn, v)
}

// IsUnique reports whether a path is a non-canonical unique path.
func IsUnique(p string) bool { return strings.HasPrefix(p, "v") && strings.Contains(p, "@") }

// spilledParam recognises the alloc go/ssa creates for a parameter whose
// address is taken: "t0 = local T (x); *t0 = x" at function entry, with no
// other whole-variable store.
func spilledParam(a *ssa.Alloc) *ssa.Parameter {
	var par *ssa.Parameter
	n := 0
	refs := a.Referrers()
	if refs == nil {
		return nil
	}
	for _, r := range *refs {
		if st, ok := r.(*ssa.Store); ok && st.Addr == a {
			n++
			if p, ok := st.Val.(*ssa.Parameter); ok {
				par = p
			}
		}
	}
	if n == 1 && par != nil {
		return par
	}
	return nil
}

func fieldName(t types.Type, i int) string {
	t = deref(t)
	if st, ok := t.Underlying().(*types.Struct); ok && i < st.NumFields() {
		return st.Field(i).Name()
	}
	return fmt.Sprintf("f%d", i)
}

func deref(t types.Type) types.Type {
	if p, ok := t.Underlying().(*types.Pointer); ok {
		return p.Elem()
	}
	return t
}

// Deref strips one pointer.
func Deref(t types.Type) types.Type { return deref(t) }

// NamedOf returns the named type of t after stripping pointers.
func NamedOf(t types.Type) *types.Named {
	for {
		if p, ok := t.(*types.Pointer); ok {
			t = p.Elem()
			continue
		}
		break
	}
	n, _ := t.(*types.Named)
	return n
}

// TypeName returns the bare name of the named type behind t ("" if none).
func TypeName(t types.Type) string {
	if n := NamedOf(t); n != nil {
		return n.Obj().Name()
	}
	return ""
}

// ConstInt returns the integer value of a constant SSA value.
func ConstInt(v ssa.Value) (int64, bool) {
	c, ok := v.(*ssa.Const)
	if !ok || c.Value == nil {
		return 0, false
	}
	if c.Value.Kind() != constant.Int {
		return 0, false
	}
	if i, ok := constant.Int64Val(c.Value); ok {
		return i, true
	}
	if u, ok := constant.Uint64Val(c.Value); ok {
		return int64(u), true
	}
	return 0, false
}

// ConstString returns the string value of a constant SSA value.
func ConstString(v ssa.Value) (string, bool) {
	c, ok := v.(*ssa.Const)
	if !ok || c.Value == nil || c.Value.Kind() != constant.String {
		return "", false
	}
	return constant.StringVal(c.Value), true
}

// IsNilConst reports whether v is the nil constant.
func IsNilConst(v ssa.Value) bool {
	c, ok := v.(*ssa.Const)
	return ok && c.Value == nil && !isBasic(c.Type())
}

func isBasic(t types.Type) bool {
	_, ok := t.Underlying().(*types.Basic)
	return ok
}

// IsErrorType reports whether t is the predeclared error interface.
func IsErrorType(t types.Type) bool {
	return types.Identical(t, types.Universe.Lookup("error").Type())
}

// FieldOf returns (struct type name, field name) of a FieldAddr / Field.
func FieldOf(v ssa.Value) (string, string, bool) {
	switch v := v.(type) {
	case *ssa.FieldAddr:
		return TypeName(v.X.Type()), fieldName(v.X.Type(), v.Field), true
	case *ssa.Field:
		return TypeName(v.X.Type()), fieldName(v.X.Type(), v.Field), true
	}
	return "", "", false
}
