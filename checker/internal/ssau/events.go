package ssau

import (
	"golang.org/x/tools/go/ssa"
)

// EventFlow is a forward must-analysis over named events: an event is in the
// set at a point iff it happened on every path from the function entry.
type EventFlow struct {
	in map[*ssa.BasicBlock]map[string]bool
	ev func(ssa.Instruction) []string
}

// MustEvents computes which events have happened on all paths.
func MustEvents(fn *ssa.Function, ev func(ssa.Instruction) []string) *EventFlow {
	ef := &EventFlow{in: map[*ssa.BasicBlock]map[string]bool{}, ev: ev}
	if len(fn.Blocks) == 0 {
		return ef
	}
	ef.in[fn.Blocks[0]] = map[string]bool{}
	work := []*ssa.BasicBlock{fn.Blocks[0]}
	for len(work) > 0 {
		b := work[0]
		work = work[1:]
		cur := map[string]bool{}
		for k := range ef.in[b] {
			cur[k] = true
		}
		for _, in := range b.Instrs {
			for _, e := range ev(in) {
				cur[e] = true
			}
		}
		for _, s := range b.Succs {
			old, seen := ef.in[s]
			if !seen {
				cp := map[string]bool{}
				for k := range cur {
					cp[k] = true
				}
				ef.in[s] = cp
				work = append(work, s)
				continue
			}
			changed := false
			for k := range old {
				if !cur[k] {
					delete(old, k)
					changed = true
				}
			}
			if changed {
				work = append(work, s)
			}
		}
	}
	return ef
}

// At returns the events that happened on all paths before instr.
func (ef *EventFlow) At(instr ssa.Instruction) map[string]bool {
	b := instr.Block()
	cur := map[string]bool{}
	for k := range ef.in[b] {
		cur[k] = true
	}
	for _, in := range b.Instrs {
		if in == instr {
			break
		}
		for _, e := range ef.ev(in) {
			cur[e] = true
		}
	}
	return cur
}

// Reaches reports whether block a can reach block b (a == b counts).
func Reaches(a, b *ssa.BasicBlock) bool {
	if a == b {
		return true
	}
	seen := map[*ssa.BasicBlock]bool{a: true}
	work := []*ssa.BasicBlock{a}
	for len(work) > 0 {
		x := work[0]
		work = work[1:]
		for _, s := range x.Succs {
			if s == b {
				return true
			}
			if !seen[s] {
				seen[s] = true
				work = append(work, s)
			}
		}
	}
	return false
}

// InstrIndex returns the index of instr in its block.
func InstrIndex(instr ssa.Instruction) int {
	for i, x := range instr.Block().Instrs {
		if x == instr {
			return i
		}
	}
	return -1
}

// EscapesWithout walks forward from just after start and reports the first
// Return reachable without passing an instruction for which stop returns true
// and without taking an edge for which cut(from, succIndex) returns true.
func EscapesWithout(start ssa.Instruction, stop func(ssa.Instruction) bool, cut func(b *ssa.BasicBlock, si int) bool) *ssa.Return {
	type st struct {
		b   *ssa.BasicBlock
		idx int
	}
	seen := map[*ssa.BasicBlock]bool{}
	work := []st{{start.Block(), InstrIndex(start) + 1}}
	for len(work) > 0 {
		cur := work[len(work)-1]
		work = work[:len(work)-1]
		stopped := false
		for i := cur.idx; i < len(cur.b.Instrs); i++ {
			in := cur.b.Instrs[i]
			if stop(in) {
				stopped = true
				break
			}
			if r, ok := in.(*ssa.Return); ok {
				return r
			}
		}
		if stopped {
			continue
		}
		for si, s := range cur.b.Succs {
			if cut != nil && cut(cur.b, si) {
				continue
			}
			if !seen[s] {
				seen[s] = true
				work = append(work, st{s, 0})
			}
		}
	}
	return nil
}

// MustEventsEdge is MustEvents with additional events generated on CFG edges
// (for facts established by branch conditions).
func MustEventsEdge(fn *ssa.Function, ev func(ssa.Instruction) []string, edge func(b *ssa.BasicBlock, si int) []string) *EventFlow {
	ef := &EventFlow{in: map[*ssa.BasicBlock]map[string]bool{}, ev: ev}
	if len(fn.Blocks) == 0 {
		return ef
	}
	ef.in[fn.Blocks[0]] = map[string]bool{}
	work := []*ssa.BasicBlock{fn.Blocks[0]}
	for len(work) > 0 {
		b := work[0]
		work = work[1:]
		cur := map[string]bool{}
		for k := range ef.in[b] {
			cur[k] = true
		}
		for _, in := range b.Instrs {
			for _, e := range ev(in) {
				cur[e] = true
			}
		}
		for si, s := range b.Succs {
			es := map[string]bool{}
			for k := range cur {
				es[k] = true
			}
			if edge != nil {
				for _, e := range edge(b, si) {
					es[e] = true
				}
			}
			old, seen := ef.in[s]
			if !seen {
				ef.in[s] = es
				work = append(work, s)
				continue
			}
			changed := false
			for k := range old {
				if !es[k] {
					delete(old, k)
					changed = true
				}
			}
			if changed {
				work = append(work, s)
			}
		}
	}
	return ef
}

// MayState is a forward may-analysis over a small set of state labels: the
// set at a point contains every label some path can be in. step maps the
// state before an instruction to the state after it.
type MayState struct {
	in   map[*ssa.BasicBlock]map[string]bool
	step func(in ssa.Instruction, state string) string
}

// MayStates runs the analysis from the initial state; edge may refine the
// state on an edge (return "" to drop the path: infeasible).
func MayStates(fn *ssa.Function, init string, step func(ssa.Instruction, string) string, edge func(b *ssa.BasicBlock, si int, state string) string) *MayState {
	ms := &MayState{in: map[*ssa.BasicBlock]map[string]bool{}, step: step}
	if len(fn.Blocks) == 0 {
		return ms
	}
	ms.in[fn.Blocks[0]] = map[string]bool{init: true}
	work := []*ssa.BasicBlock{fn.Blocks[0]}
	for len(work) > 0 {
		b := work[0]
		work = work[1:]
		out := map[string]bool{}
		for st := range ms.in[b] {
			cur := st
			for _, in := range b.Instrs {
				cur = step(in, cur)
			}
			out[cur] = true
		}
		for si, s := range b.Succs {
			if ms.in[s] == nil {
				ms.in[s] = map[string]bool{}
			}
			changed := false
			for st := range out {
				ns := st
				if edge != nil {
					ns = edge(b, si, st)
				}
				if ns == "" {
					continue
				}
				if !ms.in[s][ns] {
					ms.in[s][ns] = true
					changed = true
				}
			}
			if changed {
				work = append(work, s)
			}
		}
	}
	return ms
}

// At returns the possible states immediately before instr.
func (ms *MayState) At(instr ssa.Instruction) map[string]bool {
	out := map[string]bool{}
	for st := range ms.in[instr.Block()] {
		cur := st
		for _, in := range instr.Block().Instrs {
			if in == instr {
				break
			}
			cur = ms.step(in, cur)
		}
		out[cur] = true
	}
	return out
}

// ReachesAvoiding reports whether target is reachable from the function entry
// without executing an instruction for which stop is true and without taking
// an edge for which cut is true.
func ReachesAvoiding(fn *ssa.Function, target ssa.Instruction, stop func(ssa.Instruction) bool, cut func(b *ssa.BasicBlock, si int) bool) bool {
	if len(fn.Blocks) == 0 {
		return false
	}
	seen := map[*ssa.BasicBlock]bool{}
	work := []*ssa.BasicBlock{fn.Blocks[0]}
	for len(work) > 0 {
		b := work[len(work)-1]
		work = work[:len(work)-1]
		if seen[b] {
			continue
		}
		seen[b] = true
		stopped := false
		for _, in := range b.Instrs {
			if in == target {
				return true
			}
			if stop != nil && stop(in) {
				stopped = true
				break
			}
		}
		if stopped {
			continue
		}
		for si, s := range b.Succs {
			if cut != nil && cut(b, si) {
				continue
			}
			work = append(work, s)
		}
	}
	return false
}
