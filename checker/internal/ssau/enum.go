package ssau

import (
	"sort"
	"strings"

	"golang.org/x/tools/go/ssa"
)

// ValueSet abstracts the constants a tracked value may equal at a program
// point: either "one of In" or "anything but NotIn".
type ValueSet struct {
	In    map[string]bool // nil = unconstrained except NotIn
	NotIn map[string]bool
}

func (v ValueSet) clone() ValueSet {
	o := ValueSet{}
	if v.In != nil {
		o.In = map[string]bool{}
		for k := range v.In {
			o.In[k] = true
		}
	}
	o.NotIn = map[string]bool{}
	for k := range v.NotIn {
		o.NotIn[k] = true
	}
	return o
}

func (v ValueSet) equal(o ValueSet) bool {
	if (v.In == nil) != (o.In == nil) || len(v.In) != len(o.In) || len(v.NotIn) != len(o.NotIn) {
		return false
	}
	for k := range v.In {
		if !o.In[k] {
			return false
		}
	}
	for k := range v.NotIn {
		if !o.NotIn[k] {
			return false
		}
	}
	return true
}

// Known reports whether the value is known to be one of a finite set.
func (v ValueSet) Known() bool { return v.In != nil }

// Values lists the finite set (sorted).
func (v ValueSet) Values() []string {
	var out []string
	for k := range v.In {
		out = append(out, k)
	}
	sort.Strings(out)
	return out
}

// Excluded lists the excluded constants (sorted).
func (v ValueSet) Excluded() []string {
	var out []string
	for k := range v.NotIn {
		out = append(out, k)
	}
	sort.Strings(out)
	return out
}

func (v ValueSet) String() string {
	if v.In != nil {
		return "in{" + strings.Join(v.Values(), ",") + "}"
	}
	return "notin{" + strings.Join(v.Excluded(), ",") + "}"
}

func join(a, b ValueSet) ValueSet {
	switch {
	case a.In != nil && b.In != nil:
		o := ValueSet{In: map[string]bool{}, NotIn: map[string]bool{}}
		for k := range a.In {
			o.In[k] = true
		}
		for k := range b.In {
			o.In[k] = true
		}
		return o
	case a.In != nil:
		o := ValueSet{NotIn: map[string]bool{}}
		for k := range b.NotIn {
			if !a.In[k] {
				o.NotIn[k] = true
			}
		}
		return o
	case b.In != nil:
		return join(b, a)
	default:
		o := ValueSet{NotIn: map[string]bool{}}
		for k := range a.NotIn {
			if b.NotIn[k] {
				o.NotIn[k] = true
			}
		}
		return o
	}
}

// EnumFlow is the result of tracking one value (identified by canonical path)
// through the CFG.
type EnumFlow struct {
	in map[*ssa.BasicBlock]ValueSet
}

// TrackEnum computes, for every block, the constants the value with the given
// path may equal, from ==/!= comparisons with constants on the branches taken.
// match decides whether an SSA value denotes the tracked value.
func TrackEnum(fn *ssa.Function, match func(ssa.Value) bool) *EnumFlow {
	return TrackEnumFrom(fn, match, ValueSet{NotIn: map[string]bool{}})
}

// JoinSets is the least upper bound of two value sets.
func JoinSets(a, b ValueSet) ValueSet { return join(a, b) }

// TrackEnumFrom is TrackEnum with the value set that holds on entry (what the
// callers establish for a parameter).
func TrackEnumFrom(fn *ssa.Function, match func(ssa.Value) bool, entry ValueSet) *EnumFlow {
	ef := &EnumFlow{in: map[*ssa.BasicBlock]ValueSet{}}
	if len(fn.Blocks) == 0 {
		return ef
	}
	ef.in[fn.Blocks[0]] = entry.clone()
	work := []*ssa.BasicBlock{fn.Blocks[0]}
	for len(work) > 0 {
		b := work[0]
		work = work[1:]
		cur := ef.in[b]
		for si, s := range b.Succs {
			es := edgeEnum(b, si, cur, match)
			old, seen := ef.in[s]
			var nw ValueSet
			if !seen {
				nw = es
			} else {
				nw = join(old, es)
			}
			if !seen || !nw.equal(old) {
				ef.in[s] = nw
				work = append(work, s)
			}
		}
	}
	return ef
}

func edgeEnum(b *ssa.BasicBlock, si int, cur ValueSet, match func(ssa.Value) bool) ValueSet {
	out := cur.clone()
	if len(b.Instrs) == 0 {
		return out
	}
	ifi, ok := b.Instrs[len(b.Instrs)-1].(*ssa.If)
	if !ok || len(b.Succs) != 2 || b.Succs[0] == b.Succs[1] {
		return out
	}
	applyCond(ifi.Cond, si == 0, &out, match)
	return out
}

func applyCond(cond ssa.Value, branch bool, out *ValueSet, match func(ssa.Value) bool) {
	switch c := cond.(type) {
	case *ssa.UnOp:
		if c.Op.String() == "!" {
			applyCond(c.X, !branch, out, match)
		}
	case *ssa.BinOp:
		op := c.Op.String()
		if op != "==" && op != "!=" {
			return
		}
		var k string
		switch {
		case match(c.X):
			if kc, ok := c.Y.(*ssa.Const); ok && kc.Value != nil {
				k = kc.Value.ExactString()
			}
		case match(c.Y):
			if kc, ok := c.X.(*ssa.Const); ok && kc.Value != nil {
				k = kc.Value.ExactString()
			}
		}
		if k == "" {
			return
		}
		eq := (op == "==") == branch
		if eq {
			if out.In != nil && !out.In[k] {
				out.In = map[string]bool{} // contradiction: unreachable edge
				return
			}
			if out.NotIn[k] {
				out.In = map[string]bool{}
				return
			}
			out.In = map[string]bool{k: true}
		} else {
			if out.In != nil {
				delete(out.In, k)
			} else {
				out.NotIn[k] = true
			}
		}
	}
}

// At returns the value set at the entry of the block of instr.
func (ef *EnumFlow) At(instr ssa.Instruction) (ValueSet, bool) {
	v, ok := ef.in[instr.Block()]
	return v, ok
}

// AtBlock returns the value set at block entry.
func (ef *EnumFlow) AtBlock(b *ssa.BasicBlock) (ValueSet, bool) {
	v, ok := ef.in[b]
	return v, ok
}

// RefineOnEdge applies the branch condition of block b's terminator on the
// edge to successor si to the value set cur.
func RefineOnEdge(b *ssa.BasicBlock, si int, cur ValueSet, match func(ssa.Value) bool) ValueSet {
	return edgeEnum(b, si, cur, match)
}
