// Package effects computes bottom-up effect summaries over the module's call
// graph: which parameters' pointees a function may mutate, which struct field
// classes it stores to, whether it performs output/input, and which module
// functions it can reach. Calls into the standard library are summarised by a
// small table (documented below); interface invokes are resolved with VTA.
package effects

import (
	"go/token"
	"go/types"
	"sort"
	"strings"

	"golang.org/x/tools/go/ssa"

	"verif/checker/internal/load"
	"verif/checker/internal/ssau"
)

// Root kinds.
const (
	RParam = iota
	RFree
	RGlobal
	RLocal
	RUnknown
)

// Root is where the memory behind a value comes from.
type Root struct {
	Kind  int
	Index int    // RParam: index into fn.Params; RFree: index into fn.FreeVars
	Name  string // RGlobal
}

// Summary of one function.
type Summary struct {
	Fn        *ssa.Function
	MutParams map[int]bool           // pointee graph of Params[i] may be written
	MutFree   map[int]bool           // captured variable i may be written
	MutFields map[string]bool        // "Type.field" stored to here or in callees ("Type.field[]" = element)
	MutGlobal map[string]bool        // package-level variables written (or whose pointees are)
	Output    bool                   // may call Write/… on an io.Writer
	Input     bool                   // may consume from a bufio.Reader / io.Reader
	Unknown   bool                   // mutates something whose origin could not be resolved
	Calls     map[*ssa.Function]bool // module functions reachable (transitive, incl. via VTA)
	Panics    bool                   // contains an explicit panic(...) (own body only)
}

// Pure reports that the function writes no non-local memory and does no I/O.
func (s *Summary) Pure() bool {
	return len(s.MutParams) == 0 && len(s.MutFree) == 0 && len(s.MutGlobal) == 0 && !s.Output && !s.Input && !s.Unknown
}

// Info is the whole-program result.
type Info struct {
	P   *load.Program
	Sum map[*ssa.Function]*Summary
}

var cache = map[*load.Program]*Info{}

// Of computes (once per program) the summaries.
func Of(p *load.Program) *Info {
	if in, ok := cache[p]; ok {
		return in
	}
	in := &Info{P: p, Sum: map[*ssa.Function]*Summary{}}
	for _, f := range p.Funcs {
		in.Sum[f] = &Summary{Fn: f, MutParams: map[int]bool{}, MutFree: map[int]bool{}, MutFields: map[string]bool{}, MutGlobal: map[string]bool{}, Calls: map[*ssa.Function]bool{}}
	}
	for changed := true; changed; {
		changed = false
		for _, f := range p.Funcs {
			if in.step(f) {
				changed = true
			}
		}
	}
	cache[p] = in
	ssau.PureCall = in.pureCall
	return in
}

// pureCall: a call may be canonicalised by path when every possible callee is
// a pure module function (or a known-pure external method) and it has a
// receiver or arguments to be keyed on.
func (in *Info) pureCall(c *ssa.Call) bool {
	cc := c.Common()
	if _, ok := cc.Value.(*ssa.Builtin); ok {
		return false
	}
	callees := in.P.Callees(c)
	if len(callees) == 0 {
		if cc.IsInvoke() {
			return pureExternalMethod[cc.Method.Name()]
		}
		return false
	}
	for _, f := range callees {
		if s := in.Sum[f]; s != nil {
			if !s.Pure() {
				return false
			}
			continue
		}
		if !externalPure(f) {
			return false
		}
	}
	return true
}

var pureExternalMethod = map[string]bool{"Len": true, "String": true, "Error": true, "Sign": true, "IsInt64": true, "IsUint64": true, "Kind": true, "Type": true, "IsNil": true, "NumField": true}

func (in *Info) step(f *ssa.Function) bool {
	s := in.Sum[f]
	before := s.size()
	for _, b := range f.Blocks {
		for _, instr := range b.Instrs {
			switch i := instr.(type) {
			case *ssa.Store:
				if memoInit(i) {
					// lazy initialisation of a nil field (if x.f == nil { x.f = build(x) }): the
					// field is recorded as written, so facts about it die at calls, but the
					// function stays pure for everything else: a second call finds the field set
					// and changes nothing, and no other memory is touched
					in.recordField(s, i.Addr)
					continue
				}
				in.mutate(s, i.Addr, true)
				in.recordField(s, i.Addr)
			case *ssa.MapUpdate:
				in.mutate(s, i.Map, false)
				if t, fl, ok := fieldOfLoaded(i.Map); ok {
					s.MutFields[t+"."+fl+"[]"] = true
				}
			case *ssa.Panic:
				s.Panics = true
			case *ssa.MakeClosure:
				if cf, ok := i.Fn.(*ssa.Function); ok {
					if cs := in.Sum[cf]; cs != nil {
						for k := range cs.MutFree {
							if k < len(i.Bindings) {
								in.mutate(s, i.Bindings[k], true)
							}
						}
						in.inherit(s, cs)
					}
				}
			case ssa.CallInstruction:
				in.call(s, i)
			}
		}
	}
	return s.size() != before
}

func (s *Summary) size() int {
	n := len(s.MutParams) + len(s.MutFree) + len(s.MutFields) + len(s.MutGlobal) + len(s.Calls)
	for _, b := range []bool{s.Output, s.Input, s.Unknown, s.Panics} {
		if b {
			n++
		}
	}
	return n
}

func (in *Info) inherit(s, cs *Summary) {
	for k := range cs.MutFields {
		s.MutFields[k] = true
	}
	for k := range cs.MutGlobal {
		s.MutGlobal[k] = true
	}
	if cs.Output {
		s.Output = true
	}
	if cs.Input {
		s.Input = true
	}
	if cs.Unknown {
		s.Unknown = true
	}
	s.Calls[cs.Fn] = true
	for k := range cs.Calls {
		s.Calls[k] = true
	}
}

// mutate records that the memory addr points to (isAddr) or the object v
// denotes (map, !isAddr) is written.
func (in *Info) mutate(s *Summary, v ssa.Value, isAddr bool) {
	for r := range RootsOf(v) {
		switch r.Kind {
		case RParam:
			s.MutParams[r.Index] = true
		case RFree:
			s.MutFree[r.Index] = true
		case RGlobal:
			s.MutGlobal[r.Name] = true
		case RUnknown:
			s.Unknown = true
		}
	}
}

func (in *Info) recordField(s *Summary, addr ssa.Value) {
	switch a := addr.(type) {
	case *ssa.FieldAddr:
		t, fl, _ := ssau.FieldOf(a)
		if t != "" {
			s.MutFields[t+"."+fl] = true
		}
	case *ssa.IndexAddr:
		if t, fl, ok := fieldOfLoaded(a.X); ok {
			s.MutFields[t+"."+fl+"[]"] = true
		}
	}
}

// fieldOfLoaded: v is a load (possibly sliced) of a struct field.
func fieldOfLoaded(v ssa.Value) (string, string, bool) {
	for i := 0; i < 4; i++ {
		switch x := v.(type) {
		case *ssa.UnOp:
			if fa, ok := x.X.(*ssa.FieldAddr); ok {
				return ssau.FieldOf(fa)
			}
			return "", "", false
		case *ssa.Field:
			return ssau.FieldOf(x)
		case *ssa.Slice:
			v = x.X
		default:
			return "", "", false
		}
	}
	return "", "", false
}

func (in *Info) call(s *Summary, ci ssa.CallInstruction) {
	cc := ci.Common()
	if b, ok := cc.Value.(*ssa.Builtin); ok {
		switch b.Name() {
		case "copy":
			in.mutate(s, cc.Args[0], false)
		case "delete":
			in.mutate(s, cc.Args[0], false)
		}
		return
	}
	callees := in.P.Callees(ci)
	args := cc.Args
	if cc.IsInvoke() {
		args = append([]ssa.Value{cc.Value}, cc.Args...)
	}
	handled := false
	for _, cf := range callees {
		if cs := in.Sum[cf]; cs != nil {
			handled = true
			in.inherit(s, cs)
			for j := range cs.MutParams {
				if j < len(args) {
					in.mutate(s, args[j], false)
				}
			}
			continue
		}
		if in.P.InModule(cf) {
			continue // synthetic wrapper without body of interest
		}
		handled = true
		in.external(s, cf, args)
	}
	if !handled {
		if cc.IsInvoke() {
			in.externalInvoke(s, cc.Method, args)
		} else if _, isFn := cc.Value.(*ssa.Function); !isFn {
			// call of a function value with no known target (e.g. a parameter of func type
			// never bound inside the module): assume it may do output through its arguments.
			for _, a := range args {
				if pointerLike(a.Type()) {
					in.mutate(s, a, false)
				}
			}
		}
	}
}

// External (standard library) calls ------------------------------------------

var outputMethods = map[string]bool{"Write": true, "WriteString": true, "WriteByte": true, "WriteRune": true, "Close": true, "Flush": true}
var inputMethods = map[string]bool{"Read": true, "ReadByte": true, "ReadRune": true, "Peek": true, "Discard": true, "UnreadByte": true, "ReadString": true, "ReadBytes": true}

// known read-only methods of standard-library pointer receivers
var pureStdMethods = map[string]bool{
	"Sign": true, "Bytes": true, "String": true, "Cmp": true, "CmpAbs": true, "IsInt64": true, "IsUint64": true, "Int64": true, "Uint64": true,
	"BitLen": true, "Bit": true, "Text": true, "Append": true, "Len": true, "Cap": true, "Error": true, "Unwrap": true, "Format": true,
	"Buffered": true, "Size": true, "ProbablyPrime": true, "TrailingZeroBits": true, "Float64": true, "Float32": true,
	"Year": true, "Month": true, "Day": true, "Hour": true, "Minute": true, "Second": true, "Nanosecond": true, "Zone": true, "In": true, "UTC": true,
	"Location": true, "Equal": true, "Before": true, "After": true, "Unix": true, "UnixNano": true, "Date": true, "Clock": true, "Weekday": true,
	"AddDate": true, "Sub": false, "Kind": true, "Type": true, "Elem": true, "Field": true, "NumField": true, "IsNil": true, "Interface": true, "MapKeys": true,
	"MapIndex": true, "Index": true, "Name": true, "PkgPath": true, "NumMethod": true, "Implements": true, "Key": true, "IsValid": true, "CanSet": true,
	"CanAddr": true, "CanInterface": true, "Addr": true, "Bool": true, "Int": true, "Uint": true, "Float": true, "Pointer": true, "Get": true, "Lookup": true,
	"OverflowInt": true, "OverflowUint": true, "OverflowFloat": true, "FieldByIndex": true, "Slice": true, "Convert": true, "Method": true, "MethodByName": true,
	"AssignableTo": true, "ConvertibleTo": true, "Comparable": true, "Bits": true, "Align": true, "FieldAlign": true, "NumIn": true, "NumOut": true, "In_": true,
}

func externalPure(f *ssa.Function) bool {
	sig := f.Signature
	if sig.Recv() == nil {
		for i := 0; i < sig.Params().Len(); i++ {
			if isWriterLike(sig.Params().At(i).Type()) || isReaderLike(sig.Params().At(i).Type()) {
				return false
			}
		}
		return true
	}
	if _, ptr := sig.Recv().Type().(*types.Pointer); !ptr {
		// value receivers cannot mutate the receiver; reflect.Value setters write through it
		if ssau.TypeName(sig.Recv().Type()) == "Value" && strings.HasPrefix(f.Name(), "Set") {
			return false
		}
		return true
	}
	return pureStdMethods[f.Name()]
}

func (in *Info) external(s *Summary, f *ssa.Function, args []ssa.Value) {
	sig := f.Signature
	name := f.Name()
	if sig.Recv() != nil {
		rt := ssau.TypeName(sig.Recv().Type())
		_, ptr := sig.Recv().Type().(*types.Pointer)
		if rt == "Value" && (strings.HasPrefix(name, "Set") || name == "Grow" || name == "Clear") {
			if len(args) > 0 {
				in.mutate(s, args[0], false)
			}
			return
		}
		if ptr && !pureStdMethods[name] {
			if len(args) > 0 {
				in.mutate(s, args[0], false)
			}
			if outputMethods[name] {
				s.Output = true
			}
			if inputMethods[name] {
				s.Input = true
			}
		}
	}
	// functions that take a writer/reader perform I/O on it
	off := 0
	if sig.Recv() != nil {
		off = 1
	}
	for i := 0; i < sig.Params().Len(); i++ {
		t := sig.Params().At(i).Type()
		if isWriterLike(t) && i+off < len(args) {
			s.Output = true
			in.mutate(s, args[i+off], false)
		}
		if isReaderLike(t) && i+off < len(args) {
			s.Input = true
			in.mutate(s, args[i+off], false)
		}
	}
	// sort.Slice & friends mutate their first argument
	if f.Pkg != nil && f.Pkg.Pkg.Path() == "sort" && len(args) > 0 {
		in.mutate(s, args[0], false)
	}
	if f.Pkg != nil && f.Pkg.Pkg.Path() == "encoding/binary" && strings.HasPrefix(name, "Put") && len(args) > 1 {
		in.mutate(s, args[1], false)
	}
}

func (in *Info) externalInvoke(s *Summary, m *types.Func, args []ssa.Value) {
	name := m.Name()
	if outputMethods[name] {
		s.Output = true
		in.mutate(s, args[0], false)
		return
	}
	if inputMethods[name] {
		s.Input = true
		in.mutate(s, args[0], false)
		return
	}
	if pureExternalMethod[name] || pureStdMethods[name] {
		return
	}
	// unknown interface method implemented outside the module (user Marshaler, …)
	in.mutate(s, args[0], false)
}

func isWriterLike(t types.Type) bool { return hasMethod(t, "Write") }
func isReaderLike(t types.Type) bool { return hasMethod(t, "Read") }

func hasMethod(t types.Type, name string) bool {
	it, ok := t.Underlying().(*types.Interface)
	if !ok {
		return false
	}
	for i := 0; i < it.NumMethods(); i++ {
		if it.Method(i).Name() == name {
			return true
		}
	}
	return false
}

func pointerLike(t types.Type) bool {
	switch t.Underlying().(type) {
	case *types.Pointer, *types.Slice, *types.Map, *types.Interface, *types.Chan, *types.Signature:
		return true
	}
	return false
}

// Roots ------------------------------------------------------------------------

// RootsOf returns where the memory reachable through v may come from.
func RootsOf(v ssa.Value) map[Root]bool {
	out := map[Root]bool{}
	rootsInto(v, out, map[ssa.Value]bool{}, 0)
	return out
}

func rootsInto(v ssa.Value, out map[Root]bool, seen map[ssa.Value]bool, depth int) {
	if v == nil || seen[v] {
		return
	}
	seen[v] = true
	if depth > 40 {
		out[Root{Kind: RUnknown}] = true
		return
	}
	switch x := v.(type) {
	case *ssa.Parameter:
		fn := x.Parent()
		for i, p := range fn.Params {
			if p == x {
				out[Root{Kind: RParam, Index: i}] = true
			}
		}
	case *ssa.FreeVar:
		fn := x.Parent()
		for i, p := range fn.FreeVars {
			if p == x {
				out[Root{Kind: RFree, Index: i}] = true
			}
		}
	case *ssa.Global:
		pk := ""
		if x.Pkg != nil {
			pk = x.Pkg.Pkg.Path() + "."
		}
		out[Root{Kind: RGlobal, Name: pk + x.Name()}] = true
	case *ssa.Const, *ssa.Function, *ssa.Builtin:
	case *ssa.Alloc:
		out[Root{Kind: RLocal}] = true
	case *ssa.MakeSlice, *ssa.MakeMap, *ssa.MakeChan:
		out[Root{Kind: RLocal}] = true
	case *ssa.MakeClosure:
		out[Root{Kind: RLocal}] = true
		for _, b := range x.Bindings {
			rootsInto(b, out, seen, depth+1)
		}
	case *ssa.FieldAddr:
		rootsInto(x.X, out, seen, depth+1)
	case *ssa.IndexAddr:
		rootsInto(x.X, out, seen, depth+1)
	case *ssa.Field:
		rootsInto(x.X, out, seen, depth+1)
	case *ssa.Index:
		rootsInto(x.X, out, seen, depth+1)
	case *ssa.Lookup:
		rootsInto(x.X, out, seen, depth+1)
	case *ssa.Slice:
		rootsInto(x.X, out, seen, depth+1)
	case *ssa.TypeAssert:
		rootsInto(x.X, out, seen, depth+1)
	case *ssa.ChangeType:
		rootsInto(x.X, out, seen, depth+1)
	case *ssa.ChangeInterface:
		rootsInto(x.X, out, seen, depth+1)
	case *ssa.MakeInterface:
		rootsInto(x.X, out, seen, depth+1)
	case *ssa.Convert:
		if pointerLike(x.Type()) {
			rootsInto(x.X, out, seen, depth+1)
		}
	case *ssa.SliceToArrayPointer:
		rootsInto(x.X, out, seen, depth+1)
	case *ssa.Extract:
		rootsInto(x.Tuple, out, seen, depth+1)
	case *ssa.Range:
		rootsInto(x.X, out, seen, depth+1)
	case *ssa.Next:
		rootsInto(x.Iter, out, seen, depth+1)
	case *ssa.Phi:
		for _, e := range x.Edges {
			rootsInto(e, out, seen, depth+1)
		}
	case *ssa.BinOp:
		// arithmetic / string concatenation yields fresh values
	case *ssa.UnOp:
		if x.Op.String() != "*" {
			return
		}
		// load: if the address is (a sub-location of) a local allocation, the loaded
		// value is whatever was stored there; otherwise it lives behind the address' roots.
		if a := localBase(x.X); a != nil {
			n := 0
			forEachStoreInto(a, func(val ssa.Value) {
				n++
				rootsInto(val, out, seen, depth+1)
			})
			if n == 0 {
				out[Root{Kind: RLocal}] = true
			}
			return
		}
		rootsInto(x.X, out, seen, depth+1)
	case *ssa.Call:
		cc := x.Common()
		if b, ok := cc.Value.(*ssa.Builtin); ok {
			switch b.Name() {
			case "append":
				for _, a := range cc.Args {
					rootsInto(a, out, seen, depth+1)
				}
			default:
			}
			return
		}
		n := 0
		if cc.IsInvoke() {
			rootsInto(cc.Value, out, seen, depth+1)
			n++
		}
		for _, a := range cc.Args {
			if pointerLike(a.Type()) {
				rootsInto(a, out, seen, depth+1)
				n++
			}
		}
		if n == 0 {
			out[Root{Kind: RLocal}] = true
		}
	default:
		out[Root{Kind: RUnknown}] = true
	}
}

// localBase returns the local Alloc an address expression stays inside of
// (FieldAddr / IndexAddr-on-array chains without a load), or nil.
func localBase(addr ssa.Value) *ssa.Alloc {
	for i := 0; i < 16; i++ {
		switch a := addr.(type) {
		case *ssa.Alloc:
			return a
		case *ssa.FieldAddr:
			addr = a.X
		case *ssa.IndexAddr:
			if _, ok := a.X.Type().Underlying().(*types.Pointer); ok { // pointer to array
				addr = a.X
			} else {
				return nil
			}
		default:
			return nil
		}
	}
	return nil
}

// forEachStoreInto visits values stored into a or any sub-location of a.
func forEachStoreInto(a *ssa.Alloc, f func(ssa.Value)) {
	seen := map[ssa.Value]bool{}
	var walk func(addr ssa.Value)
	walk = func(addr ssa.Value) {
		if seen[addr] {
			return
		}
		seen[addr] = true
		refs := addr.Referrers()
		if refs == nil {
			return
		}
		for _, r := range *refs {
			switch r := r.(type) {
			case *ssa.Store:
				if r.Addr == addr {
					f(r.Val)
				}
			case *ssa.FieldAddr:
				if r.X == addr {
					walk(r)
				}
			case *ssa.IndexAddr:
				if r.X == addr {
					walk(r)
				}
			}
		}
	}
	walk(a)
}

// HasRoot reports whether v may be rooted at parameter idx.
func HasRoot(v ssa.Value, kind, idx int) bool {
	for r := range RootsOf(v) {
		if r.Kind == kind && (kind != RParam && kind != RFree || r.Index == idx) {
			return true
		}
	}
	return false
}

// CallMutates reports whether the call may mutate memory rooted at parameter
// idx of the calling function (or perform output through such an argument),
// and names the reason.
func (in *Info) CallMutates(ci ssa.CallInstruction, idx int) (bool, string) {
	tmp := &Summary{MutParams: map[int]bool{}, MutFree: map[int]bool{}, MutFields: map[string]bool{}, MutGlobal: map[string]bool{}, Calls: map[*ssa.Function]bool{}}
	in.call(tmp, ci)
	if tmp.MutParams[idx] {
		var names []string
		for _, f := range in.P.Callees(ci) {
			names = append(names, in.P.FuncName(f))
		}
		if len(names) == 0 {
			if m := ci.Common().Method; m != nil {
				names = append(names, m.Name())
			}
		}
		sort.Strings(names)
		return true, strings.Join(names, ",")
	}
	return false, ""
}

// CallSummary returns the merged summary of everything a call may do,
// expressed on the caller's roots.
func (in *Info) CallSummary(ci ssa.CallInstruction) *Summary {
	tmp := &Summary{MutParams: map[int]bool{}, MutFree: map[int]bool{}, MutFields: map[string]bool{}, MutGlobal: map[string]bool{}, Calls: map[*ssa.Function]bool{}}
	in.call(tmp, ci)
	return tmp
}

// Reaches reports whether fn can reach (transitively, or is) a function
// satisfying pred.
func (in *Info) Reaches(fn *ssa.Function, pred func(*ssa.Function) bool) bool {
	if pred(fn) {
		return true
	}
	if s := in.Sum[fn]; s != nil {
		for c := range s.Calls {
			if pred(c) {
				return true
			}
		}
	}
	return false
}

// memoInit reports whether st stores to a field x.f on a path that is only
// taken when a load of the same x.f compared equal to nil.
// MemoInit is memoInit for other packages.
func MemoInit(st *ssa.Store) bool { return memoInit(st) }

func memoInit(st *ssa.Store) bool {
	fa, ok := st.Addr.(*ssa.FieldAddr)
	if !ok {
		return false
	}
	want := ssau.Path(fa)
	b := st.Block()
	for d := b; d != nil; d = d.Idom() {
		id := d.Idom()
		if id == nil || len(id.Instrs) == 0 {
			continue
		}
		ifi, ok := id.Instrs[len(id.Instrs)-1].(*ssa.If)
		if !ok {
			continue
		}
		bo, ok := ifi.Cond.(*ssa.BinOp)
		if !ok || (bo.Op != token.EQL && bo.Op != token.NEQ) {
			continue
		}
		var other ssa.Value
		switch {
		case ssau.IsNilConst(bo.Y):
			other = bo.X
		case ssau.IsNilConst(bo.X):
			other = bo.Y
		default:
			continue
		}
		ld, ok := other.(*ssa.UnOp)
		if !ok || ld.Op != token.MUL {
			continue
		}
		lfa, ok := ld.X.(*ssa.FieldAddr)
		if !ok || ssau.Path(lfa) != want {
			continue
		}
		si := 0
		if bo.Op == token.NEQ {
			si = 1
		}
		// d is the successor on the "is nil" edge and has no other predecessor
		if id.Succs[si] == d && len(d.Preds) == 1 {
			return true
		}
	}
	return false
}
