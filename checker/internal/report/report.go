// Package report holds the verdict protocol: obligations, rule results,
// known findings, evidence files and the VIOLATION / KNOWN-FINDING lines.
package report

import (
	"encoding/json"
	"fmt"
	"os"
	"path/filepath"
	"regexp"
	"sort"
	"strings"
	"time"
)

// Status of an obligation.
const (
	Discharged = "discharged"
	Violation  = "violation"
	Undecided  = "undecided"
)

// An Obligation is one site a rule had to decide.
type Obligation struct {
	Rule   string `json:"rule"`
	Key    string `json:"key"`  // position-free: rule|function|construct
	Pos    string `json:"pos"`  // file:line (diagnostic only)
	Func   string `json:"func"` // enclosing function
	What   string `json:"what"` // the construct
	Status string `json:"status"`
	By     string `json:"by,omitempty"`     // idiom that discharged it
	Detail string `json:"detail,omitempty"` // for violations: entry point, offending exit, …
}

// A Suppression names one symbol and one reason.
type Suppression struct {
	Rule   string `json:"rule"`
	Symbol string `json:"symbol"`
	Reason string `json:"reason"`
	Used   bool   `json:"used"`
}

// RuleResult is what one rule produced on one load of the program.
type RuleResult struct {
	ID           string        `json:"id"`
	Doc          string        `json:"doc"`
	Obligations  []Obligation  `json:"-"`
	MinInstances int           `json:"min_instances"`
	Suppressions []Suppression `json:"suppressions,omitempty"`
	Errors       []string      `json:"errors,omitempty"` // unresolved anchors etc. -> CHECKER-ERROR
	Info         []string      `json:"info,omitempty"`
}

var addrRE = regexp.MustCompile(`@0x[0-9a-f]+`)

// Add appends an obligation.
func (r *RuleResult) Add(o Obligation) {
	o.Rule = r.ID
	// SSA values without a canonical access path are rendered with their address;
	// keys and texts must be the same from run to run
	o.What = addrRE.ReplaceAllString(o.What, "")
	o.Key = addrRE.ReplaceAllString(o.Key, "")
	o.Detail = addrRE.ReplaceAllString(o.Detail, "")
	o.By = addrRE.ReplaceAllString(o.By, "")
	if o.Key == "" {
		o.Key = r.ID + "|" + o.Func + "|" + o.What
	} else if !strings.HasPrefix(o.Key, r.ID+"|") {
		o.Key = r.ID + "|" + o.Key
	}
	r.Obligations = append(r.Obligations, o)
}

// OK adds a discharged obligation.
func (r *RuleResult) OK(fn, pos, what, by string) {
	r.Add(Obligation{Func: fn, Pos: pos, What: what, Status: Discharged, By: by})
}

// Bad adds a violated obligation.
func (r *RuleResult) Bad(fn, pos, what, detail string) {
	r.Add(Obligation{Func: fn, Pos: pos, What: what, Status: Violation, Detail: detail})
}

// Unknown adds an undecided obligation (turns the run into a CHECKER-ERROR).
func (r *RuleResult) Unknown(fn, pos, what, detail string) {
	r.Add(Obligation{Func: fn, Pos: pos, What: what, Status: Undecided, Detail: detail})
}

// Errorf records a checker error (missing anchor, unexpected shape).
func (r *RuleResult) Errorf(format string, a ...interface{}) {
	r.Errors = append(r.Errors, r.ID+": "+fmt.Sprintf(format, a...))
}

// Infof records an informational line echoed in the evidence.
func (r *RuleResult) Infof(format string, a ...interface{}) {
	r.Info = append(r.Info, fmt.Sprintf(format, a...))
}

// DedupKeys makes keys unique by appending #n to repeats (in order).
func (r *RuleResult) DedupKeys() {
	seen := map[string]int{}
	for i := range r.Obligations {
		k := r.Obligations[i].Key
		seen[k]++
		if seen[k] > 1 {
			r.Obligations[i].Key = fmt.Sprintf("%s#%d", k, seen[k])
		}
	}
}

// Count returns the number of obligations with the status.
func (r *RuleResult) Count(status string) int {
	n := 0
	for _, o := range r.Obligations {
		if o.Status == status {
			n++
		}
	}
	return n
}

// ---------------------------------------------------------------------------

// A Finding is an entry of /verif/known_findings.json.
type Finding struct {
	Property string `json:"property"`
	Rule     string `json:"rule"`
	Key      string `json:"key"`
	What     string `json:"what"`
	Status   string `json:"status"` // "known" | "fixed"
	Commit   string `json:"commit,omitempty"`
	Input    string `json:"failing_input,omitempty"`
	ID       string `json:"id,omitempty"`
}

// Findings is the committed file.
type Findings struct {
	Comment  string    `json:"_comment,omitempty"`
	Findings []Finding `json:"findings"`
	Fixed    []string  `json:"fixed_log,omitempty"`
}

// LoadFindings reads the known-findings file (missing file = empty list).
func LoadFindings(path string) (*Findings, error) {
	b, err := os.ReadFile(path)
	if os.IsNotExist(err) {
		return &Findings{}, nil
	}
	if err != nil {
		return nil, err
	}
	var f Findings
	if err := json.Unmarshal(b, &f); err != nil {
		return nil, fmt.Errorf("%s: %v", path, err)
	}
	return &f, nil
}

// Known reports whether a violation key of a property is listed as known
// (status "known"; "fixed" entries suppress nothing).
func (f *Findings) Known(property, key string) *Finding {
	for i := range f.Findings {
		e := &f.Findings[i]
		if e.Status == "known" && e.Key == key && (e.Property == property || strings.Contains(","+e.Property+",", ","+property+",")) {
			return e
		}
	}
	return nil
}

// ---------------------------------------------------------------------------

// RuleSummary is the per-rule block of the evidence.
type RuleSummary struct {
	ID           string         `json:"id"`
	Doc          string         `json:"doc"`
	Instances    int            `json:"instances"`
	MinInstances int            `json:"min_instances"`
	DischargedBy map[string]int `json:"discharged_by"`
	Violations   int            `json:"violations"`
	Known        int            `json:"known"`
	Undecided    int            `json:"undecided"`
	Suppressions []Suppression  `json:"suppressions,omitempty"`
	Info         []string       `json:"info,omitempty"`
}

// Control is the outcome of one positive / negative control.
type Control struct {
	Name    string `json:"name"`
	Rule    string `json:"rule"`
	Kind    string `json:"kind"`    // "break" (must fire) | "refactor" (must stay silent)
	Outcome string `json:"outcome"` // fired | silent | skipped | error
	Detail  string `json:"detail,omitempty"`
}

// Run is everything a property check produced.
type Run struct {
	Property    string
	Tier        string
	Seed        int64
	Started     time.Time
	Explanation string
	NotDecided  string
	Results     []*RuleResult
	Packages    []string
	Functions   int
	CGEdges     int
	Configs     []string
	Controls    []Control
	Assumptions []string
	Trusted     []string
	CheckerCmd  string
	Errors      []string
	Extra       map[string]interface{}
}

// Outcome is the computed verdict.
type Outcome struct {
	Violations []Obligation
	Known      []Obligation
	KnownWhat  map[string]string
	Undecided  []Obligation
	Errors     []string
}

// Decide classifies the obligations against the known-findings list.
func (run *Run) Decide(kf *Findings) *Outcome {
	out := &Outcome{KnownWhat: map[string]string{}}
	out.Errors = append(out.Errors, run.Errors...)
	for _, r := range run.Results {
		out.Errors = append(out.Errors, r.Errors...)
		// The count confirmed by hand guards against a rule that has silently stopped matching
		// (a collapse to nothing or to a fraction); it is not a census. A refactoring that merges
		// two sites into one must not break the check, so the floor is half the confirmed count.
		if n, floor := len(r.Obligations), (r.MinInstances+1)/2; n < floor {
			out.Errors = append(out.Errors, fmt.Sprintf("%s: matched %d instances, fewer than half of the %d confirmed by hand (a rule must not pass vacuously)", r.ID, n, r.MinInstances))
		}
		for _, o := range r.Obligations {
			switch o.Status {
			case Violation:
				if e := kf.Known(run.Property, o.Key); e != nil {
					out.Known = append(out.Known, o)
					out.KnownWhat[o.Key] = e.What
				} else {
					out.Violations = append(out.Violations, o)
				}
			case Undecided:
				out.Undecided = append(out.Undecided, o)
			}
		}
	}
	for _, c := range run.Controls {
		if c.Outcome == "error" {
			out.Errors = append(out.Errors, fmt.Sprintf("control %s (%s): %s", c.Name, c.Rule, c.Detail))
		}
		if c.Kind == "break" && c.Outcome == "silent" {
			out.Errors = append(out.Errors, fmt.Sprintf("positive control %s did not fire rule %s: %s", c.Name, c.Rule, c.Detail))
		}
		if c.Kind == "refactor" && c.Outcome == "fired" {
			out.Errors = append(out.Errors, fmt.Sprintf("negative control %s (behaviour-preserving) made rule %s fire: %s", c.Name, c.Rule, c.Detail))
		}
	}
	return out
}

// WriteEvidence writes evidence/<id>.json and, when there are violations,
// evidence/<id>.violations.json. It returns the replay path.
func (run *Run) WriteEvidence(dir string, out *Outcome) (string, error) {
	if err := os.MkdirAll(dir, 0o755); err != nil {
		return "", err
	}
	obl, dis := 0, 0
	var rules []RuleSummary
	var samples []interface{}
	var supp []Suppression
	for _, r := range run.Results {
		rs := RuleSummary{ID: r.ID, Doc: r.Doc, Instances: len(r.Obligations), MinInstances: r.MinInstances, DischargedBy: map[string]int{}, Suppressions: r.Suppressions, Info: r.Info}
		supp = append(supp, r.Suppressions...)
		ns := 0
		for _, o := range r.Obligations {
			obl++
			switch o.Status {
			case Discharged:
				dis++
				rs.DischargedBy[o.By]++
				if ns < 3 {
					samples = append(samples, o)
					ns++
				}
			case Violation:
				if _, ok := out.KnownWhat[o.Key]; ok {
					rs.Known++
				} else {
					rs.Violations++
				}
				samples = append(samples, o)
			case Undecided:
				rs.Undecided++
				samples = append(samples, o)
			}
		}
		rules = append(rules, rs)
	}
	ctl := map[string]int{"total": len(run.Controls)}
	for _, c := range run.Controls {
		ctl[c.Outcome]++
	}
	cov := map[string]interface{}{
		"explanation":         run.Explanation,
		"not_decided":         run.NotDecided,
		"obligations":         obl,
		"discharged":          dis,
		"evaluations":         obl,
		"distinct_nontrivial": distinctKeys(run.Results),
		"rule":                "one obligation per (rule, type-resolved construct) enumerated from /repo's current source; distinct = distinct obligation keys; every obligation is a site that had to be decided, so all are non-trivial",
		"rules":               rules,
		"samples":             samples,
		"packages":            run.Packages,
		"functions_analysed":  run.Functions,
		"call_graph_edges":    run.CGEdges,
		"configurations":      run.Configs,
		"controls":            ctl,
		"control_results":     run.Controls,
		"suppressions":        supp,
		"checker_cmd":         run.CheckerCmd,
		"trusted_base":        run.Trusted,
		"known_findings":      len(out.Known),
		"checker_errors":      out.Errors,
		"exhaustive":          true,
	}
	for k, v := range run.Extra {
		cov[k] = v
	}
	// the schema wants arrays, never null
	if supp == nil {
		cov["suppressions"] = []Suppression{}
	}
	if out.Errors == nil {
		cov["checker_errors"] = []string{}
	}
	if samples == nil {
		cov["samples"] = []interface{}{}
	}
	if run.Controls == nil {
		cov["control_results"] = []Control{}
	}
	assumptions := append([]string{}, run.Assumptions...)
	assumptions = append(assumptions, run.Trusted...)
	ev := map[string]interface{}{
		"property_id": run.Property,
		"tier":        run.Tier,
		"seed":        run.Seed,
		"level":       "other",
		"coverage":    cov,
		"assumptions": assumptions,
		"wall_s":      time.Since(run.Started).Seconds(),
		"violations":  len(out.Violations),
	}
	b, err := json.MarshalIndent(ev, "", " ")
	if err != nil {
		return "", err
	}
	if err := os.WriteFile(filepath.Join(dir, run.Property+".json"), append(b, '\n'), 0o644); err != nil {
		return "", err
	}
	replay := filepath.Join(dir, run.Property+".violations.json")
	if len(out.Violations) > 0 || len(out.Undecided) > 0 {
		rb, _ := json.MarshalIndent(map[string]interface{}{
			"property":   run.Property,
			"violations": out.Violations,
			"undecided":  out.Undecided,
		}, "", " ")
		if err := os.WriteFile(replay, append(rb, '\n'), 0o644); err != nil {
			return "", err
		}
	} else {
		os.Remove(replay)
	}
	return replay, nil
}

func distinctKeys(rs []*RuleResult) int {
	m := map[string]bool{}
	for _, r := range rs {
		for _, o := range r.Obligations {
			m[o.Key] = true
		}
	}
	return len(m)
}

// Print writes the verdict lines and returns the exit code
// (0 held, 1 violation, 2 checker error).
func (out *Outcome) Print(property, replay string) int {
	sort.SliceStable(out.Known, func(i, j int) bool { return out.Known[i].Key < out.Known[j].Key })
	for _, o := range out.Known {
		fmt.Printf("KNOWN-FINDING: property=%s %s at %s (%s) — %s\n", property, o.Key, o.Pos, o.Func, out.KnownWhat[o.Key])
	}
	for _, o := range out.Violations {
		fmt.Printf("  violation %s at %s in %s: %s — %s\n", o.Rule, o.Pos, o.Func, o.What, o.Detail)
	}
	for _, o := range out.Undecided {
		fmt.Printf("  undecided %s at %s in %s: %s — %s\n", o.Rule, o.Pos, o.Func, o.What, o.Detail)
	}
	for _, e := range out.Errors {
		fmt.Printf("CHECKER-ERROR: %s\n", e)
	}
	if len(out.Violations) > 0 {
		fmt.Printf("VIOLATION property=%s replay=%s\n", property, replay)
		return 1
	}
	if len(out.Errors) > 0 || len(out.Undecided) > 0 {
		if len(out.Undecided) > 0 {
			fmt.Printf("CHECKER-ERROR: %d undecided obligation(s), see %s\n", len(out.Undecided), replay)
		}
		return 2
	}
	return 0
}
