package rules

import (
	"strings"

	"golang.org/x/tools/go/ssa"

	"verif/checker/internal/load"
	"verif/checker/internal/ssau"
)

// Helper predicates: a module function with one bool result whose body only
// compares its parameters with constants (isIonYear(y) = y >= 1 && y <= 9999).
// predicateFacts(f) lists the facts about the parameters that hold whenever
// the result is true; InstallPredicates makes the branch-fact machinery apply
// them, with parameter paths replaced by argument paths, at every
// `if pred(args)` in the analysed program.

var predCache = map[*ssa.Function][]ssau.Fact{}
var predBusy = map[*ssa.Function]bool{}

func predicateFacts(p *load.Program, f *ssa.Function) []ssau.Fact {
	if fs, ok := predCache[f]; ok {
		return fs
	}
	if predBusy[f] || !p.InModule(f) || len(f.Blocks) == 0 || len(f.Blocks) > 12 {
		return nil
	}
	res := f.Signature.Results()
	if res.Len() != 1 || basicKind(res.At(0).Type()) != 1 /* types.Bool */ {
		return nil
	}
	predBusy[f] = true
	defer delete(predBusy, f)
	ff := ssau.ComputeFacts(f, ssau.StoreKills)
	var implied func(v ssa.Value, at ssa.Instruction, depth int) map[ssau.Fact]bool
	implied = func(v ssa.Value, at ssa.Instruction, depth int) map[ssau.Fact]bool {
		out := map[ssau.Fact]bool{}
		if depth > 4 {
			return out
		}
		switch x := v.(type) {
		case *ssa.Const:
			if x.Value != nil && x.Value.ExactString() == "false" {
				return nil // this way the result is never true
			}
		case *ssa.Phi:
			var acc map[ssau.Fact]bool
			for i, e := range x.Edges {
				ev := implied(e, nil, depth+1)
				if ev == nil {
					continue
				}
				for f := range ff.OnPhiEdge(x, i) {
					ev[f] = true
				}
				if acc == nil {
					acc = ev
				} else {
					for f := range acc {
						if !ev[f] {
							delete(acc, f)
						}
					}
				}
			}
			return acc
		default:
			for _, f := range ssau.CondFacts(v, true) {
				out[f] = true
			}
		}
		return out
	}
	var acc map[ssau.Fact]bool
	for _, ret := range returns(f) {
		ev := implied(ret.Results[0], ret, 0)
		if ev == nil {
			continue
		}
		for f := range ff.At(ret) {
			ev[f] = true
		}
		if acc == nil {
			acc = ev
		} else {
			for f := range acc {
				if !ev[f] {
					delete(acc, f)
				}
			}
		}
	}
	var out []ssau.Fact
	for f := range acc {
		// keep facts about parameters compared with constants
		if strings.HasPrefix(f.Path, "p.") && strings.HasPrefix(f.Arg, "k:") && !strings.ContainsAny(f.Path[2:], ".^[(") {
			out = append(out, f)
		}
	}
	predCache[f] = out
	return out
}

// InstallPredicates wires helper predicates into ssau.CondFacts.
func InstallPredicates(p *load.Program) {
	ssau.PredicateHook = func(c *ssa.Call, branch bool) []ssau.Fact {
		if !branch {
			return nil
		}
		f := c.Call.StaticCallee()
		if f == nil {
			return nil
		}
		pf := predicateFacts(p, f)
		if len(pf) == 0 {
			return nil
		}
		var out []ssau.Fact
		for _, fact := range pf {
			for i, prm := range f.Params {
				if fact.Path == "p."+prm.Name() && i < len(c.Call.Args) {
					out = append(out, ssau.Fact{Kind: fact.Kind, Path: ssau.Path(c.Call.Args[i]), Arg: fact.Arg})
				}
			}
		}
		return out
	}
}
