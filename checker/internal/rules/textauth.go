package rules

import (
	"go/token"
	"go/types"
	"sort"
	"strings"

	"golang.org/x/tools/go/ssa"

	"verif/checker/internal/load"
	"verif/checker/internal/report"
	"verif/checker/internal/ssau"
)

// interpretingParams computes, for the module's functions, which string
// parameters are interpreted as a '$n' symbol-ID reference: the parameter
// reaches symbolIdentifier's argument in a call whose ID result is used, or an
// interpreting parameter of another function (fixed point over the call graph).
func interpretingParams(p *load.Program) map[*ssa.Function]map[int]bool {
	symID := p.Func(nil, "symbolIdentifier")
	out := map[*ssa.Function]map[int]bool{}
	if symID == nil {
		return out
	}
	out[symID] = map[int]bool{0: true}
	// flowsFromParam: value derives from parameter i by identity-like steps
	var paramOf func(v ssa.Value, depth int) *ssa.Parameter
	paramOf = func(v ssa.Value, depth int) *ssa.Parameter {
		if depth > 6 {
			return nil
		}
		switch x := v.(type) {
		case *ssa.Parameter:
			return x
		case *ssa.ChangeType:
			return paramOf(x.X, depth+1)
		case *ssa.MakeInterface:
			return paramOf(x.X, depth+1)
		case *ssa.TypeAssert:
			return paramOf(x.X, depth+1)
		case *ssa.UnOp:
			if x.Op == token.MUL {
				// load of a spilled parameter
				if a, ok := x.X.(*ssa.Alloc); ok {
					for _, u := range *a.Referrers() {
						if st, ok := u.(*ssa.Store); ok && st.Addr == a {
							return paramOf(st.Val, depth+1)
						}
					}
				}
			}
		}
		return nil
	}
	for changed := true; changed; {
		changed = false
		for _, fn := range p.Funcs {
			if !p.InModule(fn) {
				continue
			}
			for _, b := range fn.Blocks {
				for _, in := range b.Instrs {
					c, ok := in.(ssa.CallInstruction)
					if !ok {
						continue
					}
					for _, callee := range p.Callees(c) {
						ips := out[callee]
						if len(ips) == 0 {
							continue
						}
						if callee == symID {
							if call, ok := in.(*ssa.Call); !ok || !idUsed(call) {
								continue
							}
						}
						args := c.Common().Args
						off := 0
						if c.Common().IsInvoke() {
							off = 1 // callee params include the receiver, invoke args do not
						}
						for pi := range ips {
							ai := pi - off
							if ai < 0 || ai >= len(args) {
								continue
							}
							if prm := paramOf(args[ai], 0); prm != nil {
								idx := -1
								for i, q := range fn.Params {
									if q == prm {
										idx = i
									}
								}
								if idx >= 0 {
									if out[fn] == nil {
										out[fn] = map[int]bool{}
									}
									if !out[fn][idx] {
										out[fn][idx] = true
										changed = true
									}
								}
							}
						}
					}
				}
			}
		}
	}
	return out
}

// idUsed: the first result of a (symbolIdentifier) call is consumed by
// something other than the blank identifier.
func idUsed(c *ssa.Call) bool {
	for _, u := range *c.Referrers() {
		if ex, ok := u.(*ssa.Extract); ok && ex.Index == 0 && len(*ex.Referrers()) > 0 {
			return true
		}
	}
	return false
}

// isTokenText: v is (a copy of) the string a SymbolToken's Text field points to.
func isTokenText(v ssa.Value, depth int) bool {
	if depth > 6 {
		return false
	}
	switch x := v.(type) {
	case *ssa.UnOp:
		if x.Op != token.MUL {
			return false
		}
		// *tok.Text : load through a value loaded from field Text of a SymbolToken
		if ld, ok := x.X.(*ssa.UnOp); ok && ld.Op == token.MUL {
			if tn, fl, ok := ssau.FieldOf(ld.X); ok && fl == "Text" && strings.HasSuffix(tn, "SymbolToken") {
				return true
			}
		}
		if f, ok := x.X.(*ssa.Field); ok {
			if st, ok := ssau.Deref(f.X.Type()).Underlying().(*types.Struct); ok && st.Field(f.Field).Name() == "Text" && ssau.TypeName(f.X.Type()) == "SymbolToken" {
				return true
			}
		}
		// load of a local that was assigned token text
		if a, ok := x.X.(*ssa.Alloc); ok {
			for _, u := range *a.Referrers() {
				if st, ok := u.(*ssa.Store); ok && st.Addr == a && isTokenText(st.Val, depth+1) {
					return true
				}
			}
		}
	case *ssa.Call:
		// a string taken out of a caller's Go value by reflection is data too
		if f := x.Call.StaticCallee(); f != nil && f.Pkg != nil && f.Pkg.Pkg.Path() == "reflect" && f.Name() == "String" && f.Signature.Recv() != nil && ssau.TypeName(f.Signature.Recv().Type()) == "Value" {
			return true
		}
	case *ssa.Phi:
		for _, e := range x.Edges {
			if isTokenText(e, depth+1) {
				return true
			}
		}
	case *ssa.ChangeType:
		return isTokenText(x.X, depth+1)
	case *ssa.MakeInterface:
		return isTokenText(x.X, depth+1)
	}
	return false
}

// OwnTextAuth implements OWN-TEXTAUTH: a symbol token's text is authoritative.
func OwnTextAuth(p *load.Program) *report.RuleResult {
	r := newResult("OWN-TEXTAUTH", "a symbol token's text is authoritative: (i) text taken from a SymbolToken, or a string taken out of a caller's Go value by reflection, is never handed to a parameter that is interpreted as a '$n' symbol-ID reference; (ii) in the binary writer a token's LocalSID is turned into the ID to write only where its Text is known to be nil; (iii) the text reader applies the '$n' interpretation only to unquoted identifier tokens", 8)
	ips := interpretingParams(p)
	var names []string
	for f, m := range ips {
		for i := range m {
			names = append(names, sprintf("%s#%d", p.FuncName(f), i))
		}
	}
	sort.Strings(names)
	r.Infof("parameters interpreted as $n references: %s", strings.Join(names, ", "))
	if len(names) < 3 {
		missing(r, "symbolIdentifier and its callers", sprintf("only %d interpreting parameters found", len(names)))
	}
	// (i) every call in the module that passes token text
	nText := 0
	for _, fn := range sortedFuncs(p) {
		if p.InTest(fn) || !p.InModule(fn) {
			continue
		}
		for _, b := range fn.Blocks {
			for _, in := range b.Instrs {
				c, ok := in.(ssa.CallInstruction)
				if !ok {
					continue
				}
				args := c.Common().Args
				for ai, a := range args {
					if !isTokenText(a, 0) {
						continue
					}
					nText++
					var bad []string
					for _, callee := range p.Callees(c) {
						pi := ai
						if c.Common().IsInvoke() {
							pi = ai + 1
						}
						if callee.Name() == "symbolIdentifier" {
							if call, ok := in.(*ssa.Call); ok && !idUsed(call) {
								continue // only asks whether the text has the $n shape (to quote it)
							}
						}
						if ips[callee][pi] {
							bad = append(bad, p.FuncName(callee))
						}
					}
					what := sprintf("symbol text passed to %s (argument %d)", calleeNames(p, c), ai)
					if len(bad) == 0 {
						r.OK(p.FuncName(fn), instrPos(p, in), what, "the callee does not interpret this parameter as a $n reference")
					} else {
						sort.Strings(bad)
						r.Bad(p.FuncName(fn), instrPos(p, in), what, "the text of a symbol token is handed to "+strings.Join(bad, ", ")+", which reads text of the form $n as symbol ID n: a symbol whose text is '$5' is written as another symbol")
					}
				}
			}
		}
	}
	if nText < 3 {
		missing(r, "uses of SymbolToken text as a call argument", sprintf("found %d", nText))
	}
	// (ii) binary writer: LocalSID -> ID only under Text == nil
	nSid := 0
	for _, fn := range sortedFuncs(p) {
		if p.InTest(fn) || !p.InModule(fn) || !strings.HasSuffix(p.File(fn.Pos()), "binarywriter.go") {
			continue
		}
		var ff *ssau.FactFlow
		for _, b := range fn.Blocks {
			for _, in := range b.Instrs {
				cv, ok := in.(*ssa.Convert)
				if !ok || basicKind(cv.Type()) != types.Uint64 {
					continue
				}
				pa := ssau.Path(cv.X)
				if !strings.HasSuffix(pa, ".LocalSID") {
					continue
				}
				nSid++
				if ff == nil {
					ff = ssau.ComputeFacts(fn, ssau.StoreKills)
				}
				base := strings.TrimSuffix(pa, ".LocalSID")
				what := "LocalSID of " + cleanPath(base) + " used as the ID to write"
				if ff.At(cv).Has("nil", base+".Text", "") {
					r.OK(p.FuncName(fn), instrPos(p, cv), what, "only where the token's Text is nil")
				} else {
					r.Bad(p.FuncName(fn), instrPos(p, cv), what, "the token's source symbol ID is written although its text may be known: the ID belongs to the table of the stream the token was read from, not to this writer's table")
				}
			}
		}
	}
	if nSid < 1 {
		missing(r, "LocalSID-to-ID conversion in the binary writer", "none found")
	}
	// (iii) text reader: newSymbolToken only for identifier tokens
	nst := p.Func(nil, "newSymbolToken")
	if nst == nil {
		missing(r, "newSymbolToken", "not found")
		return r
	}
	tokNames, tokVals := namedConstsOf(p, "token")
	allowed := map[string]bool{}
	for _, n := range []string{"tokenSymbol", "tokenSymbolOperator", "tokenDot"} {
		if v, ok := tokVals[n]; ok {
			allowed[sprintf("%d", v)] = true
		}
	}
	nCalls := 0
	for _, fn := range sortedFuncs(p) {
		if p.InTest(fn) || !p.InModule(fn) || fn == nst {
			continue
		}
		var ef *ssau.EnumFlow
		for _, b := range fn.Blocks {
			for _, in := range b.Instrs {
				c, ok := in.(*ssa.Call)
				if !ok || c.Call.StaticCallee() != nst {
					continue
				}
				nCalls++
				if ef == nil {
					path, n := dispatchValue(fn, constOfType("token"))
					if n == 0 {
						r.Bad(p.FuncName(fn), instrPos(p, c), "newSymbolToken call", "the $n interpretation is applied where no token kind has been established")
						continue
					}
					ef = ssau.TrackEnumFrom(fn, matchPath(path), enumOnEntry(p, fn, path, 2))
				}
				vs, _ := ef.At(c)
				what := "newSymbolToken call"
				if !vs.Known() {
					r.Bad(p.FuncName(fn), instrPos(p, c), what, "the $n interpretation is applied without restricting the token kind (excluded only: "+strings.Join(vs.Excluded(), ",")+"): quoted symbols and strings would be read as symbol IDs")
					continue
				}
				var badKinds []string
				for _, k := range vs.Values() {
					if !allowed[k] {
						n, _ := atoi64(k)
						badKinds = append(badKinds, tokNames[n])
					}
				}
				if len(badKinds) == 0 {
					r.OK(p.FuncName(fn), instrPos(p, c), what, "token kinds here: unquoted identifier/operator only")
				} else {
					r.Bad(p.FuncName(fn), instrPos(p, c), what, "the $n interpretation is applied to token kinds "+strings.Join(badKinds, ", ")+": only an unquoted identifier denotes a symbol ID")
				}
			}
		}
	}
	if nCalls < 3 {
		missing(r, "newSymbolToken calls in the text reader", sprintf("found %d, expected 3", nCalls))
	}
	return r
}

// enumOnEntry: what the module's callers of fn establish for the parameter with the given path
// ("p.<name>") before calling: the join, over every static call site, of the constants the argument
// may equal there. Unconstrained when the path is no parameter, when there is no caller, or beyond depth.
func enumOnEntry(p *load.Program, fn *ssa.Function, path string, depth int) ssau.ValueSet {
	top := ssau.ValueSet{NotIn: map[string]bool{}}
	idx := -1
	for i, pa := range fn.Params {
		if ssau.Path(pa) == path {
			idx = i
		}
	}
	if idx < 0 || depth == 0 || (fn.Object() != nil && fn.Object().Exported()) {
		return top
	}
	var out *ssau.ValueSet
	for _, g := range sortedFuncs(p) {
		if p.InTest(g) || !p.InModule(g) {
			continue
		}
		var efs = map[string]*ssau.EnumFlow{}
		for _, b := range g.Blocks {
			for _, in := range b.Instrs {
				c, ok := in.(ssa.CallInstruction)
				if !ok {
					continue
				}
				if c.Common().StaticCallee() != fn {
					// the function used as a value somewhere: callers unknown
					for _, a := range c.Common().Args {
						if a == ssa.Value(fn) {
							return top
						}
					}
					continue
				}
				if idx >= len(c.Common().Args) {
					return top
				}
				a := c.Common().Args[idx]
				var vs ssau.ValueSet
				if k, ok := a.(*ssa.Const); ok && k.Value != nil {
					vs = ssau.ValueSet{In: map[string]bool{k.Value.ExactString(): true}, NotIn: map[string]bool{}}
				} else {
					ap := ssau.Path(a)
					ef := efs[ap]
					if ef == nil {
						ef = ssau.TrackEnumFrom(g, matchPath(ap), enumOnEntry(p, g, ap, depth-1))
						efs[ap] = ef
					}
					vs, _ = ef.At(c)
					if vs.NotIn == nil {
						vs.NotIn = map[string]bool{}
					}
				}
				if out == nil {
					out = &vs
				} else {
					j := ssau.JoinSets(*out, vs)
					out = &j
				}
			}
		}
	}
	if out == nil {
		return top
	}
	return *out
}
