package rules

import (
	"go/constant"
	"go/token"
	"go/types"
	"sort"
	"strconv"

	"golang.org/x/tools/go/ssa"

	"verif/checker/internal/load"
	"verif/checker/internal/ssau"
)

// namedConstsOf returns the package-level constants of ion whose type is the
// named type tn: value -> name, name -> value.
func namedConstsOf(p *load.Program, tn string) (map[int64]string, map[string]int64) {
	byVal := map[int64]string{}
	byName := map[string]int64{}
	for name, m := range p.Ion.Members {
		c, ok := m.(*ssa.NamedConst)
		if !ok || ssau.TypeName(c.Type()) != tn {
			continue
		}
		if v, ok := ssau.ConstInt(c.Value); ok {
			byName[name] = v
			if old, dup := byVal[v]; !dup || name < old {
				byVal[v] = name
			}
		}
	}
	return byVal, byName
}

// dispatchValue finds the SSA value (by canonical path) that fn compares with
// the largest number of distinct constants accepted by want.
func dispatchValue(fn *ssa.Function, want func(c *ssa.Const) bool) (string, int) {
	count := map[string]map[string]bool{}
	for _, b := range fn.Blocks {
		for _, in := range b.Instrs {
			bo, ok := in.(*ssa.BinOp)
			if !ok || (bo.Op != token.EQL && bo.Op != token.NEQ) {
				continue
			}
			var v ssa.Value
			var c *ssa.Const
			if k, ok := bo.Y.(*ssa.Const); ok {
				v, c = bo.X, k
			} else if k, ok := bo.X.(*ssa.Const); ok {
				v, c = bo.Y, k
			}
			if c == nil || c.Value == nil || !want(c) {
				continue
			}
			pa := ssau.Path(v)
			if count[pa] == nil {
				count[pa] = map[string]bool{}
			}
			count[pa][c.Value.ExactString()] = true
		}
	}
	best, n := "", 0
	var keys []string
	for k := range count {
		keys = append(keys, k)
	}
	sort.Strings(keys)
	for _, k := range keys {
		if len(count[k]) > n {
			best, n = k, len(count[k])
		}
	}
	return best, n
}

func matchPath(path string) func(ssa.Value) bool {
	return func(v ssa.Value) bool { return ssau.Path(v) == path }
}

func isStringConst(c *ssa.Const) bool { return c.Value != nil && c.Value.Kind() == constant.String }
func isIntConst(c *ssa.Const) bool    { return c.Value != nil && c.Value.Kind() == constant.Int }
func constOfType(tn string) func(c *ssa.Const) bool {
	return func(c *ssa.Const) bool { return isIntConst(c) && ssau.TypeName(c.Type()) == tn }
}

// unquoteExact turns constant.ExactString of a string constant back into the string.
func unquoteExact(s string) string {
	if u, err := strconv.Unquote(s); err == nil {
		return u
	}
	return s
}

func atoi64(s string) (int64, bool) {
	v, err := strconv.ParseInt(s, 10, 64)
	return v, err == nil
}

// globalTable extracts index -> stored value of a package-level slice
// variable initialised by a composite literal or by a closure that fills a
// make()d slice with constant indices.
func globalTable(p *load.Program, name string) (map[int64]ssa.Value, bool) {
	g, ok := p.Ion.Members[name].(*ssa.Global)
	if !ok {
		return nil, false
	}
	init := p.Ion.Members["init"].(*ssa.Function)
	var stored ssa.Value
	for _, b := range init.Blocks {
		for _, in := range b.Instrs {
			if st, ok := in.(*ssa.Store); ok && st.Addr == g {
				stored = st.Val
			}
		}
	}
	if stored == nil {
		return nil, false
	}
	bases := resolveSliceBases(stored, 0)
	if len(bases) == 0 {
		return nil, false
	}
	out := map[int64]ssa.Value{}
	for _, base := range bases {
		refs := base.Referrers()
		if refs == nil {
			continue
		}
		for _, r := range *refs {
			ia, ok := r.(*ssa.IndexAddr)
			if !ok || ia.X != base {
				continue
			}
			idx, ok := ssau.ConstInt(ia.Index)
			if !ok {
				continue
			}
			for _, r2 := range *ia.Referrers() {
				if st, ok := r2.(*ssa.Store); ok && st.Addr == ia {
					out[idx] = st.Val
				}
			}
		}
	}
	return out, len(out) > 0
}

// resolveSliceBases returns the values through which the table's elements may
// be addressed: the slice value(s) and the backing array allocation.
func resolveSliceBases(v ssa.Value, depth int) []ssa.Value {
	if depth > 4 {
		return nil
	}
	switch x := v.(type) {
	case *ssa.Slice:
		return append([]ssa.Value{x}, resolveSliceBases(x.X, depth+1)...)
	case *ssa.Alloc:
		return []ssa.Value{x}
	case *ssa.MakeSlice:
		return []ssa.Value{x}
	case *ssa.Call:
		var f *ssa.Function
		switch c := x.Common().Value.(type) {
		case *ssa.Function:
			f = c
		case *ssa.MakeClosure:
			f, _ = c.Fn.(*ssa.Function)
		}
		if f == nil {
			return nil
		}
		for _, ret := range returns(f) {
			if len(ret.Results) == 1 {
				return resolveSliceBases(ret.Results[0], depth+1)
			}
		}
	}
	return nil
}

func resolveSliceBase(v ssa.Value, depth int) ssa.Value {
	if depth > 4 {
		return nil
	}
	switch x := v.(type) {
	case *ssa.Slice:
		return resolveSliceBase(x.X, depth+1)
	case *ssa.Alloc:
		return x
	case *ssa.MakeSlice:
		return x
	case *ssa.Call:
		var f *ssa.Function
		switch c := x.Common().Value.(type) {
		case *ssa.Function:
			f = c
		case *ssa.MakeClosure:
			f, _ = c.Fn.(*ssa.Function)
		}
		if f == nil {
			return nil
		}
		for _, ret := range returns(f) {
			if len(ret.Results) == 1 {
				return resolveSliceBase(ret.Results[0], depth+1)
			}
		}
	}
	return nil
}

// constsComparedIn lists the constants (ExactString) accepted by want that fn
// compares any value with (== / != / switch).
func constsComparedIn(fn *ssa.Function, want func(c *ssa.Const) bool) map[string]bool {
	out := map[string]bool{}
	for _, b := range fn.Blocks {
		for _, in := range b.Instrs {
			bo, ok := in.(*ssa.BinOp)
			if !ok || (bo.Op != token.EQL && bo.Op != token.NEQ) {
				continue
			}
			for _, o := range []ssa.Value{bo.X, bo.Y} {
				if c, ok := o.(*ssa.Const); ok && c.Value != nil && want(c) {
					out[c.Value.ExactString()] = true
				}
			}
		}
	}
	return out
}

// relationalConsts lists "op:const" (normalised to lt / gt / eq / ne with
// integer bounds) for comparisons of byte/int values with constants in fn.
func relationalConsts(fn *ssa.Function) map[string]bool {
	out := map[string]bool{}
	for _, b := range fn.Blocks {
		for _, in := range b.Instrs {
			bo, ok := in.(*ssa.BinOp)
			if !ok {
				continue
			}
			c, isY := bo.Y.(*ssa.Const)
			if !isY {
				continue
			}
			k, ok := ssau.ConstInt(c)
			if !ok {
				continue
			}
			switch bo.Op {
			case token.EQL:
				out["eq:"+strconv.FormatInt(k, 10)] = true
			case token.NEQ:
				out["ne:"+strconv.FormatInt(k, 10)] = true
			case token.LSS:
				out["lt:"+strconv.FormatInt(k, 10)] = true
			case token.LEQ:
				out["lt:"+strconv.FormatInt(k+1, 10)] = true
			case token.GTR:
				out["gt:"+strconv.FormatInt(k, 10)] = true
			case token.GEQ:
				out["gt:"+strconv.FormatInt(k-1, 10)] = true
			}
		}
	}
	return out
}

func sortedKeys(m map[string]bool) []string {
	var out []string
	for k := range m {
		out = append(out, k)
	}
	sort.Strings(out)
	return out
}

func basicKind(t types.Type) types.BasicKind {
	if b, ok := t.Underlying().(*types.Basic); ok {
		return b.Kind()
	}
	return types.Invalid
}
