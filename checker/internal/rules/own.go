package rules

import (
	"go/types"
	"sort"
	"strings"

	"golang.org/x/tools/go/ssa"

	"verif/checker/internal/effects"
	"verif/checker/internal/load"
	"verif/checker/internal/report"
	"verif/checker/internal/ssau"
)

// sharedTypes are the types whose values are shared between readers, writers
// and goroutines after construction.
var sharedTypes = map[string]bool{"sst": true, "bogusSST": true, "basicCatalog": true, "lst": true}

// writeTarget describes the struct field (class) a store / map update writes:
// either the field itself or an element of the slice/map held in it.
func writeTarget(in ssa.Instruction) (typ, field string, elem bool, base ssa.Value, ok bool) {
	switch x := in.(type) {
	case *ssa.Store:
		switch a := x.Addr.(type) {
		case *ssa.FieldAddr:
			t, f, _ := ssau.FieldOf(a)
			return t, f, false, a.X, t != ""
		case *ssa.IndexAddr:
			if t, f, b, ok := fieldLoad(a.X); ok {
				return t, f, true, b, true
			}
		}
	case *ssa.MapUpdate:
		if t, f, b, ok := fieldLoad(x.Map); ok {
			return t, f, true, b, true
		}
	}
	return "", "", false, nil, false
}

// fieldLoad: v is (a slice of) a load of struct field T.f; returns the struct base.
func fieldLoad(v ssa.Value) (string, string, ssa.Value, bool) {
	for i := 0; i < 4; i++ {
		switch x := v.(type) {
		case *ssa.UnOp:
			if fa, ok := x.X.(*ssa.FieldAddr); ok {
				t, f, _ := ssau.FieldOf(fa)
				return t, f, fa.X, t != ""
			}
			return "", "", nil, false
		case *ssa.Field:
			t, f, _ := ssau.FieldOf(x)
			return t, f, x.X, t != ""
		case *ssa.Slice:
			v = x.X
		default:
			return "", "", nil, false
		}
	}
	return "", "", nil, false
}

func onlyLocalRoots(v ssa.Value) bool {
	rs := effects.RootsOf(v)
	if len(rs) == 0 {
		return false
	}
	for r := range rs {
		if r.Kind != effects.RLocal {
			return false
		}
	}
	return true
}

// rootedAtParamOfType: the address is reached from a parameter whose named type is tn.
func rootedAtParamOfType(fn *ssa.Function, v ssa.Value, tn string) bool {
	rs := effects.RootsOf(v)
	if len(rs) == 0 {
		return false
	}
	for r := range rs {
		if r.Kind != effects.RParam || ssau.TypeName(fn.Params[r.Index].Type()) != tn {
			return false
		}
	}
	return true
}

// OwnImmut implements OWN-IMMUT.
func OwnImmut(tests bool) func(p *load.Program) *report.RuleResult {
	return func(p *load.Program) *report.RuleResult {
		r := newResult("OWN-IMMUT", "shared tables and the catalog (sst, bogusSST, basicCatalog, lst) are written only while being constructed: on an object allocated in the same function, in basicCatalog.add called on NewCatalog's fresh object, or through the writer-private *symbolTableBuilder", 20)
		eff := effects.Of(p)
		for _, fn := range p.Funcs {
			if fn.Pkg != p.Ion && (fn.Parent() == nil || fn.Parent().Pkg != p.Ion) {
				// other packages cannot name the unexported fields, but can mutate returned slices: OWN-ESCAPE
				if fn.Pkg == nil {
					continue
				}
			}
			if !tests && p.InTest(fn) {
				continue
			}
			name := p.FuncName(fn)
			for _, b := range fn.Blocks {
				for _, in := range b.Instrs {
					typ, field, elem, base, ok := writeTarget(in)
					if ok && sharedTypes[typ] {
						what := "write to " + typ + "." + field
						if elem {
							what += "[…]"
						}
						key := name + "|" + what
						switch {
						case onlyLocalRoots(base):
							r.Add(report.Obligation{Key: key, Func: name, Pos: instrPos(p, in), What: what, Status: report.Discharged, By: "object allocated in this function (construction)"})
						case typ == "basicCatalog" && fn.Name() == "add" && catalogAddOnlyFromFresh(p, fn):
							r.Add(report.Obligation{Key: key, Func: name, Pos: instrPos(p, in), What: what, Status: report.Discharged, By: "basicCatalog.add, every call site passes an object allocated in the caller (NewCatalog)"})
						case typ == "lst" && rootedAtParamOfType(fn, base, "symbolTableBuilder") && recvTypeName(fn) == "symbolTableBuilder":
							r.Add(report.Obligation{Key: key, Func: name, Pos: instrPos(p, in), What: what, Status: report.Discharged, By: "through the writer-private *symbolTableBuilder (never shared)"})
						default:
							r.Add(report.Obligation{Key: key, Func: name, Pos: instrPos(p, in), What: what, Status: report.Violation,
								Detail: "a " + typ + " that may already be shared is written after construction (no lock or once idiom is accepted here); concurrent readers of the table would race"})
						}
						continue
					}
					// calls that mutate a slice/map loaded from a shared field (sort, copy into, append in place …)
					ci, isCall := in.(ssa.CallInstruction)
					if !isCall {
						continue
					}
					cc := ci.Common()
					args := cc.Args
					if cc.IsInvoke() {
						args = append([]ssa.Value{cc.Value}, args...)
					}
					var sum *effects.Summary
					for ai, a := range args {
						t, f, base, ok := fieldLoad(a)
						if !ok || !sharedTypes[t] {
							continue
						}
						switch a.Type().Underlying().(type) {
						case *types.Slice, *types.Map:
						default:
							continue
						}
						if _, isB := cc.Value.(*ssa.Builtin); isB {
							if b := cc.Value.(*ssa.Builtin); (b.Name() == "copy" && ai == 0) || b.Name() == "delete" {
								if !onlyLocalRoots(base) {
									r.Add(report.Obligation{Key: name + "|" + b.Name() + " into " + t + "." + f, Func: name, Pos: instrPos(p, in), What: b.Name() + " into " + t + "." + f, Status: report.Violation, Detail: "in-place write to storage of a shared table"})
								}
							}
							continue
						}
						if sum == nil {
							sum = calleeParamMutation(p, eff, ci)
						}
						if sum.MutParams[ai] && !onlyLocalRoots(base) && !(t == "lst" && rootedAtParamOfType(fn, base, "symbolTableBuilder")) {
							r.Add(report.Obligation{Key: name + "|passes " + t + "." + f + " to mutating callee", Func: name, Pos: instrPos(p, in), What: "passes " + t + "." + f + " to " + calleeNames(p, ci), Status: report.Violation,
								Detail: "the callee may write through this argument, which aliases storage of a shared table"})
						}
					}
				}
			}
		}
		return r
	}
}

// calleeParamMutation merges, per parameter index of the callee, whether any
// possible callee mutates it.
func calleeParamMutation(p *load.Program, eff *effects.Info, ci ssa.CallInstruction) *effects.Summary {
	out := &effects.Summary{MutParams: map[int]bool{}}
	for _, cf := range p.Callees(ci) {
		if s := eff.Sum[cf]; s != nil {
			for k := range s.MutParams {
				out.MutParams[k] = true
			}
			continue
		}
		// external: sort.* and friends mutate their first argument
		if cf.Pkg != nil && cf.Pkg.Pkg.Path() == "sort" {
			out.MutParams[0] = true
		}
	}
	return out
}

func catalogAddOnlyFromFresh(p *load.Program, add *ssa.Function) bool {
	n := 0
	for _, fn := range p.Funcs {
		for _, b := range fn.Blocks {
			for _, in := range b.Instrs {
				ci, ok := in.(ssa.CallInstruction)
				if !ok || load.Unwrap(ci.Common().StaticCallee()) != add {
					continue
				}
				n++
				if !onlyLocalRoots(ci.Common().Args[0]) {
					return false
				}
			}
		}
	}
	return n > 0 && !isAddressTaken(add)
}

func isAddressTaken(fn *ssa.Function) bool {
	refs := fn.Referrers()
	if refs == nil {
		return false
	}
	for _, r := range *refs {
		ci, ok := r.(ssa.CallInstruction)
		if !ok || ci.Common().Value != fn {
			return true
		}
	}
	return false
}

// isInitFunc: package initialiser or a closure created and called inside it.
func isInitFunc(fn *ssa.Function) bool {
	for f := fn; f != nil; f = f.Parent() {
		if f.Name() == "init" || strings.HasPrefix(f.Name(), "init#") || strings.HasPrefix(f.Name(), "init$") {
			return true
		}
	}
	return false
}

// OwnGlobal implements OWN-GLOBAL.
func OwnGlobal(tests bool) func(p *load.Program) *report.RuleResult {
	return func(p *load.Program) *report.RuleResult {
		r := newResult("OWN-GLOBAL", "package-level variables (lookup tables, system symbol table, reflect types, sentinel errors) and everything reachable from them are written only during package initialisation", 12)
		type gv struct {
			name   string
			writes []string
		}
		globals := map[string]*gv{}
		for _, sp := range []*ssa.Package{p.Ion, p.Cmd, p.Int} {
			if sp == nil {
				continue
			}
			for _, m := range sp.Members {
				if g, ok := m.(*ssa.Global); ok {
					if strings.HasPrefix(g.Name(), "init$") {
						continue
					}
					if !tests && p.IsTestFile(g.Pos()) {
						continue
					}
					globals[sp.Pkg.Name()+"."+g.Name()] = &gv{name: sp.Pkg.Name() + "." + g.Name()}
				}
			}
		}
		eff := effects.Of(p)
		for _, fn := range p.Funcs {
			if isInitFunc(fn) || (!tests && p.InTest(fn)) {
				continue
			}
			name := p.FuncName(fn)
			for _, b := range fn.Blocks {
				for _, in := range b.Instrs {
					var target ssa.Value
					switch x := in.(type) {
					case *ssa.Store:
						target = x.Addr
					case *ssa.MapUpdate:
						target = x.Map
					case ssa.CallInstruction:
						if _, isB := x.Common().Value.(*ssa.Builtin); isB {
							continue
						}
						// own-body effect only: an argument rooted at a global passed to a mutating callee
						cc := x.Common()
						args := cc.Args
						if cc.IsInvoke() {
							args = append([]ssa.Value{cc.Value}, args...)
						}
						pm := calleeParamMutation(p, eff, x)
						for ai, a := range args {
							if !pm.MutParams[ai] {
								continue
							}
							for rt := range effects.RootsOf(a) {
								if rt.Kind == effects.RGlobal {
									gname := globalName(p, fn, rt.Name)
									if gname == "" {
										continue
									}
									r.Add(report.Obligation{Key: name + "|mutating call on " + gname, Func: name, Pos: instrPos(p, in), What: "passes " + gname + " to mutating " + calleeNames(p, x), Status: report.Violation,
										Detail: "storage reachable from a package-level variable may be written outside package initialisation"})
								}
							}
						}
						continue
					}
					if target == nil {
						continue
					}
					for rt := range effects.RootsOf(target) {
						if rt.Kind != effects.RGlobal {
							continue
						}
						gname := globalName(p, fn, rt.Name)
						if gname == "" {
							continue
						}
						if g := globals[gname]; g != nil {
							g.writes = append(g.writes, name)
						}
						r.Add(report.Obligation{Key: name + "|write to " + gname, Func: name, Pos: instrPos(p, in), What: "write to package-level " + gname, Status: report.Violation,
							Detail: "a package-level variable (or storage reachable from it) is written outside package initialisation; concurrent users would race"})
					}
				}
			}
		}
		var names []string
		for n := range globals {
			names = append(names, n)
		}
		sort.Strings(names)
		for _, n := range names {
			g := globals[n]
			if len(g.writes) == 0 {
				r.Add(report.Obligation{Key: "global|" + n, Func: "package init", Pos: "-", What: "package-level variable " + n, Status: report.Discharged, By: "written only during package initialisation"})
			}
		}
		return r
	}
}

func globalName(p *load.Program, fn *ssa.Function, g string) string {
	// g is "<pkgpath>.<name>"; module packages are shortened to their package name
	for _, sp := range []*ssa.Package{p.Ion, p.Cmd, p.Int} {
		if sp == nil {
			continue
		}
		if strings.HasPrefix(g, sp.Pkg.Path()+".") {
			return sp.Pkg.Name() + "." + g[len(sp.Pkg.Path())+1:]
		}
	}
	return "" // not a module global (os.Stdout, os.Args, …): outside this rule
}

// OwnEscape implements OWN-ESCAPE.
func OwnEscape(p *load.Program) *report.RuleResult {
	r := newResult("OWN-ESCAPE", "no method of a shared type hands out an alias of its internal slice or map (getters copy)", 4)
	for _, fn := range p.Funcs {
		tn := recvTypeName(fn)
		if !sharedTypes[tn] || p.InTest(fn) || fn.Object() == nil || !fn.Object().Exported() {
			continue
		}
		name := p.FuncName(fn)
		rs := fn.Signature.Results()
		for ri := 0; ri < rs.Len(); ri++ {
			switch rs.At(ri).Type().Underlying().(type) {
			case *types.Slice, *types.Map:
			default:
				continue
			}
			for _, ret := range returns(fn) {
				v := ret.Results[ri]
				what := "result " + rs.At(ri).Type().String()
				key := name + "|" + what
				if t, f, _, ok := fieldLoad(v); ok && sharedTypes[t] {
					r.Add(report.Obligation{Key: key, Func: name, Pos: instrPos(p, ret), What: what, Status: report.Violation,
						Detail: "returns the internal " + t + "." + f + " itself; a caller writing to it would mutate a shared table"})
					continue
				}
				if aliasOfReceiverField(v, 0) {
					r.Add(report.Obligation{Key: key, Func: name, Pos: instrPos(p, ret), What: what, Status: report.Violation, Detail: "may return an alias of an internal field (through a phi / slice expression)"})
					continue
				}
				r.Add(report.Obligation{Key: key, Func: name, Pos: instrPos(p, ret), What: what, Status: report.Discharged, By: "fresh copy / nil"})
			}
		}
	}
	return r
}

func aliasOfReceiverField(v ssa.Value, depth int) bool {
	if depth > 5 {
		return false
	}
	switch x := v.(type) {
	case *ssa.Phi:
		for _, e := range x.Edges {
			if aliasOfReceiverField(e, depth+1) {
				return true
			}
		}
	case *ssa.Slice:
		if _, _, _, ok := fieldLoad(x); ok {
			return true
		}
		return aliasOfReceiverField(x.X, depth+1)
	case *ssa.UnOp, *ssa.Field:
		if t, _, _, ok := fieldLoad(v); ok && sharedTypes[t] {
			return true
		}
	}
	return false
}

// outputRoots: functions that produce output bytes (R_out).
func outputRoots(p *load.Program) []*ssa.Function {
	var out []*ssa.Function
	seen := map[*ssa.Function]bool{}
	add := func(f *ssa.Function) {
		if f != nil && !seen[f] && len(f.Blocks) > 0 {
			seen[f] = true
			out = append(out, f)
		}
	}
	for _, T := range implementers(p, p.Ion, "Writer") {
		for _, m := range ifaceMethods(p, "Writer", false) {
			add(methodOf(p, T, m.Name()))
		}
	}
	for _, fn := range p.Funcs {
		if fn.Pkg != p.Ion || p.InTest(fn) || fn.Object() == nil || !fn.Object().Exported() {
			continue
		}
		if recvTypeName(fn) == "Encoder" || strings.HasPrefix(fn.Name(), "Marshal") || strings.HasPrefix(fn.Name(), "New") && strings.Contains(fn.Name(), "Writer") {
			add(fn)
		}
		if (recvTypeName(fn) == "Decimal" || recvTypeName(fn) == "Timestamp") && fn.Name() == "String" {
			add(fn)
		}
	}
	sort.Slice(out, func(i, j int) bool { return out[i].String() < out[j].String() })
	return out
}

// OwnNondet implements OWN-NONDET.
func OwnNondet(p *load.Program) *report.RuleResult {
	r := newResult("OWN-NONDET", "nothing reachable from the output API (Writer methods, Encoder, Marshal*) consults a schedule- or time-dependent source: no time.Now / rand, no go / select, every range over a map has an order-insensitive body", 40)
	eff := effects.Of(p)
	reach := map[*ssa.Function]bool{}
	roots := outputRoots(p)
	for _, f := range roots {
		reach[f] = true
		if s := eff.Sum[f]; s != nil {
			for c := range s.Calls {
				reach[c] = true
			}
		}
	}
	var fns []*ssa.Function
	for f := range reach {
		if p.InModule(f) && len(f.Blocks) > 0 && !p.InTest(f) {
			fns = append(fns, f)
		}
	}
	sort.Slice(fns, func(i, j int) bool { return fns[i].String() < fns[j].String() })
	r.Infof("output roots: %d, reachable module functions: %d", len(roots), len(fns))
	for _, fn := range fns {
		name := p.FuncName(fn)
		bad := 0
		for _, b := range fn.Blocks {
			for _, in := range b.Instrs {
				switch x := in.(type) {
				case *ssa.Go:
					bad++
					r.Add(report.Obligation{Key: name + "|go statement", Func: name, Pos: instrPos(p, in), What: "go statement", Status: report.Violation, Detail: "goroutine started on the output path (reachable from an output root)"})
				case *ssa.Select:
					bad++
					r.Add(report.Obligation{Key: name + "|select", Func: name, Pos: instrPos(p, in), What: "select statement", Status: report.Violation, Detail: "select on the output path"})
				case ssa.CallInstruction:
					sc := x.Common().StaticCallee()
					if sc == nil || sc.Pkg == nil || p.InModule(sc) {
						continue
					}
					pp := sc.Pkg.Pkg.Path()
					if (pp == "time" && (sc.Name() == "Now" || sc.Name() == "Since" || sc.Name() == "Until")) || pp == "math/rand" || pp == "crypto/rand" || pp == "math/rand/v2" ||
						(pp == "os" && (sc.Name() == "Getpid" || sc.Name() == "Getenv" || sc.Name() == "Hostname")) || (pp == "runtime" && sc.Name() != "KeepAlive") {
						bad++
						r.Add(report.Obligation{Key: name + "|call " + pp + "." + sc.Name(), Func: name, Pos: instrPos(p, in), What: "call " + pp + "." + sc.Name(), Status: report.Violation, Detail: "environment / time / random source on the output path: the same call sequence would not always yield the same bytes"})
					}
				case *ssa.Range:
					if _, isMap := x.X.Type().Underlying().(*types.Map); !isMap {
						continue
					}
					if why, ok := orderInsensitiveMapRange(x); ok {
						r.Add(report.Obligation{Key: name + "|range over map", Func: name, Pos: instrPos(p, in), What: "range over map", Status: report.Discharged, By: why})
					} else {
						bad++
						r.Add(report.Obligation{Key: name + "|range over map", Func: name, Pos: instrPos(p, in), What: "range over map", Status: report.Violation, Detail: "iteration order of a Go map is random and the loop body is not of an order-insensitive form: " + why})
					}
				}
			}
		}
		if bad == 0 {
			r.Add(report.Obligation{Key: name + "|free of nondeterminism sources", Func: name, Pos: p.Pos(fn.Pos()), What: "function on the output path", Status: report.Discharged, By: "no go/select/time/rand"})
		}
	}
	return r
}

// orderInsensitiveMapRange accepts loops whose only effects are updates of
// another map keyed by the range key (copying an index).
func orderInsensitiveMapRange(rg *ssa.Range) (string, bool) {
	// collect the loop: blocks reachable from the block of the Next without leaving via the !ok edge
	var next *ssa.Next
	for _, ref := range *rg.Referrers() {
		if n, ok := ref.(*ssa.Next); ok {
			next = n
		}
	}
	if next == nil {
		return "no iteration", true
	}
	head := next.Block()
	// body = blocks that can reach head again (natural loop), found by backward search from head's preds
	body := map[*ssa.BasicBlock]bool{head: true}
	var work []*ssa.BasicBlock
	for _, pr := range head.Preds {
		if head.Dominates(pr) {
			work = append(work, pr)
		}
	}
	for len(work) > 0 {
		b := work[len(work)-1]
		work = work[:len(work)-1]
		if body[b] {
			continue
		}
		body[b] = true
		for _, pr := range b.Preds {
			work = append(work, pr)
		}
	}
	var key ssa.Value
	for _, ref := range *next.Referrers() {
		if ex, ok := ref.(*ssa.Extract); ok && ex.Index == 1 {
			key = ex
		}
	}
	for b := range body {
		for _, in := range b.Instrs {
			switch x := in.(type) {
			case *ssa.MapUpdate:
				if x.Key != key {
					return "map update not keyed by the range key", false
				}
			case *ssa.Store:
				return "store inside the loop body", false
			case ssa.CallInstruction:
				if _, isB := x.Common().Value.(*ssa.Builtin); !isB {
					return "call inside the loop body", false
				}
				if b := x.Common().Value.(*ssa.Builtin); b.Name() == "append" {
					return "append inside the loop body (order-dependent)", false
				}
			case *ssa.Return:
				return "return inside the loop body", false
			}
		}
	}
	return "body only updates another map under the same key", true
}
