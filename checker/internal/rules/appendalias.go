package rules

import (
	"golang.org/x/tools/go/ssa"

	"verif/checker/internal/load"
	"verif/checker/internal/report"
	"verif/checker/internal/ssau"
)

// inCycle reports whether block b lies on a CFG cycle.
func inCycle(b *ssa.BasicBlock) bool {
	for _, s := range b.Succs {
		if s == b || ssau.Reaches(s, b) {
			return true
		}
	}
	return false
}

// OwnAppendAlias implements OWN-APPENDALIAS: `append(base, x)` evaluated more
// than once on the same base value (inside a loop whose body does not
// reassign base) hands out slices that may share one backing array, so a later
// append overwrites what an earlier result still refers to.
func OwnAppendAlias(sc Scope, min int) func(p *load.Program) *report.RuleResult {
	return func(p *load.Program) *report.RuleResult {
		r := newResult("OWN-APPENDALIAS", "in the "+sc.Name+": no append whose base slice is fixed across the iterations of the enclosing loop (defined outside it and not replaced by the result) lets its result outlive the iteration (stored, passed on, returned); such results share one backing array once the base has spare capacity, and every later iteration overwrites the element the earlier results end in", min)
		for _, fn := range sortedFuncs(p) {
			if !sc.has(p, fn) || len(fn.Blocks) == 0 {
				continue
			}
			for _, b := range fn.Blocks {
				for _, in := range b.Instrs {
					c, ok := in.(*ssa.Call)
					if !ok || !ssau.IsBuiltinCall(c, "append") || len(c.Call.Args) < 1 {
						continue
					}
					base := c.Call.Args[0]
					if ssau.IsNilConst(base) {
						continue
					}
					name := p.FuncName(fn)
					what := "append to " + cleanPath(ssau.Path(base))
					// fresh bases: a slice literal / make / full-slice-expression with capped capacity
					if fresh(base) {
						r.OK(name, instrPos(p, c), what, "base is a fresh slice")
						continue
					}
					// the usual accumulation x = append(x, ...): the result flows back into the base (phi or store to the same place)
					if flowsBack(c, base) {
						r.OK(name, instrPos(p, c), what, "the result replaces the base (accumulation)")
						continue
					}
					if !inCycle(b) || definedInLoop(base, b) {
						// evaluated once per base value; a second append site on the same base is the other way to go wrong
						if other := otherAppendOnSameBase(fn, c, base); other != nil && escapes(c) && escapes(other) {
							r.Bad(name, instrPos(p, c), what, "two appends to the same base at "+instrPos(p, c)+" and "+instrPos(p, other)+" both keep their results: with spare capacity they share one backing array")
							continue
						}
						r.OK(name, instrPos(p, c), what, "evaluated once per base value")
						continue
					}
					if !escapes(c) {
						r.OK(name, instrPos(p, c), what, "the result does not outlive the iteration")
						continue
					}
					r.Bad(name, instrPos(p, c), what, "the base is the same slice on every iteration and the result is kept (stored or passed on): once the base has spare capacity all these results share its backing array and each iteration overwrites the last element of the previous ones")
				}
			}
		}
		return r
	}
}

func fresh(v ssa.Value) bool {
	switch x := v.(type) {
	case *ssa.MakeSlice:
		return true
	case *ssa.Slice:
		if x.Max != nil {
			return true // x[a:b:b]
		}
		if a, ok := x.X.(*ssa.Alloc); ok && a.Comment == "slicelit" {
			return true
		}
		_, isAlloc := x.X.(*ssa.Alloc)
		return isAlloc
	case *ssa.Call:
		return false
	case *ssa.Convert:
		return true // []byte(str) copies
	}
	return false
}

// flowsBack: the append result reaches the place the base came from.
func flowsBack(c *ssa.Call, base ssa.Value) bool {
	bp := ssau.Path(base)
	for _, u := range *c.Referrers() {
		switch x := u.(type) {
		case *ssa.Phi:
			if ssa.Value(x) == base {
				return true
			}
			// base is itself a phi that this phi feeds (loop-carried)
			if bph, ok := base.(*ssa.Phi); ok {
				for _, e := range bph.Edges {
					if e == ssa.Value(x) || e == ssa.Value(c) {
						return true
					}
				}
			}
		case *ssa.Store:
			if x.Val == ssa.Value(c) {
				ap := ssau.Path(x.Addr)
				if ap == "&"+bp || ap[1:] == bp || ap == bp {
					return true
				}
			}
		}
	}
	if bph, ok := base.(*ssa.Phi); ok {
		for _, e := range bph.Edges {
			if e == ssa.Value(c) {
				return true
			}
		}
	}
	return false
}

func definedInLoop(v ssa.Value, use *ssa.BasicBlock) bool {
	in, ok := v.(ssa.Instruction)
	if !ok {
		return false // parameters, constants, globals: defined outside
	}
	db := in.Block()
	if db == nil {
		return false
	}
	// defined inside the same cycle as the use
	return db == use || (ssau.Reaches(use, db) && ssau.Reaches(db, use))
}

func escapes(c *ssa.Call) bool {
	for _, u := range *c.Referrers() {
		switch x := u.(type) {
		case *ssa.DebugRef:
		case *ssa.Store:
			if x.Val == ssa.Value(c) {
				if _, local := x.Addr.(*ssa.Alloc); !local {
					return true
				}
				return true
			}
		case *ssa.Return, *ssa.MakeInterface, *ssa.MakeClosure, *ssa.MapUpdate:
			return true
		case ssa.CallInstruction:
			if b, ok := x.Common().Value.(*ssa.Builtin); ok && (b.Name() == "len" || b.Name() == "cap" || b.Name() == "copy") {
				continue
			}
			return true
		case *ssa.Phi:
			return true
		}
	}
	return false
}

func otherAppendOnSameBase(fn *ssa.Function, c *ssa.Call, base ssa.Value) *ssa.Call {
	for _, b := range fn.Blocks {
		for _, in := range b.Instrs {
			o, ok := in.(*ssa.Call)
			if !ok || o == c || !ssau.IsBuiltinCall(o, "append") || len(o.Call.Args) < 1 {
				continue
			}
			if o.Call.Args[0] == base && !flowsBack(o, base) {
				// both must be able to run in one execution
				cb, ob := c.Block(), o.Block()
				if cb == ob || ssau.Reaches(cb, ob) || ssau.Reaches(ob, cb) {
					if cb != ob && !reachesStrict(cb, ob) && !reachesStrict(ob, cb) {
						continue
					}
					return o
				}
			}
		}
	}
	return nil
}

// reachesStrict: some successor path leads from a to b (a != b).
func reachesStrict(a, b *ssa.BasicBlock) bool {
	for _, s := range a.Succs {
		if s == b || ssau.Reaches(s, b) {
			return true
		}
	}
	return false
}
