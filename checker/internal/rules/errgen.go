package rules

import (
	"go/token"
	"go/types"
	"strings"

	"golang.org/x/tools/go/ssa"

	"verif/checker/internal/load"
	"verif/checker/internal/report"
	"verif/checker/internal/ssau"
)

// Scope restricts a generic rule to some packages / files.
type Scope struct {
	Name  string
	Pkgs  []string // "ion", "cmd" ("" = both)
	Files []string // base file names (empty = all)
}

func (sc Scope) has(p *load.Program, fn *ssa.Function) bool {
	if p.InTest(fn) {
		return false
	}
	root := fn
	for root.Parent() != nil {
		root = root.Parent()
	}
	pk := ""
	switch root.Pkg {
	case p.Ion:
		pk = "ion"
	case p.Cmd:
		pk = "cmd"
	default:
		pk = "internal"
	}
	if len(sc.Pkgs) > 0 {
		ok := false
		for _, x := range sc.Pkgs {
			if x == pk {
				ok = true
			}
		}
		if !ok {
			return false
		}
	}
	if len(sc.Files) > 0 {
		f := p.File(root.Pos())
		ok := false
		for _, x := range sc.Files {
			if strings.HasSuffix(f, "/"+x) || f == x {
				ok = true
			}
		}
		return ok
	}
	return true
}

// errSource classifies the callee(s) of a call whose last result is error:
// "module" (module function or VTA-resolved interface method implemented in
// the module), "io" (an input/output primitive), or "" (out of scope, e.g.
// strconv / time parsing helpers, strings.Builder writes).
func errSource(p *load.Program, c ssa.CallInstruction) string {
	cc := c.Common()
	if _, ok := cc.Value.(*ssa.Builtin); ok {
		return ""
	}
	var sig *types.Signature
	if cc.IsInvoke() {
		sig = cc.Method.Type().(*types.Signature)
	} else {
		sig, _ = cc.Value.Type().Underlying().(*types.Signature)
	}
	if sig == nil || sig.Results().Len() == 0 || !ssau.IsErrorType(sig.Results().At(sig.Results().Len()-1).Type()) {
		return ""
	}
	callees := p.Callees(c)
	for _, f := range callees {
		if p.InModule(f) {
			return "module"
		}
	}
	if cc.IsInvoke() {
		switch cc.Method.Name() {
		case "Write", "WriteString", "Close", "Flush", "Read", "ReadByte", "WriteByte":
			return "io"
		}
		if o := cc.Method.Pkg(); o != nil && strings.HasPrefix(o.Path(), "github.com/amzn/ion-go") {
			return "module"
		}
		return ""
	}
	sc := cc.StaticCallee()
	if sc == nil {
		return "module" // call of a function value inside the module (fn(val, w.out))
	}
	if sc.Pkg == nil && sc.Signature.Recv() == nil {
		return ""
	}
	pkg := ""
	if sc.Pkg != nil {
		pkg = sc.Pkg.Pkg.Path()
	} else if o := sc.Object(); o != nil && o.Pkg() != nil {
		pkg = o.Pkg().Path()
	}
	recv := recvTypeName(sc)
	switch {
	case pkg == "bufio" && recv == "Reader":
		return "io"
	case pkg == "bufio" && recv == "Writer":
		return "io"
	case pkg == "io":
		return "io"
	case pkg == "os":
		return "io"
	case pkg == "io/ioutil":
		return "io"
	case pkg == "encoding/base64" && (sc.Name() == "Write" || sc.Name() == "Close"):
		return "io"
	case pkg == "fmt" && strings.HasPrefix(sc.Name(), "Fp"):
		// Fprint* to a strings.Builder / bytes.Buffer cannot fail
		if len(cc.Args) > 0 {
			tn := ssau.TypeName(unwrapIface(cc.Args[0]).Type())
			if tn == "Builder" || tn == "Buffer" {
				return ""
			}
		}
		return "io"
	}
	return ""
}

func unwrapIface(v ssa.Value) ssa.Value {
	for i := 0; i < 3; i++ {
		switch x := v.(type) {
		case *ssa.MakeInterface:
			v = x.X
		case *ssa.ChangeInterface:
			v = x.X
		default:
			return v
		}
	}
	return v
}

// errValueOf returns the SSA value carrying the error result of a call
// (the call itself, or the Extract of the last tuple component), and whether
// the result is used at all.
func errValueOf(c ssa.CallInstruction) (ssa.Value, bool) {
	v := c.Value()
	if v == nil { // defer / go
		return nil, false
	}
	if ssau.IsErrorType(v.Type()) {
		return v, v.Referrers() != nil && len(*v.Referrers()) > 0
	}
	tup, ok := v.Type().(*types.Tuple)
	if !ok {
		return nil, false
	}
	for _, r := range *v.Referrers() {
		if ex, ok := r.(*ssa.Extract); ok && ex.Index == tup.Len()-1 {
			return ex, ex.Referrers() != nil && len(*ex.Referrers()) > 0
		}
	}
	return nil, false
}

type suppression struct {
	fn     string
	callee string // substring of the callee name ("" = any)
	reason string
}

// ErrDrop implements ERR-DROP.
func ErrDrop(sc Scope, supp []suppression, min int) func(p *load.Program) *report.RuleResult {
	return func(p *load.Program) *report.RuleResult {
		r := newResult("ERR-DROP", "no error returned by a module function, an ion interface method or an I/O primitive is discarded ("+sc.Name+")", min)
		used := make([]bool, len(supp))
		for _, fn := range p.Funcs {
			if !sc.has(p, fn) {
				continue
			}
			name := p.FuncName(fn)
			for _, b := range fn.Blocks {
				for _, in := range b.Instrs {
					c, ok := in.(ssa.CallInstruction)
					if !ok {
						continue
					}
					src := errSource(p, c)
					if src == "" {
						continue
					}
					callee := calleeNames(p, c)
					what := "error of " + callee
					_, usedVal := errValueOf(c)
					if usedVal {
						r.Add(report.Obligation{Key: name + "|" + what, Func: name, Pos: instrPos(p, in), What: what, Status: report.Discharged, By: "error value is used (" + src + " source)"})
						continue
					}
					sup := false
					for i, s := range supp {
						if s.fn == name && (s.callee == "" || strings.Contains(callee, s.callee)) {
							used[i] = true
							sup = true
							r.Add(report.Obligation{Key: name + "|" + what, Func: name, Pos: instrPos(p, in), What: what, Status: report.Discharged, By: "suppressed: " + s.reason})
							break
						}
					}
					if !sup {
						r.Add(report.Obligation{Key: name + "|" + what, Func: name, Pos: instrPos(p, in), What: what, Status: report.Violation,
							Detail: "the error result of " + callee + " is discarded (never tested, returned, stored or passed on)"})
					}
				}
			}
		}
		for i, s := range supp {
			r.Suppressions = append(r.Suppressions, report.Suppression{Rule: "ERR-DROP", Symbol: s.fn + " / " + s.callee, Reason: s.reason, Used: used[i]})
		}
		return r
	}
}

// ---------------------------------------------------------------------------
// ERR-SWAP

// definitelyNonNilError: a freshly allocated error value, fmt.Errorf /
// errors.New, or a call to a module function all of whose error returns are
// definitely non-nil.
func definitelyNonNilError(p *load.Program, v ssa.Value, depth int) bool {
	if depth > 4 {
		return false
	}
	if freshErrorType(v) != "" {
		return true
	}
	switch x := v.(type) {
	case *ssa.MakeInterface:
		if _, isPtr := x.X.Type().Underlying().(*types.Pointer); !isPtr {
			if !ssau.IsNilConst(x.X) {
				// a non-pointer concrete value boxed into error is non-nil
				return true
			}
		}
		return definitelyNonNilError(p, x.X, depth+1)
	case *ssa.Call:
		sc := x.Common().StaticCallee()
		if sc == nil {
			return false
		}
		if sc.Pkg != nil {
			pp := sc.Pkg.Pkg.Path()
			if (pp == "fmt" && sc.Name() == "Errorf") || (pp == "errors" && sc.Name() == "New") {
				return true
			}
		}
		sc = load.Unwrap(sc)
		if p.InModule(sc) && len(sc.Blocks) > 0 {
			ei := errResultIndex(sc)
			if ei < 0 || sc.Signature.Results().Len() != 1 {
				return false
			}
			for _, ret := range returns(sc) {
				if !definitelyNonNilError(p, ret.Results[ei], depth+1) {
					return false
				}
			}
			return true
		}
	case *ssa.Phi:
		for _, e := range x.Edges {
			if !definitelyNonNilError(p, e, depth+1) {
				return false
			}
		}
		return true
	case *ssa.UnOp:
		// a load of a place that was just stored to in the same block (w.err = &UsageError{...}; return w.err):
		// the value stored, provided nothing in between can write memory
		if x.Op != token.MUL || x.Block() == nil {
			return false
		}
		want := ssau.Path(x.X)
		instrs := x.Block().Instrs
		for i := ssau.InstrIndex(x) - 1; i >= 0; i-- {
			switch y := instrs[i].(type) {
			case *ssa.Store:
				if ssau.Path(y.Addr) == want {
					return definitelyNonNilError(p, y.Val, depth+1)
				}
				return false
			case ssa.CallInstruction:
				return false
			}
		}
	}
	return false
}

// fullAliases: e plus phis, interface conversions and stores-through-locals it flows into.
func fullAliases(e ssa.Value) map[ssa.Value]bool {
	set := map[ssa.Value]bool{e: true}
	work := []ssa.Value{e}
	for len(work) > 0 {
		v := work[0]
		work = work[1:]
		refs := v.Referrers()
		if refs == nil {
			continue
		}
		for _, r := range *refs {
			switch x := r.(type) {
			case *ssa.Phi, *ssa.ChangeInterface, *ssa.MakeInterface:
				xv := x.(ssa.Value)
				if !set[xv] {
					set[xv] = true
					work = append(work, xv)
				}
			}
		}
	}
	return set
}

// consumes reports whether instr uses the error in one of the accepted ways.
func consumes(in ssa.Instruction, al map[ssa.Value]bool, epath string) (string, bool) {
	same := func(v ssa.Value) bool {
		if al[v] {
			return true
		}
		if epath != "" && !ssau.IsUnique(epath) {
			if _, isConst := v.(*ssa.Const); !isConst && ssau.Path(v) == epath {
				return true
			}
		}
		return false
	}
	switch x := in.(type) {
	case *ssa.Return:
		for _, v := range x.Results {
			if same(v) {
				return "returned", true
			}
		}
	case *ssa.Store:
		if same(x.Val) {
			return "stored", true
		}
	case *ssa.Panic:
		if same(x.X) {
			return "panicked with", true
		}
	case *ssa.TypeAssert:
		if same(x.X) {
			return "type-asserted", true
		}
	case *ssa.BinOp:
		if (x.Op == token.EQL || x.Op == token.NEQ) && (same(x.X) && !ssau.IsNilConst(x.Y) || same(x.Y) && !ssau.IsNilConst(x.X)) {
			return "compared with a sentinel", true
		}
	case *ssa.MapUpdate:
		if same(x.Value) {
			return "stored", true
		}
	case *ssa.Send:
		if same(x.X) {
			return "sent", true
		}
	case ssa.CallInstruction:
		cc := x.Common()
		for _, a := range cc.Args {
			if same(a) {
				return "passed to a call", true
			}
		}
		if cc.IsInvoke() && same(cc.Value) {
			return "method called on it", true
		}
	}
	return "", false
}

// ErrSwap implements ERR-SWAP.
func ErrSwap(sc Scope, supp []suppression, min int) func(p *load.Program) *report.RuleResult {
	return func(p *load.Program) *report.RuleResult {
		r := newResult("ERR-SWAP", "after an error from a module call or an I/O primitive was found non-nil, no path reaches an exit without consuming that error or returning a definitely non-nil error ("+sc.Name+")", min)
		used := make([]bool, len(supp))
		for _, fn := range p.Funcs {
			if !sc.has(p, fn) {
				continue
			}
			name := p.FuncName(fn)
			ei := errResultIndex(fn)
			for _, b := range fn.Blocks {
				if len(b.Instrs) == 0 {
					continue
				}
				ifi, ok := b.Instrs[len(b.Instrs)-1].(*ssa.If)
				if !ok {
					continue
				}
				bo, ok := ifi.Cond.(*ssa.BinOp)
				if !ok || (bo.Op != token.EQL && bo.Op != token.NEQ) {
					continue
				}
				var e ssa.Value
				switch {
				case ssau.IsNilConst(bo.Y) && ssau.IsErrorType(bo.X.Type()):
					e = bo.X
				case ssau.IsNilConst(bo.X) && ssau.IsErrorType(bo.Y.Type()):
					e = bo.Y
				default:
					continue
				}
				// origin: a call (direct or via Extract/phi) to a module function or I/O primitive
				origin, src := errOrigin(p, e, 0)
				if src == "" {
					continue
				}
				nonNilSucc := 1
				if bo.Op == token.NEQ {
					nonNilSucc = 0
				}
				what := "non-nil " + describeErr(e) + " from " + origin
				key := name + "|" + what
				al := fullAliases(e)
				epath := ssau.Path(e)
				var how string
				start := b.Succs[nonNilSucc]
				// the error was already put where it is kept before it is tested
				// (done, err := r.next(); r.err = err; if err != nil { return false })
				recorded := false
				if e.Referrers() != nil {
					for _, ref := range *e.Referrers() {
						st, ok := ref.(*ssa.Store)
						if !ok || st.Val != e {
							continue
						}
						if _, isField := st.Addr.(*ssa.FieldAddr); !isField {
							continue
						}
						if st.Block() == b || st.Block().Dominates(b) {
							recorded = true
						}
					}
				}
				if recorded {
					r.Add(report.Obligation{Key: key, Func: name, Pos: instrPos(p, ifi), What: what, Status: report.Discharged, By: "stored into a field of the receiver before the test"})
					continue
				}
				esc := walkSwap(p, fn, b, start, e, al, epath, ei, &how)
				if esc == "" {
					r.Add(report.Obligation{Key: key, Func: name, Pos: instrPos(p, ifi), What: what, Status: report.Discharged, By: how})
					continue
				}
				sup := false
				for i, s := range supp {
					if s.fn == name && (s.callee == "" || strings.Contains(origin, s.callee)) {
						used[i] = true
						sup = true
						r.Add(report.Obligation{Key: key, Func: name, Pos: instrPos(p, ifi), What: what, Status: report.Discharged, By: "suppressed: " + s.reason})
						break
					}
				}
				if !sup {
					r.Add(report.Obligation{Key: key, Func: name, Pos: instrPos(p, ifi), What: what, Status: report.Violation, Detail: esc})
				}
			}
		}
		for i, s := range supp {
			r.Suppressions = append(r.Suppressions, report.Suppression{Rule: "ERR-SWAP", Symbol: s.fn + " / " + s.callee, Reason: s.reason, Used: used[i]})
		}
		return r
	}
}

func describeErr(e ssa.Value) string {
	if e.Name() != "" && !strings.HasPrefix(e.Name(), "t") {
		return e.Name()
	}
	return "error"
}

// errOrigin finds the producing call of an error value.
func errOrigin(p *load.Program, e ssa.Value, depth int) (string, string) {
	if depth > 4 {
		return "", ""
	}
	switch x := e.(type) {
	case *ssa.Call:
		if s := errSource(p, x); s != "" {
			return calleeNames(p, x), s
		}
	case *ssa.Extract:
		if c, ok := x.Tuple.(*ssa.Call); ok {
			if s := errSource(p, c); s != "" {
				return calleeNames(p, c), s
			}
		}
	case *ssa.Phi:
		var names []string
		src := ""
		for _, ed := range x.Edges {
			if ssau.IsNilConst(ed) {
				continue
			}
			n, s := errOrigin(p, ed, depth+1)
			if s != "" {
				names = append(names, n)
				src = s
			}
		}
		if src != "" {
			return strings.Join(names, "/"), src
		}
	case *ssa.UnOp:
		// load of a local variable that holds a call's error (var err error; x, err = f())
		if a, ok := x.X.(*ssa.Alloc); ok && x.Op == token.MUL {
			var names []string
			src := ""
			for _, ref := range *a.Referrers() {
				if st, ok := ref.(*ssa.Store); ok && st.Addr == a {
					n, s := errOrigin(p, st.Val, depth+1)
					if s != "" {
						names = append(names, n)
						src = s
					}
				}
			}
			if src != "" {
				return strings.Join(names, "/"), src
			}
		}
	}
	return "", ""
}

// walkSwap explores forward from the non-nil successor; it returns "" when
// every path consumes the error or exits with a definitely non-nil error,
// else a description of the offending exit.
func walkSwap(p *load.Program, fn *ssa.Function, from, start *ssa.BasicBlock, e ssa.Value, al map[ssa.Value]bool, epath string, ei int, how *string) string {
	seen := map[*ssa.BasicBlock]bool{}
	work := []*ssa.BasicBlock{start}
	defBlock := (*ssa.BasicBlock)(nil)
	if in, ok := e.(ssa.Instruction); ok {
		defBlock = in.Block()
		if ex, ok := e.(*ssa.Extract); ok {
			if ci, ok := ex.Tuple.(ssa.Instruction); ok {
				defBlock = ci.Block()
			}
		}
	}
	hows := map[string]bool{}
	for len(work) > 0 {
		b := work[len(work)-1]
		work = work[:len(work)-1]
		if seen[b] {
			continue
		}
		seen[b] = true
		if b == defBlock && b != start {
			return "the error is overwritten by the next evaluation at " + instrPos(p, b.Instrs[0]) + " without having been consumed (error branch continues)"
		}
		consumed := false
		for _, in := range b.Instrs {
			if h, ok := consumes(in, al, epath); ok {
				hows[h] = true
				consumed = true
				break
			}
			if ret, ok := in.(*ssa.Return); ok {
				if ei >= 0 && definitelyNonNilError(p, ret.Results[ei], 0) {
					hows["replaced by a definitely non-nil error"] = true
					consumed = true
					break
				}
				if ei >= 0 {
					return "exit at " + instrPos(p, ret) + " returns " + describeRet(ret.Results[ei]) + " while the tested error is dropped"
				}
				return "exit at " + instrPos(p, ret) + " is reached with the tested error dropped (function has no error result)"
			}
			if _, ok := in.(*ssa.Panic); ok {
				hows["panic"] = true
				consumed = true
				break
			}
		}
		if consumed {
			continue
		}
		// A second nil test of the very same SSA value: on this walk the value
		// is known non-nil, so only the non-nil successor is feasible
		// (if err == nil && … { } …; if err != nil && err != io.EOF { … }).
		if ifi, ok := b.Instrs[len(b.Instrs)-1].(*ssa.If); ok {
			// ... or of a phi in this block that, on every edge this walk can arrive by, carries that
			// value (err := f(); if err == nil && c { err = g() }; if err != nil { ... }).
			sameHere := func(v ssa.Value) bool {
				if v == e {
					return true
				}
				ph, ok := v.(*ssa.Phi)
				if !ok || ph.Block() != b || !al[ph] {
					return false
				}
				n := 0
				for i, q := range b.Preds {
					if q != from && !(q == start || ssau.Reaches(start, q)) {
						continue
					}
					n++
					if ph.Edges[i] != e {
						return false
					}
				}
				return n > 0
			}
			if bo, ok := ifi.Cond.(*ssa.BinOp); ok && (bo.Op == token.EQL || bo.Op == token.NEQ) &&
				(sameHere(bo.X) && ssau.IsNilConst(bo.Y) || sameHere(bo.Y) && ssau.IsNilConst(bo.X)) {
				if bo.Op == token.NEQ {
					work = append(work, b.Succs[0])
				} else {
					work = append(work, b.Succs[1])
				}
				continue
			}
		}
		for _, s := range b.Succs {
			work = append(work, s)
		}
	}
	var hs []string
	for h := range hows {
		hs = append(hs, h)
	}
	sortStrings(hs)
	*how = strings.Join(hs, " / ")
	if *how == "" {
		*how = "no exit reachable"
	}
	return ""
}

func describeRet(v ssa.Value) string {
	if ssau.IsNilConst(v) {
		return "nil"
	}
	return "another value (" + describe(v) + ")"
}
