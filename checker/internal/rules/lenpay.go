package rules

import (
	"go/token"
	"sort"
	"strings"

	"golang.org/x/tools/go/ssa"

	"verif/checker/internal/load"
	"verif/checker/internal/report"
	"verif/checker/internal/ssau"
)

// codecFamilies finds the codec pairs of the binary writer by the
// repository's own naming: a function append<K> has the sibling <k>Len.
// Returned: family name (lower-cased K) -> {len function, append function}.
func codecFamilies(p *load.Program) map[string][2]*ssa.Function {
	out := map[string][2]*ssa.Function{}
	for name, m := range p.Ion.Members {
		f, ok := m.(*ssa.Function)
		if !ok || !strings.HasPrefix(name, "append") || len(name) <= len("append") {
			continue
		}
		k := name[len("append"):]
		ln := strings.ToLower(k[:1]) + k[1:] + "Len"
		if lf, ok := p.Ion.Members[ln].(*ssa.Function); ok {
			out[strings.ToLower(k)] = [2]*ssa.Function{lf, f}
		}
	}
	return out
}

type codecUse struct {
	fam  string
	arg  string   // canonical path of the encoded operand, conversions stripped
	keys []string // alternative keys of the operand (element of a slice it is stored to / loaded from)
	call *ssa.Call
}

// sameOperand: two uses measure/append the same operand.
func sameOperand(a, b codecUse) bool {
	for _, x := range a.keys {
		for _, y := range b.keys {
			if x == y {
				return true
			}
		}
	}
	return false
}

// structPath is ssau.Path with phis described by their (sorted) operands, so
// that `mag := uint64(n); if n < 0 { mag = uint64(-n) }` has the same path in
// two sibling functions.
func structPath(v ssa.Value, depth int) string {
	if ph, ok := v.(*ssa.Phi); ok && depth < 3 {
		var es []string
		for _, e := range ph.Edges {
			es = append(es, structPath(e, depth+1))
		}
		sort.Strings(es)
		return "phi{" + strings.Join(es, "|") + "}"
	}
	if cv, ok := v.(*ssa.Convert); ok {
		return structPath(cv.X, depth)
	}
	path := cleanPath(stripConv(ssau.Path(v)))
	// the same access path does not name the same value once the function has assigned to part
	// of it (utc.dateTime = utc.dateTime.UTC() in one sibling only): mark it
	if in, ok := v.(ssa.Instruction); ok && in.Parent() != nil {
		for _, pre := range reassignedPaths(in.Parent()) {
			if strings.Contains(path, pre) {
				path += "~after-assignment-to(" + pre + ")"
			}
		}
	}
	return path
}

var reassignedCache = map[*ssa.Function][]string{}

// reassignedPaths lists the access paths of fields of parameters (or of their
// local copies) that fn itself stores to.
func reassignedPaths(fn *ssa.Function) []string {
	if v, ok := reassignedCache[fn]; ok {
		return v
	}
	set := map[string]bool{}
	for _, b := range fn.Blocks {
		for _, in := range b.Instrs {
			st, ok := in.(*ssa.Store)
			if !ok {
				continue
			}
			fa, ok := st.Addr.(*ssa.FieldAddr)
			if !ok {
				continue
			}
			pp := strings.TrimPrefix(cleanPath(stripConv(ssau.Path(fa))), "&")
			if strings.HasPrefix(pp, "p.") || strings.HasPrefix(pp, "a.") {
				// only copies of parameters (value parameters are spilled to a local named after them)
				root := pp
				if i := strings.Index(root[2:], "."); i >= 0 {
					root = root[2 : 2+i]
				}
				isParam := false
				for _, q := range fn.Params {
					if q.Name() == root {
						isParam = true
					}
				}
				if isParam {
					set[pp] = true
				}
			}
		}
	}
	var out []string
	for k := range set {
		out = append(out, k)
	}
	sort.Strings(out)
	reassignedCache[fn] = out
	return out
}

// operandKeys: the operand's own path, plus "elem(S)" when the operand is an
// element loaded from slice S or a value the function stores into an element
// of S (lengths summed in one loop, payload appended in a second loop).
func operandKeys(v ssa.Value) []string {
	keys := []string{structPath(v, 0)}
	base := func(addr ssa.Value) string {
		if ia, ok := addr.(*ssa.IndexAddr); ok {
			return "elem(" + structPath(ia.X, 0) + ")"
		}
		return ""
	}
	inner := v
	for {
		if cv, ok := inner.(*ssa.Convert); ok {
			inner = cv.X
			continue
		}
		break
	}
	if u, ok := inner.(*ssa.UnOp); ok && u.Op == token.MUL {
		if k := base(u.X); k != "" {
			keys = append(keys, k)
		}
	}
	if refs := inner.Referrers(); refs != nil {
		for _, u := range *refs {
			if st, ok := u.(*ssa.Store); ok && st.Val == inner {
				if k := base(st.Addr); k != "" {
					keys = append(keys, k)
				}
			}
		}
	}
	return keys
}

func stripConv(path string) string {
	for {
		i := strings.Index(path, "conv<")
		if i < 0 {
			return path
		}
		j := strings.Index(path[i:], ">(")
		if j < 0 {
			return path
		}
		// remove "conv<T>(" and the matching ")"
		start := i + j + 2
		depth := 1
		k := start
		for k < len(path) && depth > 0 {
			switch path[k] {
			case '(':
				depth++
			case ')':
				depth--
			}
			k++
		}
		if depth != 0 {
			return path
		}
		path = path[:i] + path[start:k-1] + path[k:]
	}
}

// codecUses lists the calls fn makes to length functions and to append
// functions of the codec families, with the operand each is applied to.
func codecUses(fn *ssa.Function, fams map[string][2]*ssa.Function) (lens, apps []codecUse) {
	for _, b := range fn.Blocks {
		for _, in := range b.Instrs {
			c, ok := in.(*ssa.Call)
			if !ok {
				continue
			}
			callee := c.Call.StaticCallee()
			if callee == nil {
				continue
			}
			for fam, pair := range fams {
				if callee == pair[0] && len(c.Call.Args) >= 1 {
					a := c.Call.Args[len(c.Call.Args)-1]
					lens = append(lens, codecUse{fam, structPath(a, 0), operandKeys(a), c})
				}
				if callee == pair[1] && len(c.Call.Args) >= 2 {
					a := c.Call.Args[len(c.Call.Args)-1]
					apps = append(apps, codecUse{fam, structPath(a, 0), operandKeys(a), c})
				}
			}
		}
	}
	return
}

// TabLenPay implements TAB-LENPAY (codec pairing): a length that is computed
// with <k>Len(x) is the length of bytes produced by append<K>(…, x) — same
// codec family, same operand — (a) inside every function of the binary writer
// that computes a length and appends the payload itself, and (b) across each
// sibling pair fooLen/appendFoo that splits the two halves.
func TabLenPay(p *load.Program) *report.RuleResult {
	r := newResult("TAB-LENPAY", "in the binary writer every length computed with <k>Len(x) belongs to bytes appended with append<K>(…, x): same codec family and same operand, within a function and across each sibling pair fooLen/appendFoo; an operand appended in the sibling without a length term is a single byte by its interval", 12)
	fams := codecFamilies(p)
	if len(fams) < 6 {
		missing(r, "codec families", sprintf("found %d append<K>/<k>Len pairs, expected at least 6", len(fams)))
		return r
	}
	names := make([]string, 0, len(fams))
	for k := range fams {
		names = append(names, k)
	}
	sort.Strings(names)
	r.Infof("codec families: %s", strings.Join(names, ", "))
	isCodecFn := map[*ssa.Function]bool{}
	for _, pr := range fams {
		isCodecFn[pr[0]], isCodecFn[pr[1]] = true, true
	}
	pairs := map[string][2]*ssa.Function{}
	var pnames []string
	for _, fam := range names {
		pairs[fam] = fams[fam]
		pnames = append(pnames, fam)
	}
	for _, tn := range []string{"atom", "datagram", "container"} {
		t := p.Type(p.Ion, tn)
		if t == nil {
			continue
		}
		lf, ef := methodOf(p, t, "Len"), methodOf(p, t, "EmitTo")
		if lf != nil && ef != nil && recvTypeName(lf) == tn && recvTypeName(ef) == tn {
			pairs["node "+tn] = [2]*ssa.Function{lf, ef}
			pnames = append(pnames, "node "+tn)
		}
	}
	for _, pr := range pairs {
		isCodecFn[pr[0]], isCodecFn[pr[1]] = true, true
	}
	// (a) same function
	for _, fn := range sortedFuncs(p) {
		if !ScopeIO.has(p, fn) || len(fn.Blocks) == 0 || isCodecFn[fn] {
			continue
		}
		lens, apps := codecUses(fn, fams)
		if len(lens) == 0 {
			continue
		}
		name := p.FuncName(fn)
		for _, l := range lens {
			what := sprintf("%sLen(%s)", l.fam, cleanPath(l.arg))
			var sameArg []string
			ok := false
			for _, a := range apps {
				if sameOperand(a, l) {
					sameArg = append(sameArg, a.fam)
					if a.fam == l.fam {
						ok = true
					}
				}
			}
			switch {
			case ok:
				r.OK(name, instrPos(p, l.call), what, "the same operand is appended with append"+l.fam)
			case len(sameArg) > 0:
				r.Bad(name, instrPos(p, l.call), what, sprintf("the operand is measured with the %s codec but appended with the %s codec: the declared length and the bytes written disagree for some values", l.fam, strings.Join(sameArg, "/")))
			default:
				// length of something appended elsewhere (e.g. a tag length added to a buffer size): only tag lengths may be free-standing
				if l.fam == "tag" {
					r.OK(name, instrPos(p, l.call), what, "tag length used for buffer sizing")
				} else {
					r.Bad(name, instrPos(p, l.call), what, "a length is computed for an operand that this function never appends with the matching append function")
				}
			}
		}
	}
	// (b) sibling pairs that call other codecs: fooLen/appendFoo, and the
	// Len/EmitTo methods of the buffer nodes (a container's tag is measured by
	// hand as 1 or 1+varUintLen, which is what tagLen computes)
	for _, fam := range pnames {
		pr := pairs[fam]
		node := strings.HasPrefix(fam, "node ")
		lens, _ := codecUses(pr[0], fams)
		_, apps := codecUses(pr[1], fams)
		if len(lens) == 0 && len(apps) == 0 {
			continue
		}
		ln, an := p.FuncName(pr[0]), p.FuncName(pr[1])
		for _, l := range lens {
			what := sprintf("%sLen(%s) in %s", l.fam, cleanPath(l.arg), ln)
			var sameArg []string
			ok := false
			for _, a := range apps {
				if sameOperand(a, l) {
					sameArg = append(sameArg, a.fam)
					if a.fam == l.fam || (node && a.fam == "tag" && l.fam == "varuint") {
						ok = true
					}
				}
			}
			switch {
			case ok:
				r.OK(ln, instrPos(p, l.call), what, an+" appends the same operand with append"+l.fam)
			case len(sameArg) > 0:
				r.Bad(ln, instrPos(p, l.call), what, sprintf("%s measures the operand with the %s codec but %s appends it with the %s codec", ln, l.fam, an, strings.Join(sameArg, "/")))
			default:
				r.Bad(ln, instrPos(p, l.call), what, an+" never appends this operand")
			}
		}
		var env *intervalEnv
		for _, a := range apps {
			what := sprintf("append%s(%s) in %s", a.fam, cleanPath(a.arg), an)
			found := false
			for _, l := range lens {
				if sameOperand(l, a) && (l.fam == a.fam || (node && a.fam == "tag" && l.fam == "varuint")) {
					found = true
				}
			}
			if found {
				r.OK(an, instrPos(p, a.call), what, ln+" measures the same operand with "+a.fam+"Len")
				continue
			}
			// no length term: must be a single-byte varuint (counted as a constant by the sibling)
			if env == nil {
				env = newIntervalEnv(p, pr[1])
			}
			arg := a.call.Call.Args[len(a.call.Call.Args)-1]
			xr, okr := env.rangeOf(arg, env.ff.At(a.call), map[ssa.Value]bool{}, 0)
			if okr && a.fam == "varuint" && xr.lo.Sign() >= 0 && xr.hi.Cmp(bi(127)) <= 0 {
				r.OK(an, instrPos(p, a.call), what, "operand interval "+xr.String()+" always encodes as one VarUInt byte (counted as a constant by "+ln+")")
			} else {
				r.Bad(an, instrPos(p, a.call), what, sprintf("%s has no %sLen term for this operand and its interval %s is not a guaranteed single byte", ln, a.fam, xr))
			}
		}
	}
	return r
}

// cleanPath strips allocation positions from a path for display and keys.
func cleanPath(p string) string {
	for {
		i := strings.Index(p, "@")
		if i < 0 {
			return p
		}
		j := i + 1
		for j < len(p) && (p[j] >= '0' && p[j] <= '9' || p[j] >= 'a' && p[j] <= 'f' || p[j] == 'x') {
			j++
		}
		p = p[:i] + p[j:]
	}
}

// TabCodec implements TAB-CODEC: the codec family the binary writer uses for
// each field is the one Ion 1.0 prescribes, and the reader uses the mirror
// decoder.
func TabCodec(p *load.Program) *report.RuleResult {
	r := newResult("TAB-CODEC", "the codec families used for each binary field are those Ion 1.0 prescribes: timestamp = VarInt offset, VarUInt calendar fields, Int fraction coefficient (with a VarInt exponent); decimal = VarInt exponent, Int coefficient; int/symbol = UInt magnitude; annotation wrapper and field names = VarUInt; the reader uses the mirror decoders", 10)
	fams := codecFamilies(p)
	type want struct {
		fn    string
		must  []string // families that must be used
		never []string // families that must not be used
		why   string
	}
	table := []want{
		{"appendTimestamp", []string{"varint", "varuint", "int"}, []string{"uint", "bigint"}, "timestamp: offset VarInt, year..second VarUInt, fraction coefficient Int (sign-magnitude)"},
		{"timestampLen", []string{"varint", "varuint", "int"}, []string{"uint", "bigint"}, "timestamp lengths mirror appendTimestamp"},
		{"binaryWriter.WriteDecimal", []string{"varint"}, []string{"varuint", "uint"}, "decimal: exponent VarInt, coefficient Int"},
		{"binaryWriter.WriteInt", []string{"uint"}, []string{"int", "varint", "varuint"}, "int: UInt magnitude, sign in the type code"},
		{"binaryWriter.WriteUint", []string{"uint"}, []string{"int", "varint", "varuint"}, "int: UInt magnitude"},
		{"binaryWriter.WriteSymbol", nil, []string{"int", "varint", "varuint"}, "symbol value: UInt symbol ID"},
		{"binaryWriter.writeSymbolFromID", nil, []string{"int", "varint", "varuint"}, "symbol value: UInt symbol ID"},
		{"binaryWriter.beginValue", []string{"varuint"}, []string{"int", "varint", "uint"}, "field names, annotation lengths and annotation IDs are VarUInt"},
	}
	for _, w := range table {
		fn := p.Func(nil, w.fn)
		if fn == nil {
			if w.must == nil {
				continue // optional helper
			}
			missing(r, w.fn, "function not found")
			continue
		}
		// the function and the steps extracted from it into helpers: unexported functions of the
		// writer files that are neither codec functions nor rows of this table themselves
		rowFn := map[*ssa.Function]bool{}
		for _, w2 := range table {
			if f2 := p.Func(nil, w2.fn); f2 != nil {
				rowFn[f2] = true
			}
		}
		isCodecFn := func(f *ssa.Function) bool {
			for _, pair := range fams {
				if f == pair[0] || f == pair[1] {
					return true
				}
			}
			return false
		}
		used := map[string]bool{}
		for _, g := range helperClosure(p, fn, func(f *ssa.Function) bool {
			return !rowFn[f] && !isCodecFn(f) && ScopeWriter.has(p, f) && (f.Object() == nil || !f.Object().Exported())
		}, 2) {
			lens, apps := codecUses(g, fams)
			for _, u := range append(lens, apps...) {
				used[u.fam] = true
			}
		}
		name := p.FuncName(fn)
		for _, m := range w.must {
			what := "uses the " + m + " codec"
			if used[m] {
				r.OK(name, p.Pos(fn.Pos()), what, w.why)
			} else {
				r.Bad(name, p.Pos(fn.Pos()), what, "Ion 1.0: "+w.why+" — this function does not use the "+m+" codec any more")
			}
		}
		for _, n := range w.never {
			what := "does not use the " + n + " codec"
			if !used[n] {
				r.OK(name, p.Pos(fn.Pos()), what, w.why)
			} else {
				r.Bad(name, p.Pos(fn.Pos()), what, "Ion 1.0: "+w.why+" — a field is encoded with the "+n+" codec, which a conforming decoder reads differently")
			}
		}
	}
	// reader mirror: which primitive decoders each Read* uses
	type rwant struct {
		fn    string
		must  []string
		never []string
		why   string
	}
	rtable := []rwant{
		{"bitstream.ReadTimestamp", []string{"readVarIntLen", "readVarUintLen", "readNsecs"}, nil, "offset VarInt, fields VarUInt, fraction decimal"},
		{"bitstream.readNsecs", []string{"readDecimal"}, nil, "fraction = VarInt exponent + Int coefficient"},
		{"bitstream.readDecimal", []string{"readVarIntLen", "readBigInt"}, []string{"readVarUintLen"}, "exponent VarInt, coefficient Int"},
		{"bitstream.ReadAnnotations", []string{"readVarUintLen"}, []string{"readVarIntLen"}, "annotation IDs VarUInt"},
		{"bitstream.ReadFieldID", []string{"readVarUint"}, []string{"readVarIntLen"}, "field name VarUInt"},
		{"bitstream.ReadInt", []string{"readN"}, []string{"readBigInt", "readVarIntLen", "readVarUintLen"}, "int: an unsigned magnitude of b.len bytes (the sign is in the type code); readBigInt decodes the sign-magnitude Int subfield"},
		{"bitstream.ReadSymbolID", []string{"readN"}, []string{"readBigInt", "readVarIntLen", "readVarUintLen"}, "symbol value: UInt"},
	}
	for _, w := range rtable {
		fn := p.Func(nil, w.fn)
		if fn == nil {
			missing(r, w.fn, "function not found")
			continue
		}
		called := map[string]bool{}
		rrow := map[string]bool{}
		for _, w2 := range rtable {
			rrow[w2.fn[strings.Index(w2.fn, ".")+1:]] = true
		}
		prim := map[string]bool{"readVarUint": true, "readVarUintLen": true, "readVarInt": true, "readVarIntLen": true, "readBigInt": true, "readN": true, "skipVarUint": true, "skipVarUintLen": true}
		for _, g := range helperClosure(p, fn, func(f *ssa.Function) bool {
			return recvTypeName(f) == "bitstream" && !prim[f.Name()] && !rrow[f.Name()] && (f.Object() == nil || !f.Object().Exported())
		}, 2) {
			for _, b := range g.Blocks {
				for _, in := range b.Instrs {
					if c, ok := in.(ssa.CallInstruction); ok {
						if f := c.Common().StaticCallee(); f != nil {
							called[f.Name()] = true
						}
					}
				}
			}
		}
		// the one-result and the with-length spelling of a primitive decode the same field
		for _, pair := range [][2]string{{"readVarUint", "readVarUintLen"}, {"readVarInt", "readVarIntLen"}} {
			if called[pair[0]] || called[pair[1]] {
				called[pair[0]], called[pair[1]] = true, true
			}
		}
		name := p.FuncName(fn)
		for _, m := range w.must {
			if called[m] {
				r.OK(name, p.Pos(fn.Pos()), "decodes with "+m, w.why)
			} else {
				r.Bad(name, p.Pos(fn.Pos()), "decodes with "+m, "Ion 1.0: "+w.why+" — the decoder for this field was replaced")
			}
		}
		for _, n := range w.never {
			if !called[n] {
				r.OK(name, p.Pos(fn.Pos()), "does not decode with "+n, w.why)
			} else {
				r.Bad(name, p.Pos(fn.Pos()), "does not decode with "+n, "Ion 1.0: "+w.why)
			}
		}
	}
	return r
}
