package rules

import (
	"sort"
	"strings"

	"golang.org/x/tools/go/ssa"

	"verif/checker/internal/load"
	"verif/checker/internal/report"
	"verif/checker/internal/ssau"
)

// TabCopyLoop implements TAB-COPYLOOP: the command's copy loop dispatches on
// the reader's type exhaustively and pairs every reader accessor and every
// writer method with the Ion type of its arm.
func TabCopyLoop(p *load.Program) *report.RuleResult {
	r := newResult("TAB-COPYLOOP", "in the command's copy loop (processor.process) every ion.Writer value method is called only where the reader's Type() is the Ion type that method writes, every Reader accessor only where Type() is the type it reads, every Ion type except NoType has a writing arm, and typed nulls are routed to WriteNullType on the IsNull() edge", 20)
	if p.Cmd == nil {
		missing(r, "cmd/ion-go", "package not loaded")
		return r
	}
	var fn *ssa.Function
	for _, f := range p.Funcs {
		if f.Pkg == p.Cmd && f.Name() == "process" && recvTypeName(f) == "processor" {
			fn = f
		}
	}
	if fn == nil {
		missing(r, "processor.process", "not found")
		return r
	}
	typeNames, typeVals := namedConstsOf(p, "Type")
	if len(typeVals) < 13 {
		missing(r, "ion.Type constants", sprintf("found %d", len(typeVals)))
		return r
	}
	writes := map[string][]string{
		"WriteNull": {"NullType"}, "WriteBool": {"BoolType"}, "WriteInt": {"IntType"}, "WriteUint": {"IntType"}, "WriteBigInt": {"IntType"},
		"WriteFloat": {"FloatType"}, "WriteDecimal": {"DecimalType"}, "WriteTimestamp": {"TimestampType"},
		"WriteSymbol": {"SymbolType"}, "WriteSymbolFromString": {"SymbolType"}, "WriteString": {"StringType"},
		"WriteClob": {"ClobType"}, "WriteBlob": {"BlobType"}, "BeginList": {"ListType"}, "BeginSexp": {"SexpType"}, "BeginStruct": {"StructType"},
		"EndList": {"ListType"}, "EndSexp": {"SexpType"}, "EndStruct": {"StructType"},
	}
	reads := map[string][]string{
		"BoolValue": {"BoolType"}, "IntSize": {"IntType"}, "IntValue": {"IntType"}, "Int64Value": {"IntType"}, "BigIntValue": {"IntType"},
		"FloatValue": {"FloatType"}, "DecimalValue": {"DecimalType"}, "TimestampValue": {"TimestampType"}, "SymbolValue": {"SymbolType"},
		"StringValue": {"StringType"}, "ByteValue": {"ClobType", "BlobType"}, "StepIn": {"ListType", "SexpType", "StructType"}, "StepOut": {"ListType", "SexpType", "StructType"},
	}
	// the tracked value: in.Type()
	path, n := dispatchValue(fn, constOfType("Type"))
	if n < 10 {
		missing(r, "switch on in.Type() in processor.process", sprintf("only %d type constants compared", n))
		return r
	}
	ef := ssau.TrackEnum(fn, matchPath(path))
	ff := ssau.ComputeFacts(fn, nil)
	name := p.FuncName(fn)
	written := map[string]bool{}
	nullRouted := false
	for _, b := range fn.Blocks {
		for _, in := range b.Instrs {
			c, ok := in.(ssa.CallInstruction)
			if !ok {
				continue
			}
			if !c.Common().IsInvoke() {
				// an arm handed to a helper of the command (processContainer(in, typ)) that writes:
				// the types that reach the call are written there
				if g := load.Unwrap(c.Common().StaticCallee()); g != nil && ScopeCmd.has(p, g) && g != fn {
					seenG := map[*ssa.Function]bool{}
					var writesSomething func(h *ssa.Function, d int) bool
					writesSomething = func(h *ssa.Function, d int) bool {
						if h == nil || seenG[h] || d > 3 || len(h.Blocks) == 0 {
							return false
						}
						seenG[h] = true
						for _, hb := range h.Blocks {
							for _, hin := range hb.Instrs {
								hc, ok := hin.(ssa.CallInstruction)
								if !ok {
									continue
								}
								if hc.Common().IsInvoke() {
									if ssau.TypeName(hc.Common().Value.Type()) == "Writer" && writes[hc.Common().Method.Name()] != nil {
										return true
									}
									continue
								}
								if k := load.Unwrap(hc.Common().StaticCallee()); k != nil && ScopeCmd.has(p, k) && writesSomething(k, d+1) {
									return true
								}
							}
						}
						return false
					}
					if writesSomething(g, 0) {
						if vs, reach := ef.At(in); reach && vs.Known() {
							for _, k := range vs.Values() {
								written[k] = true
							}
						}
					}
				}
				continue
			}
			m := c.Common().Method.Name()
			iface := ssau.TypeName(c.Common().Value.Type())
			var want []string
			kind := ""
			switch {
			case iface == "Writer" && writes[m] != nil:
				want, kind = writes[m], "Writer."+m
			case iface == "Reader" && reads[m] != nil:
				want, kind = reads[m], "Reader."+m
			case iface == "Writer" && m == "WriteNullType":
				fs := ff.At(in)
				isNull := false
				for f := range fs {
					if f.Kind == "true" && strings.HasSuffix(f.Path, ".IsNull()") {
						isNull = true
					}
				}
				if isNull {
					nullRouted = true
					r.OK(name, instrPos(p, in), "Writer.WriteNullType", "called on the IsNull() edge")
				} else {
					r.Bad(name, instrPos(p, in), "Writer.WriteNullType", "called where the current value is not known to be null")
				}
				continue
			default:
				continue
			}
			vs, reach := ef.At(in)
			if !reach {
				continue
			}
			what := kind + " under the reader's Type()"
			// WriteNull is also legal on the IsNull edge for NullType
			allowed := map[string]bool{}
			for _, w := range want {
				allowed[sprintf("%d", typeVals[w])] = true
			}
			if !vs.Known() {
				r.Bad(name, instrPos(p, in), what, "called where the reader's type has not been established (excluded only: "+strings.Join(vs.Excluded(), ",")+")")
				continue
			}
			var bad []string
			for _, k := range vs.Values() {
				if !allowed[k] {
					kv, _ := atoi64(k)
					bad = append(bad, typeNames[kv])
				} else if iface == "Writer" {
					written[k] = true
				}
			}
			if len(bad) == 0 {
				r.OK(name, instrPos(p, in), what, "type set here: "+strings.Join(want, "/"))
			} else {
				sort.Strings(bad)
				r.Bad(name, instrPos(p, in), what, "reachable with the reader positioned on "+strings.Join(bad, ", ")+": the value is read or written as another Ion type")
			}
		}
	}
	for tn, tv := range typeVals {
		if tn == "NoType" {
			continue
		}
		what := "arm for ion." + tn
		if written[sprintf("%d", tv)] {
			r.OK(name, p.Pos(fn.Pos()), what, "some Writer method is called under it")
		} else {
			r.Bad(name, p.Pos(fn.Pos()), what, "no Writer method is called with the reader positioned on this type: such values are dropped from the output")
		}
	}
	if nullRouted {
		r.OK(name, p.Pos(fn.Pos()), "typed nulls", "routed to WriteNullType")
	} else {
		r.Bad(name, p.Pos(fn.Pos()), "typed nulls", "no WriteNullType call on the IsNull() edge: null.int and friends lose their type or crash the accessors")
	}
	return r
}

// NilMap implements NIL-MAP: a map-typed struct field that is written with
// m[k] = v must be initialised in every composite literal of the struct (a nil
// map panics on assignment).
func NilMap(sc Scope, min int) func(p *load.Program) *report.RuleResult {
	return func(p *load.Program) *report.RuleResult {
		r := newResult("NIL-MAP", "in "+sc.Name+": every struct field of map type that some function updates (m[k] = v) is given a non-nil map in every composite literal of the struct, or assigned one before the struct leaves the function that builds it; a nil map panics on the first assignment", min)
		// fields updated
		type fkey struct{ typ, field string }
		updated := map[fkey]string{}
		for _, fn := range p.Funcs {
			if !sc.has(p, fn) {
				continue
			}
			for _, b := range fn.Blocks {
				for _, in := range b.Instrs {
					mu, ok := in.(*ssa.MapUpdate)
					if !ok {
						continue
					}
					if t, f, _, ok := fieldLoad(mu.Map); ok {
						updated[fkey{t, f}] = p.FuncName(fn)
					}
				}
			}
		}
		var keys []fkey
		for k := range updated {
			keys = append(keys, k)
		}
		sort.Slice(keys, func(i, j int) bool { return keys[i].typ+keys[i].field < keys[j].typ+keys[j].field })
		for _, k := range keys {
			// every allocation of the struct: stores to the field before escape
			nLit := 0
			for _, fn := range sortedFuncs(p) {
				if p.InTest(fn) || !p.InModule(fn) {
					continue
				}
				for _, b := range fn.Blocks {
					for _, in := range b.Instrs {
						al, ok := in.(*ssa.Alloc)
						if !ok || ssau.TypeName(al.Type()) != k.typ {
							continue
						}
						if _, isStruct := ssau.Deref(al.Type()).Underlying().(interface{ NumFields() int }); !isStruct {
							continue
						}
						if al.Comment != "complit" && !al.Heap {
							continue
						}
						nLit++
						what := sprintf("%s.%s in a %s built here", k.typ, k.field, k.typ)
						init := false
						for _, u := range *al.Referrers() {
							fa, ok := u.(*ssa.FieldAddr)
							if !ok {
								continue
							}
							if _, f, ok := ssau.FieldOf(fa); !ok || f != k.field {
								continue
							}
							for _, u2 := range *fa.Referrers() {
								if st, ok := u2.(*ssa.Store); ok && !ssau.IsNilConst(st.Val) {
									init = true
								}
							}
						}
						if init {
							r.OK(p.FuncName(fn), instrPos(p, al), what, "a map is stored into the field")
						} else {
							r.Bad(p.FuncName(fn), instrPos(p, al), what, "the field is left nil but "+updated[k]+" assigns to its entries: assignment to entry in nil map")
						}
					}
				}
			}
			if nLit == 0 {
				r.Bad(k.typ, "-", k.typ+"."+k.field, "no composite literal of the struct found although "+updated[k]+" updates the map")
			}
		}
		return r
	}
}
