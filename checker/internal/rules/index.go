package rules

import (
	"go/token"
	"go/types"
	"strings"

	"golang.org/x/tools/go/ssa"

	"verif/checker/internal/load"
	"verif/checker/internal/report"
	"verif/checker/internal/ssau"
)

// NumIndex implements NUM-INDEX: an index into a slice, string or array on the
// input side is provably inside the bounds: by the loop that produces it, by a
// dominating comparison with the length of the same object, or by its interval
// against a constant length.
func NumIndex(sc Scope, resid []residual, min int) func(p *load.Program) *report.RuleResult {
	return func(p *load.Program) *report.RuleResult {
		r := newResult("NUM-INDEX", "every index into a slice, string or array in the "+sc.Name+" is inside the bounds by construction (range loop), by a dominating comparison with the length of the same object, or by the interval of the index against a known length; an index that can leave the bounds is a panic on some input", min)
		used := map[int]bool{}
		for _, fn := range sortedFuncs(p) {
			if !sc.has(p, fn) || len(fn.Blocks) == 0 {
				continue
			}
			var env *intervalEnv
			name := p.FuncName(fn)
			for _, b := range fn.Blocks {
				for _, in := range b.Instrs {
					var x, idx ssa.Value
					switch v := in.(type) {
					case *ssa.IndexAddr:
						x, idx = v.X, v.Index
					case *ssa.Index:
						x, idx = v.X, v.Index
					case *ssa.Lookup:
						if _, isStr := v.X.Type().Underlying().(*types.Basic); !isStr {
							continue
						}
						x, idx = v.X, v.Index
					default:
						continue
					}
					if env == nil {
						env = newIntervalEnv(p, fn)
					}
					env.notes = map[string]bool{}
					facts := env.ff.At(in)
					what := sprintf("%s[%s]", cleanPath(stripConv(ssau.Path(x))), describeOperand(idx))
					by := indexInBounds(env, x, idx, facts)
					if by != "" {
						r.OK(name, instrPos(p, in), what, by)
						continue
					}
					if i := matchResidual(resid, name, what); i >= 0 {
						used[i] = true
						r.Add(report.Obligation{Func: name, Pos: instrPos(p, in), What: what, Status: report.Discharged, By: "residual table: " + resid[i].reason})
						continue
					}
					ir, _ := env.rangeOf(idx, facts, map[ssa.Value]bool{}, 0)
					r.Bad(name, instrPos(p, in), what, sprintf("index interval %s is not known to be below the length: an index out of range panics", ir))
				}
			}
		}
		for i, rs := range resid {
			r.Suppressions = append(r.Suppressions, report.Suppression{Rule: "NUM-INDEX", Symbol: rs.fn + " " + rs.conv, Reason: rs.reason, Used: used[i]})
		}
		return r
	}
}

// lenPathsOf returns the canonical paths that denote len(x).
func lenPathsOf(x ssa.Value) []string {
	xp := ssau.Path(x)
	return []string{"len(" + xp + ")", "len(" + strings.TrimPrefix(xp, "&") + ")"}
}

func indexInBounds(env *intervalEnv, x, idx ssa.Value, facts ssau.FactSet) string {
	// constant length (array or pointer to array)
	var constLen int64 = -1
	switch t := ssau.Deref(x.Type()).Underlying().(type) {
	case *types.Array:
		constLen = t.Len()
	}
	ir, ok := env.rangeOf(idx, facts, map[ssa.Value]bool{}, 0)
	if ok && constLen >= 0 && ir.lo.Sign() >= 0 && ir.hi.Cmp(bi(constLen-1)) <= 0 {
		return "index interval " + ir.String() + " inside the array length " + sprintf("%d", constLen)
	}
	// make([]T, n) / literal with known length and small interval
	if ms, isMake := x.(*ssa.MakeSlice); isMake {
		if k, okk := ssau.ConstInt(ms.Len); okk && ok && ir.lo.Sign() >= 0 && ir.hi.Cmp(bi(k-1)) <= 0 {
			return "index interval inside the constant length of the slice made here"
		}
	}
	// range loop over the same object
	if isRangeIndexOf(idx, x) {
		return "index produced by ranging over the same object"
	}
	// dominating comparison idx < len(x)  (possibly through conversions)
	ip := stripConv(ssau.Path(idx))
	nonNeg := ok && ir.lo.Sign() >= 0
	for f := range facts {
		a, b := stripConv(f.Path), stripConv(f.Arg)
		for _, lp := range lenPathsOf(x) {
			lp = stripConv(lp)
			if a == ip && b == lp && f.Kind == "lt" && nonNeg {
				return "dominated by index < len of the same object"
			}
			if a == lp && b == ip && f.Kind == "gt" && nonNeg {
				return "dominated by len of the same object > index"
			}
			// len(x) > k / len(x) >= k+1 with constant index k
			if k, isConst := ssau.ConstInt(idx); isConst && a == lp && strings.HasPrefix(b, "k:") {
				kv, _ := atoi64(strings.TrimPrefix(b, "k:"))
				if (f.Kind == "gt" && kv >= k) || (f.Kind == "ge" && kv >= k+1) || (f.Kind == "eq" && kv >= k+1) {
					return "dominated by a comparison of the length with a constant above the constant index"
				}
				if f.Kind == "ne" && kv == 0 && k == 0 {
					return "dominated by len != 0"
				}
			}
		}
	}
	// idx = len(x) - k under len(x) >= k  (last element)
	if bo, isB := idx.(*ssa.BinOp); isB && bo.Op == token.SUB {
		if k, isConst := ssau.ConstInt(bo.Y); isConst && k >= 1 {
			for _, lp := range lenPathsOf(x) {
				if stripConv(ssau.Path(bo.X)) == stripConv(lp) {
					for f := range facts {
						if stripConv(f.Path) == stripConv(lp) && strings.HasPrefix(f.Arg, "k:") {
							kv, _ := atoi64(strings.TrimPrefix(f.Arg, "k:"))
							if (f.Kind == "gt" && kv >= k-1) || (f.Kind == "ge" && kv >= k) || (f.Kind == "ne" && kv == 0 && k == 1) {
								return "len minus a constant, under a dominating lower bound on the length"
							}
						}
					}
				}
			}
		}
	}
	return ""
}

// isRangeIndexOf: idx is the index of a range loop over x (go/ssa lowers
// `for i := range x` to a phi "rangeindex" compared with len(x)).
func isRangeIndexOf(idx, x ssa.Value) bool {
	bo, ok := idx.(*ssa.BinOp)
	if !ok || bo.Op != token.ADD {
		return false
	}
	ph, ok := bo.X.(*ssa.Phi)
	if !ok || ph.Comment != "rangeindex" {
		return false
	}
	// the loop condition: idx < len(x')
	for _, u := range *bo.Referrers() {
		cmp, ok := u.(*ssa.BinOp)
		if !ok || cmp.Op != token.LSS {
			continue
		}
		if c, ok := cmp.Y.(*ssa.Call); ok {
			if b, ok := c.Call.Value.(*ssa.Builtin); ok && b.Name() == "len" {
				if stripConv(ssau.Path(c.Call.Args[0])) == stripConv(ssau.Path(x)) || c.Call.Args[0] == x {
					return true
				}
			}
		}
	}
	return false
}
