package rules

import (
	"go/token"
	"go/types"
	"math/big"
	"strings"

	"golang.org/x/tools/go/ssa"

	"verif/checker/internal/load"
	"verif/checker/internal/report"
	"verif/checker/internal/ssau"
)

// NumIndex implements NUM-INDEX: an index into a slice, string or array on the
// input side is provably inside the bounds: by the loop that produces it, by a
// dominating comparison with the length of the same object, or by its interval
// against a constant length.
func NumIndex(sc Scope, resid []residual, min int) func(p *load.Program) *report.RuleResult {
	return numIndex(sc, resid, min, false)
}

// NumSlice is NumIndex for the bounds of slice expressions x[a:b].
func NumSlice(sc Scope, resid []residual, min int) func(p *load.Program) *report.RuleResult {
	return numIndex(sc, resid, min, true)
}

func numIndex(sc Scope, resid []residual, min int, sliceMode bool) func(p *load.Program) *report.RuleResult {
	return func(p *load.Program) *report.RuleResult {
		id, doc := "NUM-INDEX", "every index into a slice, string or array in the "+sc.Name+" is inside the bounds by construction (range loop), by a dominating comparison with the length of the same object, by a length contract of the callee that produced the object, by what every call site establishes, or by the interval of the index against a known length; an index that can leave the bounds is a panic on some input"
		if sliceMode {
			id, doc = "NUM-SLICE", "every bound of a slice expression x[a:b] in the "+sc.Name+" is between 0 and the length of x by the same arguments as NUM-INDEX (known length, dominating comparison with len of the same object, position of a separator found in the same string, what every call site establishes); a bound out of range is a panic on some input"
		}
		r := newResult(id, doc, min)
		used := map[int]bool{}
		for _, fn := range sortedFuncs(p) {
			if !sc.has(p, fn) || len(fn.Blocks) == 0 {
				continue
			}
			// formatting code (a String() method and what only it calls) works on text this module
			// produced, not on input: out of the scope of the input-side clause
			if formatOnly(p, fn, 0) {
				continue
			}
			var env *intervalEnv
			name := p.FuncName(fn)
			for _, b := range fn.Blocks {
				for _, in := range b.Instrs {
					var x, idx ssa.Value
					switch v := in.(type) {
					case *ssa.IndexAddr:
						if sliceMode {
							continue
						}
						x, idx = v.X, v.Index
					case *ssa.Index:
						if sliceMode {
							continue
						}
						x, idx = v.X, v.Index
					case *ssa.Lookup:
						if _, isStr := v.X.Type().Underlying().(*types.Basic); !isStr || sliceMode {
							continue
						}
						x, idx = v.X, v.Index
					case *ssa.Slice:
						if !sliceMode {
							continue
						}
						if env == nil {
							env = newIntervalEnv(p, fn)
						}
						env.at = in
						facts := env.ff.At(in)
						for _, bnd := range []struct {
							v    ssa.Value
							name string
						}{{v.Low, "low"}, {v.High, "high"}} {
							if bnd.v == nil {
								continue
							}
							what := sprintf("%s[%s bound %s]", cleanPath(stripConv(ssau.Path(v.X))), bnd.name, describeOperand(bnd.v))
							if by := sliceBoundOK(env, v.X, bnd.v, facts); by != "" {
								r.OK(name, instrPos(p, in), what, by)
							} else if i := matchResidual(resid, name, what); i >= 0 {
								used[i] = true
								r.Add(report.Obligation{Func: name, Pos: instrPos(p, in), What: what, Status: report.Discharged, By: "residual table: " + resid[i].reason})
							} else {
								br, _ := env.rangeOf(bnd.v, facts, map[ssa.Value]bool{}, 0)
								r.Bad(name, instrPos(p, in), what, sprintf("slice bound interval %s is not known to be at most the length: a bound out of range panics", br))
							}
						}
						continue
					default:
						continue
					}
					if env == nil {
						env = newIntervalEnv(p, fn)
					}
					env.notes = map[string]bool{}
					env.at = in
					facts := env.ff.At(in)
					what := sprintf("%s[%s]", cleanPath(stripConv(ssau.Path(x))), describeOperand(idx))
					by := indexInBounds(env, x, idx, facts)
					if by != "" {
						r.OK(name, instrPos(p, in), what, by)
						continue
					}
					if i := matchResidual(resid, name, what); i >= 0 {
						used[i] = true
						r.Add(report.Obligation{Func: name, Pos: instrPos(p, in), What: what, Status: report.Discharged, By: "residual table: " + resid[i].reason})
						continue
					}
					ir, _ := env.rangeOf(idx, facts, map[ssa.Value]bool{}, 0)
					r.Bad(name, instrPos(p, in), what, sprintf("index interval %s is not known to be below the length: an index out of range panics", ir))
				}
			}
		}
		for i, rs := range resid {
			r.Suppressions = append(r.Suppressions, report.Suppression{Rule: id, Symbol: rs.fn + " " + rs.conv, Reason: rs.reason, Used: used[i]})
		}
		return r
	}
}

// lenPathsOf returns the canonical paths that denote len(x).
func lenPathsOf(x ssa.Value) []string {
	xp := ssau.Path(x)
	return []string{"len(" + xp + ")", "len(" + strings.TrimPrefix(xp, "&") + ")"}
}

// knownLen returns a lower bound of len(x) that holds at the point where facts
// hold, and how it is known ("" = nothing beyond 0).
func knownLen(env *intervalEnv, x ssa.Value, facts ssau.FactSet, depth int) (*big.Int, string) {
	if depth > 4 {
		return bi(0), ""
	}
	switch t := ssau.Deref(x.Type()).Underlying().(type) {
	case *types.Array:
		return bi(t.Len()), "array length"
	}
	switch v := x.(type) {
	case *ssa.Slice:
		// s := arr[:]  /  literal []T{...}
		if v.Low == nil && v.High == nil {
			if at, ok := ssau.Deref(v.X.Type()).Underlying().(*types.Array); ok {
				return bi(at.Len()), "length of the array literal it slices"
			}
		}
	case *ssa.MakeSlice:
		if k, ok := ssau.ConstInt(v.Len); ok {
			return bi(k), "constant make length"
		}
		if lr, ok := env.rangeOf(v.Len, env.ff.At(v), map[ssa.Value]bool{}, 0); ok && lr.lo.Sign() > 0 {
			return lr.lo, "lower bound of the length it was made with"
		}
	case *ssa.Const:
		if s, ok := ssau.ConstString(v); ok {
			return bi(int64(len(s))), "constant string"
		}
	case *ssa.UnOp:
		// load of a package-level variable initialised once with a constant / literal
		if g, ok := v.X.(*ssa.Global); ok && v.Op == token.MUL {
			if n, ok := globalInitLen(env.p, g); ok {
				return bi(n), "length of the package-level constant table"
			}
		}
	case *ssa.Call:
		if f := v.Call.StaticCallee(); f != nil && f.Pkg != nil && f.Pkg.Pkg.Path() == "math/big" && (f.Name() == "String" || f.Name() == "Text") {
			return bi(1), "the decimal text of a big.Int has at least one character"
		}
	case *ssa.Extract:
		if c, ok := v.Tuple.(*ssa.Call); ok && v.Index == 0 {
			if n, why := resultLen(env, c, facts); why != "" {
				return n, why
			}
		}
	case *ssa.Parameter:
		// every module call site passes a value of known length
		if n, ok := paramLenFromCallers(env, v); ok {
			return bi(n), "every caller passes a slice of that length"
		}
	}
	// s != "" on the same path
	xp := stripConv(ssau.Path(x))
	for f := range facts {
		if f.Kind == "ne" && stripConv(f.Path) == xp && f.Arg == `k:""` {
			return bi(1), "dominated by a comparison with the empty string"
		}
	}
	// facts on len(x)
	r := ival{bi(0), maxLen()}
	for _, lp := range lenPathsOf(x) {
		r = env.refinePath(stripConv(lp), r, facts)
	}
	if r.lo.Sign() > 0 {
		return r.lo, "dominating comparison(s) of the length with constants"
	}
	return bi(0), ""
}

// globalInitLen: the package-level variable is stored exactly once, in init,
// with a constant string or an array/slice literal of known length.
func globalInitLen(p *load.Program, g *ssa.Global) (int64, bool) {
	if p == nil || g.Pkg == nil {
		return 0, false
	}
	init := g.Pkg.Func("init")
	if init == nil {
		return 0, false
	}
	n, found := int64(0), 0
	for _, b := range init.Blocks {
		for _, in := range b.Instrs {
			st, ok := in.(*ssa.Store)
			if !ok || st.Addr != ssa.Value(g) {
				continue
			}
			found++
			if s, ok := ssau.ConstString(st.Val); ok {
				n = int64(len(s))
			} else if sl, ok := st.Val.(*ssa.Slice); ok {
				if at, ok := ssau.Deref(sl.X.Type()).Underlying().(*types.Array); ok && sl.Low == nil && sl.High == nil {
					n = at.Len()
				} else {
					return 0, false
				}
			} else {
				return 0, false
			}
		}
	}
	// written elsewhere?
	if found != 1 {
		return 0, false
	}
	for _, fn := range p.Funcs {
		if fn == init {
			continue
		}
		for _, b := range fn.Blocks {
			for _, in := range b.Instrs {
				if st, ok := in.(*ssa.Store); ok && st.Addr == ssa.Value(g) {
					return 0, false
				}
			}
		}
	}
	return n, true
}

var paramLenBusy = map[*ssa.Parameter]bool{}

// paramLenFromCallers: smallest known length over all module call sites.
func paramLenFromCallers(env *intervalEnv, prm *ssa.Parameter) (int64, bool) {
	fn := prm.Parent()
	if fn == nil || env.p == nil || paramLenBusy[prm] || (fn.Object() != nil && fn.Object().Exported()) {
		return 0, false
	}
	idx := -1
	for i, q := range fn.Params {
		if q == prm {
			idx = i
		}
	}
	if idx < 0 {
		return 0, false
	}
	paramLenBusy[prm] = true
	defer delete(paramLenBusy, prm)
	min := int64(-1)
	sites := 0
	for _, caller := range env.p.Funcs {
		var ce *intervalEnv
		for _, b := range caller.Blocks {
			for _, in := range b.Instrs {
				c, ok := in.(ssa.CallInstruction)
				if !ok || c.Common().StaticCallee() != fn {
					continue
				}
				sites++
				if ce == nil {
					ce = newIntervalEnv(env.p, caller)
				}
				l, why := knownLen(ce, c.Common().Args[idx], ce.ff.At(in), 1)
				if why == "" || !l.IsInt64() {
					return 0, false
				}
				if min < 0 || l.Int64() < min {
					min = l.Int64()
				}
			}
		}
	}
	if sites == 0 || min < 0 {
		return 0, false
	}
	return min, true
}

func indexInBounds(env *intervalEnv, x, idx ssa.Value, facts ssau.FactSet) string {
	ir, ok := env.rangeOf(idx, facts, map[ssa.Value]bool{}, 0)
	if kl, why := knownLen(env, x, facts, 0); ok && why != "" && ir.lo.Sign() >= 0 && ir.hi.Cmp(kl) < 0 {
		return "index interval " + ir.String() + " below the length (at least " + kl.String() + ": " + why + ")"
	}
	// make([]T, n) / literal with known length and small interval
	if ms, isMake := x.(*ssa.MakeSlice); isMake {
		if k, okk := ssau.ConstInt(ms.Len); okk && ok && ir.lo.Sign() >= 0 && ir.hi.Cmp(bi(k-1)) <= 0 {
			return "index interval inside the constant length of the slice made here"
		}
	}
	// x = make([]T, idx+k) with k >= 1
	if ms, isMake := x.(*ssa.MakeSlice); isMake {
		if bo, okb := ms.Len.(*ssa.BinOp); okb && bo.Op == token.ADD {
			if k, okk := ssau.ConstInt(bo.Y); okk && k >= 1 && stripConv(ssau.Path(bo.X)) == stripConv(ssau.Path(idx)) && ok && ir.lo.Sign() >= 0 {
				return "the slice was made with this index plus a positive constant as its length"
			}
		}
	}
	// x, err := Peek(idx+1) with err == nil
	if ex, isEx := x.(*ssa.Extract); isEx && ex.Index == 0 {
		if c, okc := ex.Tuple.(*ssa.Call); okc {
			if f := c.Call.StaticCallee(); f != nil && f.Pkg != nil && f.Pkg.Pkg.Path() == "bufio" && f.Name() == "Peek" && facts.Has("nil", ssau.Path(c)+"#1", "") {
				if bo, okb := c.Call.Args[1].(*ssa.BinOp); okb && bo.Op == token.ADD {
					if k, okk := ssau.ConstInt(bo.Y); okk && k >= 1 && stripConv(ssau.Path(bo.X)) == stripConv(ssau.Path(idx)) {
						// Peek(negative) fails, so idx+1 >= 1 whenever err == nil
						return "Peek(index+1) returned no error, so index+1 bytes are there"
					}
				}
			}
		}
	}
	// descending loop: for i := len(x)-1; i >= 0; i--
	if ph, isPhi := idx.(*ssa.Phi); isPhi && len(ph.Edges) == 2 && ok && ir.lo.Sign() >= 0 {
		desc := 0
		for _, ed := range ph.Edges {
			bo, okb := ed.(*ssa.BinOp)
			if !okb || bo.Op != token.SUB {
				continue
			}
			if k, okk := ssau.ConstInt(bo.Y); okk && k == 1 {
				if bo.X == ssa.Value(ph) {
					desc++
				} else {
					for _, lp := range lenPathsOf(x) {
						if stripConv(ssau.Path(bo.X)) == stripConv(lp) {
							desc++
						}
					}
				}
			}
		}
		if desc == 2 {
			return "descending loop from len-1 with a dominating index >= 0 test"
		}
	}
	// both the indexed object and the index are parameters: every call site establishes the bound
	if why := callersEstablishIndex(env, x, idx); why != "" {
		return why
	}
	// x = make([]T, len(y)) indexed by the range index over y (parallel slice filled in one loop)
	if ms, isMake := x.(*ssa.MakeSlice); isMake {
		if lc, okc := ms.Len.(*ssa.Call); okc {
			if b, okb := lc.Call.Value.(*ssa.Builtin); okb && b.Name() == "len" && isRangeIndexOf(idx, lc.Call.Args[0]) {
				return "the slice was made with the length of the object whose range loop produces the index"
			}
		}
	}
	// x = make([]T, n) indexed by a value with a dominating comparison idx < n (same expression, e.g. len(y))
	if ms, isMake := x.(*ssa.MakeSlice); isMake && ok && ir.lo.Sign() >= 0 {
		lp := stripConv(ssau.Path(ms.Len))
		ip := stripConv(ssau.Path(idx))
		if lp != "" && !ssau.IsUnique(lp) {
			for f := range facts {
				if (f.Kind == "lt" && stripConv(f.Path) == ip && stripConv(f.Arg) == lp) || (f.Kind == "gt" && stripConv(f.Path) == lp && stripConv(f.Arg) == ip) {
					return "the slice was made with length " + cleanPath(lp) + " and a dominating comparison keeps the index below that same expression"
				}
			}
		}
	}
	// idx = base + k1 with a dominating  base + k2 <= len(x)  (k2 > k1)  or  base + k2 < len(x)  (k2 >= k1)
	{
		base, k1 := idx, int64(0)
		if bo, okb := idx.(*ssa.BinOp); okb && bo.Op == token.ADD {
			if k, okk := ssau.ConstInt(bo.Y); okk && k >= 0 {
				base, k1 = bo.X, k
			}
		}
		br, okr := env.rangeOf(base, facts, map[ssa.Value]bool{}, 0)
		bp := stripConv(ssau.Path(base))
		if okr && br.lo.Sign() >= 0 {
			for f := range facts {
				a, b := stripConv(f.Path), stripConv(f.Arg)
				for _, lp := range lenPathsOf(x) {
					lp = stripConv(lp)
					for k2 := k1; k2 <= k1+8; k2++ {
						shifted := sprintf("(%s+k:%d)", bp, k2)
						if a == shifted && b == lp && ((f.Kind == "le" && k2 > k1) || f.Kind == "lt") {
							return "dominated by index plus a constant within the length of the same object"
						}
						if a == lp && b == shifted && ((f.Kind == "ge" && k2 > k1) || f.Kind == "gt") {
							return "dominated by index plus a constant within the length of the same object"
						}
					}
				}
			}
		}
	}
	// range loop over the same object
	if isRangeIndexOf(idx, x) {
		return "index produced by ranging over the same object"
	}
	// dominating comparison idx < len(x)  (possibly through conversions)
	ip := stripConv(ssau.Path(idx))
	nonNeg := ok && ir.lo.Sign() >= 0
	for f := range facts {
		a, b := stripConv(f.Path), stripConv(f.Arg)
		for _, lp := range lenPathsOf(x) {
			lp = stripConv(lp)
			if a == ip && b == lp && f.Kind == "lt" && nonNeg {
				return "dominated by index < len of the same object"
			}
			if a == lp && b == ip && f.Kind == "gt" && nonNeg {
				return "dominated by len of the same object > index"
			}
			// len(x) > k / len(x) >= k+1 with constant index k
			if k, isConst := ssau.ConstInt(idx); isConst && a == lp && strings.HasPrefix(b, "k:") {
				kv, _ := atoi64(strings.TrimPrefix(b, "k:"))
				if (f.Kind == "gt" && kv >= k) || (f.Kind == "ge" && kv >= k+1) || (f.Kind == "eq" && kv >= k+1) {
					return "dominated by a comparison of the length with a constant above the constant index"
				}
				if f.Kind == "ne" && kv == 0 && k == 0 {
					return "dominated by len != 0"
				}
			}
		}
	}
	// idx = b - k with k >= 1, b >= k and b <= len(x)   (1-based ID to 0-based index)
	if bo, isB := idx.(*ssa.BinOp); isB && bo.Op == token.SUB {
		if k, isConst := ssau.ConstInt(bo.Y); isConst && k >= 1 {
			br, okb := env.rangeOf(bo.X, facts, map[ssa.Value]bool{}, 0)
			bp := stripConv(ssau.Path(bo.X))
			if okb && br.lo.Cmp(bi(k)) >= 0 {
				for f := range facts {
					a, b := stripConv(f.Path), stripConv(f.Arg)
					for _, lp := range lenPathsOf(x) {
						lp = stripConv(lp)
						if (a == bp && b == lp && (f.Kind == "le" || f.Kind == "lt")) || (a == lp && b == bp && (f.Kind == "ge" || f.Kind == "gt")) {
							return "a 1-based value known to be at least " + sprintf("%d", k) + " and at most the length, minus " + sprintf("%d", k)
						}
					}
				}
			}
		}
	}
	// idx = len(x) - k under len(x) >= k  (last element)
	if bo, isB := idx.(*ssa.BinOp); isB && bo.Op == token.SUB {
		if k, isConst := ssau.ConstInt(bo.Y); isConst && k >= 1 {
			for _, lp := range lenPathsOf(x) {
				if stripConv(ssau.Path(bo.X)) == stripConv(lp) {
					for f := range facts {
						if stripConv(f.Path) == stripConv(lp) && strings.HasPrefix(f.Arg, "k:") {
							kv, _ := atoi64(strings.TrimPrefix(f.Arg, "k:"))
							if (f.Kind == "gt" && kv >= k-1) || (f.Kind == "ge" && kv >= k) || (f.Kind == "ne" && kv == 0 && k == 1) {
								return "len minus a constant, under a dominating lower bound on the length"
							}
						}
					}
				}
			}
		}
	}
	return ""
}

// isRangeIndexOf: idx is the index of a range loop over x (go/ssa lowers
// `for i := range x` to a phi "rangeindex" compared with len(x)).
func isRangeIndexOf(idx, x ssa.Value) bool {
	bo, ok := idx.(*ssa.BinOp)
	if !ok || bo.Op != token.ADD {
		return false
	}
	ph, ok := bo.X.(*ssa.Phi)
	if !ok || ph.Comment != "rangeindex" {
		return false
	}
	// the loop condition: idx < len(x')
	for _, u := range *bo.Referrers() {
		cmp, ok := u.(*ssa.BinOp)
		if !ok || cmp.Op != token.LSS {
			continue
		}
		if c, ok := cmp.Y.(*ssa.Call); ok {
			if b, ok := c.Call.Value.(*ssa.Builtin); ok && b.Name() == "len" {
				if stripConv(ssau.Path(c.Call.Args[0])) == stripConv(ssau.Path(x)) || c.Call.Args[0] == x {
					return true
				}
			}
		}
	}
	return false
}

// resultLen: the length of result #0 of a call when its error result is known
// to be nil: bufio.Reader.Peek(n) returns exactly n bytes; a module function
// whose every successful return establishes len(result) == parameter (readN)
// returns that many.
func resultLen(env *intervalEnv, c *ssa.Call, facts ssau.FactSet) (*big.Int, string) {
	f := c.Call.StaticCallee()
	if f == nil {
		return nil, ""
	}
	// the error result must be known nil here
	res := f.Signature.Results()
	ei := res.Len() - 1
	if ei < 1 || !ssau.IsErrorType(res.At(ei).Type()) {
		return nil, ""
	}
	if !facts.Has("nil", ssau.Path(c)+sprintf("#%d", ei), "") {
		return nil, ""
	}
	var nArg ssa.Value
	why := ""
	switch {
	case f.Pkg != nil && f.Pkg.Pkg.Path() == "bufio" && f.Name() == "Peek" && len(c.Call.Args) == 2:
		nArg, why = c.Call.Args[1], "bufio.Reader.Peek(n) returns n bytes when it returns no error"
	case env.p != nil && env.p.InModule(f):
		if pi := lenEqualsParam(env.p, f); pi >= 0 && pi < len(c.Call.Args) {
			nArg, why = c.Call.Args[pi], "every successful return of "+env.p.FuncName(f)+" establishes len(result) == its length parameter"
		}
	}
	if nArg == nil {
		return nil, ""
	}
	// the interval of the length argument, evaluated where the call is made
	// and refined by what is known now about the same (unchanged) value
	nr, ok := env.rangeOf(nArg, env.ff.At(c), map[ssa.Value]bool{}, 0)
	if !ok {
		return nil, ""
	}
	// what is known now about the same value: always usable for a pure SSA
	// value; for a value loaded from memory only if nothing on the way from the
	// call may have written that memory
	if nr2, ok2 := env.rangeOf(nArg, facts, map[ssa.Value]bool{}, 0); ok2 {
		if u, isLoad := nArg.(*ssa.UnOp); !isLoad || u.Op != token.MUL || noKillBetween(env, c, env.at, ssau.Path(nArg)) {
			nr = nr.meet(nr2)
		}
	}
	if nr.lo.Sign() <= 0 {
		return nil, ""
	}
	return nr.lo, why
}

var lenEqCache = map[*ssa.Function]int{}

// lenEqualsParam returns the index of the parameter n such that every return
// of f with a nil error has len(result#0) == n established (or returns a nil
// slice under n == 0); -1 if there is none.
func lenEqualsParam(p *load.Program, f *ssa.Function) int {
	if v, ok := lenEqCache[f]; ok {
		return v
	}
	lenEqCache[f] = -1
	if len(f.Blocks) == 0 {
		return -1
	}
	res := f.Signature.Results()
	ei := res.Len() - 1
	if ei < 1 {
		return -1
	}
	if _, isSlice := res.At(0).Type().Underlying().(*types.Slice); !isSlice {
		return -1
	}
	ff := ssau.ComputeFacts(f, callAndStoreKills(p))
	for pi, prm := range f.Params {
		if _, ok := typeRange(prm.Type()); !ok {
			continue
		}
		pp := "p." + prm.Name()
		okAll, any := true, false
		for _, ret := range returns(f) {
			if !ssau.IsNilConst(ret.Results[ei]) {
				continue
			}
			any = true
			fs := ff.At(ret)
			rv := ret.Results[0]
			if ssau.IsNilConst(rv) {
				if !fs.Has("eq", pp, "k:0") {
					okAll = false
				}
				continue
			}
			lp := "len(" + ssau.Path(rv) + ")"
			found := false
			for fct := range fs {
				a, b := stripConv(fct.Path), stripConv(fct.Arg)
				switch fct.Kind {
				case "eq":
					if (a == lp && b == pp) || (a == pp && b == lp) {
						found = true
					}
				case "ge":
					// at least that many (the exit of `for len(bs) < n { grow }`): what the callers
					// rely on is a lower bound of the length
					if a == lp && b == pp {
						found = true
					}
				case "le":
					if a == pp && b == lp {
						found = true
					}
				}
			}
			if !found {
				okAll = false
			}
		}
		if okAll && any {
			lenEqCache[f] = pi
			return pi
		}
	}
	return -1
}

// callersEstablishIndex: x is a parameter and idx is a parameter (plus a
// constant); at every module call site of the (unexported, directly called)
// function the argument for idx (plus the constant) is below the known length
// of the argument for x.
func callersEstablishIndex(env *intervalEnv, x, idx ssa.Value) string {
	xp, ok := x.(*ssa.Parameter)
	if !ok || env.p == nil {
		return ""
	}
	add := int64(0)
	ib := idx
	if bo, okb := idx.(*ssa.BinOp); okb && bo.Op == token.ADD {
		if k, okk := ssau.ConstInt(bo.Y); okk && k >= 0 {
			ib, add = bo.X, k
		}
	}
	ip, ok := ib.(*ssa.Parameter)
	if !ok {
		return ""
	}
	fn := xp.Parent()
	if fn == nil || fn != ip.Parent() || fn.Object() == nil || fn.Object().Exported() || addressTaken(env.p, fn) {
		return ""
	}
	xi, ii := -1, -1
	for i, q := range fn.Params {
		if q == xp {
			xi = i
		}
		if q == ip {
			ii = i
		}
	}
	sites := 0
	for _, caller := range env.p.Funcs {
		var ce *intervalEnv
		for _, b := range caller.Blocks {
			for _, in := range b.Instrs {
				c, ok := in.(ssa.CallInstruction)
				if !ok || c.Common().StaticCallee() != fn {
					continue
				}
				sites++
				if ce == nil {
					ce = newIntervalEnv(env.p, caller)
					ce.callDepth = env.callDepth + 1
				}
				if ce.callDepth > 4 {
					return ""
				}
				fs := ce.ff.At(in)
				ax, ai := c.Common().Args[xi], c.Common().Args[ii]
				ar, okr := ce.rangeOf(ai, fs, map[ssa.Value]bool{}, 0)
				kl, why := knownLen(ce, ax, fs, 1)
				if okr && why != "" && ar.lo.Sign() >= 0 && new(big.Int).Add(ar.hi, bi(add)).Cmp(kl) < 0 {
					continue
				}
				// or the caller's own index fact / the caller's callers
				var shifted ssa.Value = ai
				if indexInBoundsShifted(ce, ax, shifted, add, fs) {
					continue
				}
				return ""
			}
		}
	}
	if sites == 0 {
		return ""
	}
	return sprintf("every one of the %d call sites passes an index below the length of the object it passes", sites)
}

// indexInBoundsShifted: idx+add < len(x) by a dominating comparison in the caller.
func indexInBoundsShifted(env *intervalEnv, x, idx ssa.Value, add int64, facts ssau.FactSet) bool {
	ip := stripConv(ssau.Path(idx))
	ir, ok := env.rangeOf(idx, facts, map[ssa.Value]bool{}, 0)
	if !ok || ir.lo.Sign() < 0 {
		return false
	}
	for f := range facts {
		a, b := stripConv(f.Path), stripConv(f.Arg)
		for _, lp := range lenPathsOf(x) {
			lp = stripConv(lp)
			if add == 0 && ((a == ip && b == lp && f.Kind == "lt") || (a == lp && b == ip && f.Kind == "gt")) {
				return true
			}
		}
	}
	if add == 0 {
		return callersEstablishIndex(env, x, idx) != ""
	}
	return false
}

// noKillBetween: no instruction on a path from the call to the instruction
// `to` may overwrite the memory the path names.
func noKillBetween(env *intervalEnv, c *ssa.Call, to ssa.Instruction, path string) bool {
	if to == nil {
		return false
	}
	kill := callAndStoreKills(env.p)
	probe := ssau.Fact{Kind: "eq", Path: path, Arg: "k:0"}
	seen := map[*ssa.BasicBlock]bool{}
	type st struct {
		b   *ssa.BasicBlock
		idx int
	}
	work := []st{{c.Block(), ssau.InstrIndex(c) + 1}}
	for len(work) > 0 {
		cur := work[len(work)-1]
		work = work[:len(work)-1]
		if cur.b != to.Block() && !ssau.Reaches(cur.b, to.Block()) {
			continue // this way never gets to the use
		}
		reached := false
		for i := cur.idx; i < len(cur.b.Instrs); i++ {
			in := cur.b.Instrs[i]
			if in == to {
				reached = true
				break
			}
			if k := kill(in); k != nil && k(probe) {
				return false
			}
		}
		if reached {
			continue
		}
		for _, s := range cur.b.Succs {
			if !seen[s] {
				seen[s] = true
				work = append(work, st{s, 0})
			}
		}
	}
	return true
}

// ScopeSlice: the input side without the text formatters of decimal.go and
// textutils.go, whose slice arithmetic over their own output needs string
// reasoning this engine does not have (said so in the manifest).
var ScopeSlice = Scope{Name: "reader, symbol table, unmarshal and timestamp files of package ion", Pkgs: []string{"ion"}, Files: append(append([]string{}, ReaderFiles...), "unmarshal.go", "symboltable.go", "symboltoken.go", "catalog.go", "fields.go", "timestamp.go")}

// SliceResiduals: one named slice bound, one reason each.
var SliceResiduals = []residual{
	{"(*bitstream).readN", "[low bound phi filled]", "filled is 0 or len(bs) of the previous round and bs only grows by append, so filled <= len(bs); the loop invariant relates a phi to the length of another phi"},
	{"(Timestamp).String", "[low bound phi timeZoneIndex]", "same value as the high bound above"},
}

// IndexResiduals: one named index, one reason each.
var IndexResiduals = []residual{
	{"(*lst).FindByName", "p.t^.offsets[", "offsets and imports are parallel slices built together by processImports (offsets := make([]uint64, len(imps))) and never changed (OWN-IMMUT); the index ranges over imports"},
	{"(*lst).findByIDInImports", "p.t^.offsets[", "parallel to imports (see FindByName); the loop runs i from 1 while i < len(t.imports)"},
	{"(*lst).findByIDInImports", "p.t^.imports[", "i-1 with i >= 1 and i <= len(t.imports) at loop exit"},
	{"(*tokenizer).peekN", "[phi i]", "descending loop over the slice the first loop filled: i starts at len(ret)-1 and stops below 0"},
	{"(*tokenizer).IsTripleQuote", "#0[k:", "peekN(2) returns two elements whenever it returns no error (it stops early only with an error), and the error is tested first"},
	{"(*tokenizer).skipDoubleColon", "#0[k:", "peekN(2) returns two elements whenever it returns no error, and the error is tested first"},
	{"parseInt", "p.str[k:0]", "called only with the text of a number token, which the tokenizer never produces empty"},
}

// sliceBoundOK: 0 <= b <= len(x) (cap for slices is at least len).
func sliceBoundOK(env *intervalEnv, x, b ssa.Value, facts ssau.FactSet) string {
	br, ok := env.rangeOf(b, facts, map[ssa.Value]bool{}, 0)
	if !ok || br.lo.Sign() < 0 {
		return ""
	}
	if kl, why := knownLen(env, x, facts, 0); why != "" && br.hi.Cmp(kl) <= 0 {
		return "bound interval " + br.String() + " at most the length (at least " + kl.String() + ": " + why + ")"
	}
	if br.hi.Sign() == 0 {
		return "bound 0"
	}
	// x = append(y, ...) sliced at len(y): append only grows
	if ac, isC := x.(*ssa.Call); isC {
		if bi, isB := ac.Call.Value.(*ssa.Builtin); isB && bi.Name() == "append" && len(ac.Call.Args) > 0 {
			inner := b
			for {
				if cv, ok := inner.(*ssa.Convert); ok {
					inner = cv.X
					continue
				}
				break
			}
			if lc, isL := inner.(*ssa.Call); isL {
				if lb, isLB := lc.Call.Value.(*ssa.Builtin); isLB && lb.Name() == "len" && len(lc.Call.Args) == 1 && lc.Call.Args[0] == ac.Call.Args[0] {
					return "the bound is the length of the slice this one was appended to"
				}
			}
		}
	}
	bp := stripConv(ssau.Path(b))
	for _, lp := range lenPathsOf(x) {
		lp = stripConv(lp)
		if bp == lp {
			return "the bound is the length of the same object"
		}
		// len(x) - k
		if bo, isB := b.(*ssa.BinOp); isB && bo.Op == token.SUB && stripConv(ssau.Path(bo.X)) == lp {
			return "the length of the same object minus a value, non-negative by its interval"
		}
		for f := range facts {
			a, c := stripConv(f.Path), stripConv(f.Arg)
			if (a == bp && c == lp && (f.Kind == "le" || f.Kind == "lt" || f.Kind == "eq")) || (a == lp && c == bp && (f.Kind == "ge" || f.Kind == "gt" || f.Kind == "eq")) {
				return "dominated by bound <= len of the same object"
			}
		}
	}
	// b = strings.Index(x, sep) + j with j <= len(sep), under Index(...) >= 0:
	// a found separator lies inside the string
	{
		base, j := b, int64(0)
		if bo, isB := b.(*ssa.BinOp); isB && bo.Op == token.ADD {
			if k, isK := ssau.ConstInt(bo.Y); isK && k >= 0 {
				base, j = bo.X, k
			}
		}
		if c, isC := base.(*ssa.Call); isC {
			if f := c.Call.StaticCallee(); f != nil && f.Pkg != nil && (f.Pkg.Pkg.Path() == "strings" || f.Pkg.Pkg.Path() == "bytes") && len(c.Call.Args) == 2 {
				switch f.Name() {
				case "Index", "LastIndex", "IndexAny", "IndexByte":
					sepLen := int64(1)
					if sep, isS := ssau.ConstString(c.Call.Args[1]); isS && (f.Name() == "Index" || f.Name() == "LastIndex") {
						sepLen = int64(len(sep))
					}
					ir, okr := env.rangeOf(base, facts, map[ssa.Value]bool{}, 0)
					if stripConv(ssau.Path(c.Call.Args[0])) == stripConv(ssau.Path(x)) && j <= sepLen && okr && ir.lo.Sign() >= 0 {
						return "position of a separator found in the same string (plus at most its length)"
					}
				}
			}
		}
	}
	// both are parameters: every call site establishes the bound
	if xp, isP := x.(*ssa.Parameter); isP {
		if bp2, isP2 := b.(*ssa.Parameter); isP2 && xp.Parent() == bp2.Parent() {
			if why := callersEstablishBound(env, xp, bp2); why != "" {
				return why
			}
		}
	}
	// a bound that is an index of the same object already proven (i, i+1 after x[i] read) :
	if by := indexInBounds(env, x, b, facts); by != "" {
		return "a valid index of the same object is also a valid bound (" + by + ")"
	}
	if bo, isB := b.(*ssa.BinOp); isB && bo.Op == token.ADD {
		if k, isK := ssau.ConstInt(bo.Y); isK && k == 1 {
			if by := indexInBounds(env, x, bo.X, facts); by != "" {
				return "a valid index plus one (" + by + ")"
			}
		}
	}
	return ""
}

// callersEstablishBound: at every call site the argument for b is at most the
// known length of (or compared <= with the length of) the argument for x.
func callersEstablishBound(env *intervalEnv, xp, bp *ssa.Parameter) string {
	fn := xp.Parent()
	if fn == nil || env.p == nil || fn.Object() == nil || fn.Object().Exported() || addressTaken(env.p, fn) || env.callDepth > 3 {
		return ""
	}
	xi, bi2 := -1, -1
	for i, q := range fn.Params {
		if q == xp {
			xi = i
		}
		if q == bp {
			bi2 = i
		}
	}
	sites := 0
	for _, caller := range env.p.Funcs {
		var ce *intervalEnv
		for _, b := range caller.Blocks {
			for _, in := range b.Instrs {
				c, ok := in.(ssa.CallInstruction)
				if !ok || c.Common().StaticCallee() != fn {
					continue
				}
				sites++
				if ce == nil {
					ce = newIntervalEnv(env.p, caller)
					ce.callDepth = env.callDepth + 1
				}
				ce.at = in
				if sliceBoundOK(ce, c.Common().Args[xi], c.Common().Args[bi2], ce.ff.At(in)) == "" {
					return ""
				}
			}
		}
	}
	if sites == 0 {
		return ""
	}
	return sprintf("every one of the %d call sites passes a bound within the length of the object it passes", sites)
}

var formatOnlyCache = map[*ssa.Function]bool{}

// formatOnly: fn is a String() method (fmt.Stringer) or is reached, through
// static calls inside the module, only from such methods.
func formatOnly(p *load.Program, fn *ssa.Function, depth int) bool {
	if v, ok := formatOnlyCache[fn]; ok {
		return v
	}
	if fn.Name() == "String" && fn.Signature.Recv() != nil && fn.Signature.Params().Len() == 0 {
		formatOnlyCache[fn] = true
		return true
	}
	if depth > 3 || (fn.Object() != nil && fn.Object().Exported()) || fn.Parent() != nil {
		return false
	}
	formatOnlyCache[fn] = false // cycles
	n := 0
	for _, caller := range p.Funcs {
		if p.InTest(caller) {
			continue
		}
		for _, b := range caller.Blocks {
			for _, in := range b.Instrs {
				c, ok := in.(ssa.CallInstruction)
				if !ok {
					continue
				}
				used := load.Unwrap(c.Common().StaticCallee()) == fn
				for _, a := range c.Common().Args {
					if a == ssa.Value(fn) {
						used = true
					}
				}
				if !used {
					continue
				}
				n++
				if !formatOnly(p, caller, depth+1) {
					return false
				}
			}
		}
	}
	formatOnlyCache[fn] = n > 0
	return n > 0
}
