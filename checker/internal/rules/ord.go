package rules

import (
	"go/token"
	"go/types"
	"strings"

	"golang.org/x/tools/go/ssa"

	"verif/checker/internal/effects"
	"verif/checker/internal/load"
	"verif/checker/internal/report"
	"verif/checker/internal/ssau"
)

// calleeIs reports whether instr is a static call of a function / method with
// the given name (optionally on a receiver type).
func calleeIs(in ssa.Instruction, recv, name string) bool {
	if roleLog != nil {
		roleLog[[2]string{recv, name}] = true
	}
	c, ok := in.(ssa.CallInstruction)
	if !ok {
		return false
	}
	sc := load.Unwrap(c.Common().StaticCallee())
	if sc == nil || sc.Name() != name {
		return false
	}
	return recv == "" || recvTypeName(sc) == recv
}

// successExit: a return that is not known to carry a non-nil error.
func successExit(p *load.Program, fn *ssa.Function, ret *ssa.Return, ff *ssau.FactFlow) bool {
	ei := errResultIndex(fn)
	if ei < 0 {
		return true
	}
	v := ret.Results[ei]
	if ssau.IsNilConst(v) {
		return true
	}
	if definitelyNonNilError(p, v, 0) {
		return false
	}
	if ff.At(ret).Has("nonnil", ssau.Path(v), "") {
		return false
	}
	return true
}

// OrdValue implements ORD-VALUE and ORD-CONTAINER.
func OrdValue(p *load.Program) *report.RuleResult {
	r := newResult("ORD-VALUE", "every value a writer opens with beginValue is closed with endValue on each success path (containers: begin pushes, end pops the context stack and closes the value)", 10)
	for _, T := range implementers(p, p.Ion, "Writer") {
		tn := T.Obj().Name()
		for _, fn := range p.Funcs {
			if recvTypeName(fn) != tn || p.InTest(fn) {
				continue
			}
			callsBegin := false
			for _, b := range fn.Blocks {
				for _, in := range b.Instrs {
					if calleeIs(in, tn, "beginValue") {
						callsBegin = true
					}
				}
			}
			if !callsBegin {
				continue
			}
			name := p.FuncName(fn)
			pushesCtx := false
			for _, b := range fn.Blocks {
				for _, in := range b.Instrs {
					if calleeIs(in, "ctxstack", "push") {
						pushesCtx = true
					}
				}
			}
			if pushesCtx {
				// container opener (whatever it is called): its closer is the method that pops; checked below
				r.OK(name, p.Pos(fn.Pos()), "container opener", "closed by "+tn+".end (checked separately)")
				continue
			}
			ff := ssau.ComputeFacts(fn, ssau.StoreKills)
			ms := ssau.MayStates(fn, "closed", func(in ssa.Instruction, st string) string {
				if calleeIs(in, tn, "beginValue") {
					return "open"
				}
				if calleeIs(in, tn, "endValue") {
					return "closed"
				}
				return st
			}, nil)
			for _, ret := range returns(fn) {
				if !successExit(p, fn, ret, ff) {
					continue
				}
				what := "success exit"
				if ms.At(ret)["open"] {
					r.Add(report.Obligation{Key: tn + "." + fn.Name() + "|value left open", Func: name, Pos: instrPos(p, ret), What: what, Status: report.Violation,
						Detail: "a path from beginValue reaches this success exit without endValue: the separator state / annotation wrapper of the value is never closed"})
				} else {
					r.Add(report.Obligation{Key: tn + "." + fn.Name() + "|closed", Func: name, Pos: instrPos(p, ret), What: what, Status: report.Discharged, By: "endValue on every path from beginValue"})
				}
			}
		}
		// ORD-CONTAINER: begin pushes ctx => end pops ctx and calls endValue on all success exits
		// the opener and the closer by what they do, not by name: the method of T that pushes the
		// context (and opens a value) and the one that pops it
		var bg, en *ssa.Function
		for _, fn := range sortedFuncs(p) {
			if recvTypeName(fn) != tn || p.InTest(fn) {
				continue
			}
			for _, b := range fn.Blocks {
				for _, in := range b.Instrs {
					if calleeIs(in, "ctxstack", "push") && bg == nil {
						bg = fn
					}
					if calleeIs(in, "ctxstack", "pop") && en == nil {
						en = fn
					}
				}
			}
		}
		if bg == nil || en == nil {
			missing(r, tn+" container opener/closer", "no method pushes / pops the context stack")
			continue
		}
		pushes := false
		for _, b := range bg.Blocks {
			for _, in := range b.Instrs {
				if calleeIs(in, tn, "beginValue") {
					pushes = true
				}
			}
		}
		if !pushes {
			r.Bad(p.FuncName(bg), p.Pos(bg.Pos()), "begin pushes the context", "the method that pushes the writer context does not open a value with beginValue: a container would be written without separator, field name and annotations")
		} else {
			r.OK(p.FuncName(bg), p.Pos(bg.Pos()), "begin pushes the context", "the method that opens a container's value pushes the context")
		}
		ff := ssau.ComputeFacts(en, ssau.StoreKills)
		ev := ssau.MustEvents(en, func(in ssa.Instruction) []string {
			if calleeIs(in, "ctxstack", "pop") {
				return []string{"ctx.pop"}
			}
			if calleeIs(in, tn, "endValue") {
				return []string{"endValue"}
			}
			return nil
		})
		for _, ret := range returns(en) {
			if !successExit(p, en, ret, ff) {
				continue
			}
			got := ev.At(ret)
			// "return w.endValue()" evaluates the call before the return
			if got["ctx.pop"] && got["endValue"] {
				r.OK(p.FuncName(en), instrPos(p, ret), "end success exit", "ctx.pop and endValue on every path")
			} else {
				r.Add(report.Obligation{Key: tn + ".end|pop+endValue", Func: p.FuncName(en), Pos: instrPos(p, ret), What: "end success exit", Status: report.Violation,
					Detail: sprintf("context popped on all paths: %v, endValue on all paths: %v", got["ctx.pop"], got["endValue"])})
			}
		}
	}
	return r
}

func methodByName(p *load.Program, tn, name string) *ssa.Function {
	for _, fn := range p.Funcs {
		if recvTypeName(fn) == tn && fn.Name() == name && !p.InTest(fn) {
			return fn
		}
	}
	return nil
}

// OrdLstFirst implements ORD-LSTFIRST.
func OrdLstFirst(p *load.Program) *report.RuleResult {
	r := newResult("ORD-LSTFIRST", "binary writer: the version marker precedes the symbol table, the symbol table precedes the buffered values in Finish, and a fixed symbol table is written before the first value", 4)
	fin := methodByName(p, "binaryWriter", "Finish")
	wl := methodByName(p, "binaryWriter", "writeLST")
	bv := methodByName(p, "binaryWriter", "beginValue")
	if fin == nil || wl == nil || bv == nil {
		missing(r, "binaryWriter.Finish/writeLST/beginValue", "not found")
		return r
	}
	// Finish: writeLST before emit(seq)
	ev := ssau.MustEvents(fin, func(in ssa.Instruction) []string {
		if calleeIs(in, "binaryWriter", "writeLST") {
			return []string{"writeLST"}
		}
		return nil
	})
	n := 0
	for _, b := range fin.Blocks {
		for _, in := range b.Instrs {
			if calleeIs(in, "binaryWriter", "emit") {
				n++
				if ev.At(in)["writeLST"] {
					r.OK(p.FuncName(fin), instrPos(p, in), "emit of buffered values", "writeLST called on every path before it")
				} else {
					r.Bad(p.FuncName(fin), instrPos(p, in), "emit of buffered values", "the buffered datagram can be emitted before (or without) its symbol table")
				}
			}
		}
	}
	if n == 0 {
		missing(r, "emit call in binaryWriter.Finish", "not found")
	}
	// writeLST: BVM atom before lst.WriteTo
	ev2 := ssau.MustEvents(wl, func(in ssa.Instruction) []string {
		if calleeIs(in, "binaryWriter", "write") {
			if c := in.(ssa.CallInstruction); isBVMLiteral(c.Common().Args[len(c.Common().Args)-1]) {
				return []string{"bvm"}
			}
		}
		return nil
	})
	n = 0
	for _, b := range wl.Blocks {
		for _, in := range b.Instrs {
			if c, ok := in.(ssa.CallInstruction); ok && c.Common().IsInvoke() && c.Common().Method.Name() == "WriteTo" {
				n++
				if ev2.At(in)["bvm"] {
					r.OK(p.FuncName(wl), instrPos(p, in), "symbol table body", "E0 01 00 EA written on every path before it")
				} else {
					r.Bad(p.FuncName(wl), instrPos(p, in), "symbol table body", "the local symbol table is written without a preceding version marker E0 01 00 EA")
				}
			}
		}
	}
	if n == 0 {
		missing(r, "lst.WriteTo call in writeLST", "not found")
	}
	// beginValue: every write happens with the fixed table settled
	// settledIn: the must-analysis "the fixed table is absent, already written or written just now" over one
	// method of the writer; a call of a helper method that returns only in that state settles it too
	// (the pending-table block extracted into a method of its own).
	var settledIn func(f *ssa.Function, depth int) *ssau.EventFlow
	settlesCache := map[*ssa.Function]bool{}
	settles := func(f *ssa.Function, depth int) bool {
		if v, ok := settlesCache[f]; ok {
			return v
		}
		settlesCache[f] = false
		if f == nil || depth == 0 || len(f.Blocks) == 0 || recvTypeName(f) != "binaryWriter" || f == bv || f == wl {
			return false
		}
		ev := settledIn(f, depth-1)
		rets := returns(f)
		ok := len(rets) > 0
		for _, ret := range rets {
			ok = ok && ev.At(ret)["settled"]
		}
		settlesCache[f] = ok
		return ok
	}
	settledIn = func(f *ssa.Function, depth int) *ssau.EventFlow {
		lstPath := "p." + f.Params[0].Name() + "^.lst"
		wrotePath := "p." + f.Params[0].Name() + "^.wroteLST"
		return ssau.MustEventsEdge(f, func(in ssa.Instruction) []string {
			if calleeIs(in, "binaryWriter", "writeLST") {
				return []string{"settled"}
			}
			if c, ok := in.(ssa.CallInstruction); ok && depth > 0 {
				if g := c.Common().StaticCallee(); g != nil && g != f && settles(g, depth) {
					return []string{"settled"}
				}
			}
			return nil
		}, func(b *ssa.BasicBlock, si int) []string {
			ifi, ok := b.Instrs[len(b.Instrs)-1].(*ssa.If)
			if !ok {
				return nil
			}
			for _, f := range ssau.CondFacts(ifi.Cond, si == 0) {
				if (f.Kind == "nil" && f.Path == lstPath) || (f.Kind == "true" && f.Path == wrotePath) {
					return []string{"settled"}
				}
			}
			return nil
		})
	}
	ev3 := settledIn(bv, 2)
	n = 0
	for _, b := range bv.Blocks {
		for _, in := range b.Instrs {
			if calleeIs(in, "binaryWriter", "write") || calleeIs(in, "bufstack", "push") || (!calleeIs(in, "binaryWriter", "writeLST") && callsThrough(p, in, func(f *ssa.Function) bool {
				return (f.Name() == "write" && recvTypeName(f) == "binaryWriter") || (f.Name() == "push" && recvTypeName(f) == "bufstack")
			}, func(f *ssa.Function) bool { return f.Name() == "writeLST" })) {
				n++
				if ev3.At(in)["settled"] {
					r.OK(p.FuncName(bv), instrPos(p, in), "first bytes of a value", "fixed table absent, already written, or written just before")
				} else {
					r.Bad(p.FuncName(bv), instrPos(p, in), "first bytes of a value", "a value (field name / annotation wrapper) can be written while a fixed symbol table is still pending")
				}
			}
		}
	}
	if n == 0 {
		missing(r, "write calls in beginValue", "not found")
	}
	return r
}

func isBVMLiteral(v ssa.Value) bool {
	sl, ok := v.(*ssa.Slice)
	if !ok {
		return false
	}
	al, ok := sl.X.(*ssa.Alloc)
	if !ok {
		return false
	}
	want := map[int64]int64{0: 0xE0, 1: 0x01, 2: 0x00, 3: 0xEA}
	got := map[int64]int64{}
	for _, r := range *al.Referrers() {
		ia, ok := r.(*ssa.IndexAddr)
		if !ok {
			continue
		}
		idx, ok := ssau.ConstInt(ia.Index)
		if !ok {
			continue
		}
		for _, r2 := range *ia.Referrers() {
			if st, ok := r2.(*ssa.Store); ok {
				if v, ok := ssau.ConstInt(st.Val); ok {
					got[idx] = v
				}
			}
		}
	}
	if len(got) != 4 {
		return false
	}
	for k, v := range want {
		if got[k] != v {
			return false
		}
	}
	return true
}

// OrdRearm implements ORD-REARM.
func OrdRearm(p *load.Program) *report.RuleResult {
	r := newResult("ORD-REARM", "when binaryWriter.Finish pops the root datagram it re-arms the writer (pushes a new root and installs a fresh symbol table builder) before every success exit", 1)
	fin := methodByName(p, "binaryWriter", "Finish")
	if fin == nil {
		missing(r, "binaryWriter.Finish", "not found")
		return r
	}
	ff := ssau.ComputeFacts(fin, ssau.StoreKills)
	step := func(in ssa.Instruction, st string) string {
		if calleeIs(in, "bufstack", "pop") {
			return "popped"
		}
		if calleeIs(in, "bufstack", "push") {
			if st == "popped" {
				return "pushed"
			}
			if st == "builder" {
				return "armed"
			}
		}
		if s, ok := in.(*ssa.Store); ok {
			if _, fl, ok := ssau.FieldOf(s.Addr); ok && fl == "lstb" {
				if st == "popped" {
					return "builder"
				}
				if st == "pushed" {
					return "armed"
				}
			}
		}
		return st
	}
	ms := ssau.MayStates(fin, "intact", step, nil)
	npop := 0
	for _, b := range fin.Blocks {
		for _, in := range b.Instrs {
			if calleeIs(in, "bufstack", "pop") {
				npop++
			}
		}
	}
	if npop == 0 {
		r.OK(p.FuncName(fin), p.Pos(fin.Pos()), "root datagram", "never popped")
		return r
	}
	for _, ret := range returns(fin) {
		if !successExit(p, fin, ret, ff) {
			continue
		}
		sts := ms.At(ret)
		bad := ""
		for _, s := range []string{"popped", "pushed", "builder"} {
			if sts[s] {
				bad = s
			}
		}
		if bad == "" {
			r.OK(p.FuncName(fin), instrPos(p, ret), "success exit", "root datagram intact or re-armed")
		} else {
			r.Add(report.Obligation{Key: "binaryWriter.Finish|not re-armed", Func: p.FuncName(fin), Pos: instrPos(p, ret), What: "success exit", Status: report.Violation,
				Detail: "Finish can return nil with the root datagram popped and not replaced (state '" + bad + "'): values of a following batch go straight to the output with symbol IDs of a table that is never emitted"})
		}
	}
	return r
}

// OrdPopGuard implements ORD-POPGUARD.
func OrdPopGuard(p *load.Program) *report.RuleResult {
	r := newResult("ORD-POPGUARD", "every call of a panicking pop (bufstack.pop, ctxstack.pop, bitstack.pop) is dominated by a non-emptiness fact on the same stack", 8)
	eff := effects.Of(p)
	topLevel, _ := constOf(p, "ctxAtTopLevel")
	for _, fn := range p.Funcs {
		if p.InTest(fn) || fn.Pkg != p.Ion {
			continue
		}
		var ff *ssau.FactFlow
		for _, b := range fn.Blocks {
			for _, in := range b.Instrs {
				c, ok := in.(ssa.CallInstruction)
				if !ok {
					continue
				}
				sc := load.Unwrap(c.Common().StaticCallee())
				if sc == nil || sc.Name() != "pop" || !strings.HasSuffix(recvTypeName(sc), "stack") {
					continue
				}
				if ff == nil {
					ff = ssau.ComputeFacts(fn, func(in ssa.Instruction) func(ssau.Fact) bool {
						if k := ssau.StoreKills(in); k != nil {
							return k
						}
						ci, ok := in.(ssa.CallInstruction)
						if !ok {
							return nil
						}
						if _, isB := ci.Common().Value.(*ssa.Builtin); isB {
							return nil
						}
						s := eff.CallSummary(ci)
						var stacks []string
						for f := range s.MutFields {
							if strings.HasSuffix(f, "stack.arr") {
								stacks = append(stacks, strings.TrimSuffix(f, ".arr"))
							}
						}
						if len(stacks) == 0 {
							return nil
						}
						// which stack instance: the receiver argument's path when it is the stack itself
						rp := ""
						if sc := ci.Common().StaticCallee(); sc != nil && strings.HasSuffix(recvTypeName(sc), "stack") && len(ci.Common().Args) > 0 {
							rp = strings.TrimPrefix(ssau.Path(ci.Common().Args[0]), "&")
						}
						return func(f ssau.Fact) bool {
							if !(strings.Contains(f.Path, ".peek()") || strings.Contains(f.Path, ".empty()")) {
								return false
							}
							if rp != "" {
								return strings.HasPrefix(f.Path, rp+".")
							}
							// which stack type does the fact talk about: the field before .peek()/.empty()
							base := strings.TrimSuffix(strings.TrimSuffix(f.Path, ".peek()"), ".empty()")
							fld := base[strings.LastIndex(base, ".")+1:]
							st := stackFieldTypes(p)[fld]
							for _, m := range stacks {
								if m == st || st == "" {
									return true
								}
							}
							return false
						}
					})
				}
				sp := strings.TrimPrefix(ssau.Path(c.Common().Args[0]), "&")
				name := p.FuncName(fn)
				what := recvTypeName(sc) + ".pop on " + sp
				key := name + "|" + what
				facts := ff.At(in)
				by := ""
				switch {
				case facts.Has("nonnil", sp+".peek()", ""):
					by = "peek() != nil"
				case facts.Has("false", sp+".empty()", ""):
					by = "!empty()"
				case facts.Has("ne", sp+".peek()", sprintf("k:%d", topLevel)):
					by = "peek() != ctxAtTopLevel"
				default:
					for f := range facts {
						if f.Kind == "eq" && f.Path == sp+".peek()" {
							if strings.HasPrefix(f.Arg, "k:") && f.Arg != sprintf("k:%d", topLevel) {
								by = "peek() == non-top-level constant"
							} else if strings.HasPrefix(f.Arg, "p.") && paramAlwaysNonZero(p, fn, strings.TrimPrefix(f.Arg, "p.")) {
								by = "peek() == t, and every call site passes a non-top-level constant for t"
							}
						}
					}
				}
				if by == "" {
					// v, ok := stack.peek().(*T) with ok true: a nil interface fails every type assertion
					for _, b2 := range fn.Blocks {
						for _, in2 := range b2.Instrs {
							ta, ok := in2.(*ssa.TypeAssert)
							if !ok || !ta.CommaOk || ssau.Path(ta.X) != sp+".peek()" {
								continue
							}
							for _, ref := range *ta.Referrers() {
								if e, ok := ref.(*ssa.Extract); ok && e.Index == 1 && facts.Has("true", ssau.Path(e), "") {
									by = "a comma-ok type assertion on peek() succeeded, so peek() is not nil"
								}
							}
						}
					}
				}
				if by != "" {
					r.Add(report.Obligation{Key: key, Func: name, Pos: instrPos(p, in), What: what, Status: report.Discharged, By: by})
				} else {
					r.Add(report.Obligation{Key: key, Func: name, Pos: instrPos(p, in), What: what, Status: report.Violation,
						Detail: "this pop panics on an empty stack and no dominating test establishes that the stack is non-empty (no peek() != nil / !empty() / peek() == <container> fact holds here)"})
				}
			}
		}
	}
	return r
}

// paramAlwaysNonZero: every call site of fn in the module passes a non-zero constant for the parameter.
func paramAlwaysNonZero(p *load.Program, fn *ssa.Function, param string) bool {
	return paramAlwaysNonZeroD(p, fn, param, 0)
}

func paramAlwaysNonZeroD(p *load.Program, fn *ssa.Function, param string, depth int) bool {
	idx := -1
	for i, pr := range fn.Params {
		if pr.Name() == param {
			idx = i
		}
	}
	if idx < 0 || isAddressTaken(fn) {
		return false
	}
	n := 0
	for _, caller := range p.Funcs {
		for _, b := range caller.Blocks {
			for _, in := range b.Instrs {
				c, ok := in.(ssa.CallInstruction)
				if !ok || load.Unwrap(c.Common().StaticCallee()) != fn {
					continue
				}
				n++
				v, ok := ssau.ConstInt(c.Common().Args[idx])
				if !ok {
					// a wrapper that passes its own parameter on (end -> endContainer): decided at the wrapper's callers
					if prm, isPrm := c.Common().Args[idx].(*ssa.Parameter); isPrm && depth < 2 && paramAlwaysNonZeroD(p, caller, prm.Name(), depth+1) {
						continue
					}
					return false
				}
				if v == 0 {
					return false
				}
			}
		}
	}
	return n > 0
}

// OrdBVMReset implements ORD-BVMRESET.
func OrdBVMReset(p *load.Program) *report.RuleResult {
	r := newResult("ORD-BVMRESET", "every successful path of binaryReader.readBVM resets the symbol table context to the system table", 1)
	fn := methodByName(p, "binaryReader", "readBVM")
	if fn == nil {
		missing(r, "binaryReader.readBVM", "not found")
		return r
	}
	ev := ssau.MustEvents(fn, func(in ssa.Instruction) []string {
		st, ok := in.(*ssa.Store)
		if !ok {
			return nil
		}
		if _, fl, ok := ssau.FieldOf(st.Addr); !ok || fl != "lst" {
			return nil
		}
		if strings.Contains(ssau.Path(st.Val), "V1SystemSymbolTable") {
			return []string{"reset"}
		}
		return []string{}
	})
	n := 0
	for _, ret := range returns(fn) {
		if !ssau.IsNilConst(ret.Results[0]) {
			continue
		}
		n++
		if ev.At(ret)["reset"] {
			r.OK(p.FuncName(fn), instrPos(p, ret), "successful version marker", "lst = V1SystemSymbolTable on every path")
		} else {
			r.Bad(p.FuncName(fn), instrPos(p, ret), "successful version marker", "a version marker is accepted without resetting the symbol table to the system table: later symbol IDs resolve against the previous stream segment's table")
		}
	}
	if n == 0 {
		missing(r, "nil return in readBVM", "not found")
	}
	return r
}

// OrdLstHide implements ORD-LSTHIDE.
func OrdLstHide(p *load.Program) *report.RuleResult {
	r := newResult("ORD-LSTHIDE", "in both readers, once a top-level struct is recognised as $ion_symbol_table, every exit either reports 'not a user value' (done == false) or an error", 2)
	for _, fnn := range []string{"binaryReader.next", "textReader.nextBeforeTypeAnnotations"} {
		fn := p.Func(nil, fnn)
		if fn == nil {
			missing(r, fnn, "not found")
			continue
		}
		ff := ssau.ComputeFacts(fn, nil)
		n := 0
		for _, ret := range returns(fn) {
			var hit bool
			topOK := false
			for f := range ff.At(ret) {
				if f.Kind == "true" && strings.HasPrefix(f.Path, "isIonSymbolTable(") {
					hit = true
				}
				if f.Kind == "eq" && strings.HasSuffix(f.Path, ".peek()") && f.Arg == "k:0" {
					topOK = true
				}
			}
			if !hit {
				continue
			}
			n++
			what := "exit after recognising a symbol table struct"
			done, isConst := ret.Results[0].(*ssa.Const)
			switch {
			case !topOK:
				r.Bad(p.FuncName(fn), instrPos(p, ret), what, "the symbol-table interception is not restricted to the top level")
			case isConst && done.Value != nil && done.Value.ExactString() == "false":
				r.OK(p.FuncName(fn), instrPos(p, ret), what, "done == false")
			case definitelyNonNilError(p, ret.Results[1], 0) || ff.At(ret).Has("nonnil", ssau.Path(ret.Results[1]), ""):
				r.OK(p.FuncName(fn), instrPos(p, ret), what, "returns an error")
			default:
				r.Bad(p.FuncName(fn), instrPos(p, ret), what, "a top-level $ion_symbol_table struct can be returned to the caller as a user value")
			}
		}
		if n < 1 {
			missing(r, fnn+" symbol table interception", "no exit under isIonSymbolTable(annotations) found")
		}
	}
	return r
}

// OrdEOFDepth implements ORD-EOFDEPTH.
func OrdEOFDepth(p *load.Program) *report.RuleResult {
	r := newResult("ORD-EOFDEPTH", "in the bitstream, a function that observes end of input returns a nil error only when no container is open (the sentinel-returning primitive read excepted)", 2)
	n := 0
	for _, fn := range p.Funcs {
		if recvTypeName(fn) != "bitstream" || p.InTest(fn) {
			continue
		}
		ei := errResultIndex(fn)
		if ei < 0 {
			continue
		}
		ff := ssau.ComputeFacts(fn, ssau.StoreKills)
		for _, ret := range returns(fn) {
			if !ssau.IsNilConst(ret.Results[ei]) {
				continue
			}
			facts := ff.At(ret)
			sawEOF := ""
			for f := range facts {
				if f.Kind == "eq" && f.Arg == "k:-1" {
					sawEOF = "sentinel -1"
				}
				if f.Kind == "eq" && (strings.HasSuffix(f.Arg, "io.EOF") || strings.HasSuffix(f.Arg, "io.ErrUnexpectedEOF")) {
					sawEOF = f.Arg
				}
			}
			if sawEOF == "" {
				continue
			}
			n++
			name := p.FuncName(fn)
			what := "nil error after observing end of input (" + strings.TrimPrefix(sawEOF, "&g.") + ")"
			if fn.Name() == "read" {
				r.OK(name, instrPos(p, ret), what, "exception: read() translates EOF into the -1 sentinel for its callers")
				continue
			}
			emptyOK := false
			for f := range facts {
				if f.Kind == "true" && strings.HasSuffix(f.Path, ".stack.empty()") {
					emptyOK = true
				}
			}
			if emptyOK {
				r.OK(name, instrPos(p, ret), what, "only on the stack.empty() edge (top level)")
			} else {
				r.Add(report.Obligation{Key: name + "|clean end inside container", Func: name, Pos: instrPos(p, ret), What: what, Status: report.Violation,
					Detail: "end of input is reported as success although a container may be open: truncated input looks like a complete stream"})
			}
		}
	}
	if n < 2 {
		missing(r, "end-of-input observations in bitstream", sprintf("found %d, expected >= 2 (read, Next)", n))
	}
	return r
}

// OrdDangle implements ORD-DANGLE.
func OrdDangle(p *load.Program) *report.RuleResult {
	r := newResult("ORD-DANGLE", "the text reader ends a sequence (eof = true) in the value position only when no annotations are pending", 3)
	fn := p.Func(nil, "textReader.nextBeforeTypeAnnotations")
	if fn == nil {
		missing(r, "textReader.nextBeforeTypeAnnotations", "not found")
		return r
	}
	ff := ssau.ComputeFacts(fn, ssau.StoreKills)
	n := 0
	for _, b := range fn.Blocks {
		for _, in := range b.Instrs {
			st, ok := in.(*ssa.Store)
			if !ok {
				continue
			}
			if _, fl, ok := ssau.FieldOf(st.Addr); !ok || fl != "eof" {
				continue
			}
			if c, ok := st.Val.(*ssa.Const); !ok || c.Value == nil || c.Value.ExactString() != "true" {
				continue
			}
			n++
			ok = false
			for f := range ff.At(in) {
				if !strings.HasPrefix(f.Path, "len(") || !strings.HasSuffix(f.Path, ".annotations)") {
					continue
				}
				if (f.Kind == "eq" && f.Arg == "k:0") || (f.Kind == "le" && f.Arg == "k:0") || (f.Kind == "lt" && f.Arg == "k:1") {
					ok = true
				}
			}
			if ok {
				r.OK(p.FuncName(fn), instrPos(p, in), "end of sequence", "len(annotations) == 0 established")
			} else {
				r.Add(report.Obligation{Key: p.FuncName(fn) + "|eof with pending annotations", Func: p.FuncName(fn), Pos: instrPos(p, in), What: "end of sequence", Status: report.Violation,
					Detail: "eof is set without checking that no annotations are pending: 'a::' at the end of a stream, list or sexp is accepted and the annotation silently dropped"})
			}
		}
	}
	if n < 3 {
		missing(r, "eof = true stores in nextBeforeTypeAnnotations", sprintf("found %d, expected 3", n))
	}
	return r
}

// OrdSortMap implements ORD-SORTMAP.
func OrdSortMap(p *load.Program) *report.RuleResult {
	r := newResult("ORD-SORTMAP", "MarshalText asks for sorted map keys, and with that option set encodeMap sorts the keys before emitting any field", 2)
	mt := p.Func(nil, "MarshalText")
	em := methodByName(p, "Encoder", "encodeMap")
	if mt == nil || em == nil {
		missing(r, "MarshalText / Encoder.encodeMap", "not found")
		return r
	}
	bit, ok := constOf(p, "EncodeSortMaps")
	if !ok {
		missing(r, "EncodeSortMaps", "constant not found")
		return r
	}
	found := false
	for _, b := range mt.Blocks {
		for _, in := range b.Instrs {
			st, ok := in.(*ssa.Store)
			if !ok {
				continue
			}
			if tn, fl, ok := ssau.FieldOf(st.Addr); ok && tn == "Encoder" && fl == "opts" {
				if v, ok := ssau.ConstInt(st.Val); ok && v&bit != 0 {
					found = true
				}
			}
		}
	}
	// or through a constructor: a module function that stores one of its
	// parameters into Encoder.opts, called here with a constant that has the bit
	if !found {
		for _, b := range mt.Blocks {
			for _, in := range b.Instrs {
				c, ok := in.(ssa.CallInstruction)
				if !ok {
					continue
				}
				callee := c.Common().StaticCallee()
				if callee == nil || !p.InModule(callee) {
					continue
				}
				for ai, a := range c.Common().Args {
					v, ok := ssau.ConstInt(a)
					if !ok || v&bit == 0 {
						continue
					}
					if paramReachesEncoderOpts(p, callee, ai, 0) {
						found = true
					}
				}
			}
		}
	}
	if found {
		r.OK(p.FuncName(mt), p.Pos(mt.Pos()), "Encoder options", "EncodeSortMaps set")
	} else {
		r.Bad(p.FuncName(mt), p.Pos(mt.Pos()), "Encoder options", "MarshalText does not set EncodeSortMaps: map fields come out in Go's random iteration order, so the text is not deterministic")
	}
	// encodeMap: with the bit set, no FieldName is reached without passing a sort call
	isSort := func(in ssa.Instruction) bool {
		c, ok := in.(ssa.CallInstruction)
		if !ok {
			return false
		}
		sc := c.Common().StaticCallee()
		if sc == nil || sc.Pkg == nil || sc.Pkg.Pkg.Path() != "sort" {
			return false
		}
		// sort.Slice / SliceStable / Sort with a comparator: it must order the keys
		// themselves (a total order on distinct keys), not an image of them under a
		// function that can map two keys to the same thing
		for _, a := range c.Common().Args {
			if mc, ok := a.(*ssa.MakeClosure); ok {
				if lf, ok := mc.Fn.(*ssa.Function); ok && !comparesElementsDirectly(lf) {
					return false
				}
			}
			if lf, ok := a.(*ssa.Function); ok && !comparesElementsDirectly(lf) {
				return false
			}
		}
		return true
	}
	cut := func(b *ssa.BasicBlock, si int) bool {
		ifi, ok := b.Instrs[len(b.Instrs)-1].(*ssa.If)
		if !ok {
			return false
		}
		for _, f := range ssau.CondFacts(ifi.Cond, si == 0) {
			// the edge on which (opts & bit) == 0
			if f.Kind == "eq" && f.Arg == "k:0" && strings.Contains(f.Path, ".opts&k:") {
				return true
			}
		}
		return false
	}
	n := 0
	for _, b := range em.Blocks {
		for _, in := range b.Instrs {
			c, ok := in.(ssa.CallInstruction)
			if !ok || !c.Common().IsInvoke() || c.Common().Method.Name() != "FieldName" {
				continue
			}
			n++
			if ssau.ReachesAvoiding(em, in, isSort, cut) {
				r.Bad(p.FuncName(em), instrPos(p, in), "field emission", "with EncodeSortMaps set a field can be emitted without the keys having been sorted by a total order on the keys themselves (no sort call on the path, or its comparator compares an image of the keys such as a case-folded copy, under which distinct keys tie and keep their random map order)")
			} else {
				r.OK(p.FuncName(em), instrPos(p, in), "field emission", "with EncodeSortMaps set every path passes a sort.* call first (a comparator, if any, compares the keys themselves)")
			}
		}
	}
	if n == 0 {
		missing(r, "FieldName call in encodeMap", "not found")
	}
	return r
}

// OrdFirstWins implements ORD-FIRSTWINS.
func OrdFirstWins(p *load.Program) *report.RuleResult {
	r := newResult("ORD-FIRSTWINS", "every insertion into a symbol text index happens only when the text is not present yet (first ID wins; imports are consulted before local symbols), or copies an existing index", 3)
	for _, fn := range p.Funcs {
		if p.InTest(fn) || fn.Pkg != p.Ion {
			continue
		}
		var ff *ssau.FactFlow
		for _, b := range fn.Blocks {
			for _, in := range b.Instrs {
				mu, ok := in.(*ssa.MapUpdate)
				if !ok {
					continue
				}
				mt, ok := mu.Map.Type().Underlying().(*types.Map)
				if !ok || basicKind(mt.Key()) != types.String || basicKind(mt.Elem()) != types.Uint64 {
					continue
				}
				if ff == nil {
					ff = ssau.ComputeFacts(fn, ssau.StoreKills)
				}
				name := p.FuncName(fn)
				what := "insert into symbol index"
				key := name + "|" + what
				kp := ssau.Path(mu.Key)
				mp := ssau.Path(mu.Map)
				by := ""
				for f := range ff.At(in) {
					if f.Kind != "false" {
						continue
					}
					// _, ok := m[k]  (comma-ok lookup on the same map and key)
					if lk := lookupOf(fn, f.Path); lk != nil && ssau.Path(lk.X) == mp && ssau.Path(lk.Index) == kp {
						by = "key tested absent in the same map"
					}
					// FindByName(k) on the enclosing table (consults imports first)
					if strings.Contains(f.Path, ".FindByName("+kp+")#1") {
						by = "FindByName(key) false (imports and local symbols consulted)"
					}
				}
				if by == "" {
					// copying an index: key and value come from ranging over another map[string]uint64
					if ex, ok := mu.Key.(*ssa.Extract); ok {
						if nx, ok := ex.Tuple.(*ssa.Next); ok {
							if rg, ok := nx.Iter.(*ssa.Range); ok {
								if rmt, ok := rg.X.Type().Underlying().(*types.Map); ok && basicKind(rmt.Key()) == types.String {
									by = "copies an existing index (range over another index)"
								}
							}
						}
					}
				}
				if by != "" {
					r.Add(report.Obligation{Key: key, Func: name, Pos: instrPos(p, in), What: what, Status: report.Discharged, By: by})
				} else {
					r.Add(report.Obligation{Key: key, Func: name, Pos: instrPos(p, in), What: what, Status: report.Violation,
						Detail: "the text index is updated without first establishing that the text has no ID yet: a duplicate text would be renumbered to its last ID (the rule is lowest ID wins)"})
				}
			}
		}
	}
	return r
}

// lookupOf finds the comma-ok Lookup whose ok component has the given path.
func lookupOf(fn *ssa.Function, okPath string) *ssa.Lookup {
	for _, b := range fn.Blocks {
		for _, in := range b.Instrs {
			ex, ok := in.(*ssa.Extract)
			if !ok || ex.Index != 1 || ssau.Path(ex) != okPath {
				continue
			}
			if lk, ok := ex.Tuple.(*ssa.Lookup); ok && lk.CommaOk {
				return lk
			}
		}
	}
	return nil
}

// OrdSidBound implements ORD-SIDBOUND.
func OrdSidBound(p *load.Program) *report.RuleResult {
	r := newResult("ORD-SIDBOUND", "NewSymbolTokenBySID looks an ID up only after 0 <= sid <= MaxID() was established, and rejects everything else with an error", 1)
	fn := p.Func(nil, "NewSymbolTokenBySID")
	if fn == nil {
		missing(r, "NewSymbolTokenBySID", "not found")
		return r
	}
	ff := ssau.ComputeFacts(fn, ssau.StoreKills)
	n := 0
	for _, b := range fn.Blocks {
		for _, in := range b.Instrs {
			c, ok := in.(ssa.CallInstruction)
			if !ok || !c.Common().IsInvoke() || c.Common().Method.Name() != "FindByID" {
				continue
			}
			n++
			lo, hi := false, false
			for f := range ff.At(in) {
				if f.Kind == "ge" && f.Path == "p."+fn.Params[1].Name() && f.Arg == "k:0" {
					lo = true
				}
				if f.Kind == "le" && strings.Contains(f.Path, "p."+fn.Params[1].Name()) && strings.HasSuffix(f.Arg, ".MaxID()") {
					hi = true
				}
			}
			if lo && hi {
				r.OK(p.FuncName(fn), instrPos(p, in), "FindByID lookup", "sid >= 0 and sid <= MaxID() established")
			} else {
				r.Add(report.Obligation{Key: "NewSymbolTokenBySID|bounds", Func: p.FuncName(fn), Pos: instrPos(p, in), What: "FindByID lookup", Status: report.Violation,
					Detail: sprintf("lower bound established: %v, upper bound (MaxID) established: %v — IDs above the maximum must be rejected, not turned into tokens", lo, hi)})
			}
		}
	}
	if n == 0 {
		missing(r, "FindByID call in NewSymbolTokenBySID", "not found")
	}
	return r
}

// OrdNoInput implements ORD-NOINPUT.
func OrdNoInput(p *load.Program) *report.RuleResult {
	r := newResult("ORD-NOINPUT", "Decoder.Decode/DecodeTo: when Next() reports no value, the reader's error is returned if there is one and ErrNoInput otherwise; never nil", 4)
	for _, mn := range []string{"Decode", "DecodeTo"} {
		fn := methodByName(p, "Decoder", mn)
		if fn == nil {
			missing(r, "Decoder."+mn, "not found")
			continue
		}
		ei := errResultIndex(fn)
		var nextCall ssa.Value
		for _, b := range fn.Blocks {
			for _, in := range b.Instrs {
				if c, ok := in.(*ssa.Call); ok && c.Common().IsInvoke() && c.Common().Method.Name() == "Next" {
					nextCall = c
				}
			}
		}
		if nextCall == nil {
			missing(r, "Next() call in Decoder."+mn, "not found")
			continue
		}
		ff := ssau.ComputeFacts(fn, nil)
		n := 0
		for _, ret := range returns(fn) {
			facts := ff.At(ret)
			if !facts.Has("false", ssau.Path(nextCall), "") {
				continue
			}
			n++
			v := ret.Results[ei]
			what := "exit after Next() == false"
			switch {
			case strings.HasSuffix(ssau.Path(v), "ErrNoInput"):
				r.OK(p.FuncName(fn), instrPos(p, ret), what, "returns ErrNoInput")
			case strings.HasSuffix(ssau.Path(v), ".Err()") && facts.Has("nonnil", ssau.Path(v), ""):
				r.OK(p.FuncName(fn), instrPos(p, ret), what, "returns the reader's non-nil Err()")
			default:
				r.Add(report.Obligation{Key: "Decoder." + mn + "|no value", Func: p.FuncName(fn), Pos: instrPos(p, ret), What: what, Status: report.Violation,
					Detail: "when the stream has no further value this exit returns " + describeRet(v) + " instead of the reader's error or ErrNoInput"})
			}
		}
		if n < 2 {
			missing(r, "Decoder."+mn+" exits after Next()==false", sprintf("found %d, expected 2", n))
		}
	}
	return r
}

var _ = token.EQL

var stackFieldCache = map[*load.Program]map[string]string{}

// stackFieldTypes maps struct field names of package ion to their *stack type name.
func stackFieldTypes(p *load.Program) map[string]string {
	if m, ok := stackFieldCache[p]; ok {
		return m
	}
	m := map[string]string{}
	for _, mem := range p.Ion.Members {
		t, ok := mem.(*ssa.Type)
		if !ok {
			continue
		}
		st, ok := t.Type().Underlying().(*types.Struct)
		if !ok {
			continue
		}
		for i := 0; i < st.NumFields(); i++ {
			if tn := ssau.TypeName(st.Field(i).Type()); strings.HasSuffix(tn, "stack") {
				m[st.Field(i).Name()] = tn
			}
		}
	}
	stackFieldCache[p] = m
	return m
}

// paramReachesEncoderOpts: parameter pi of f is stored into Encoder.opts, in f
// or in a module function f hands it to.
func paramReachesEncoderOpts(p *load.Program, f *ssa.Function, pi, depth int) bool {
	if depth > 3 || pi >= len(f.Params) {
		return false
	}
	prm := f.Params[pi]
	for _, b := range f.Blocks {
		for _, in := range b.Instrs {
			switch x := in.(type) {
			case *ssa.Store:
				if x.Val == ssa.Value(prm) {
					if tn, fl, ok := ssau.FieldOf(x.Addr); ok && tn == "Encoder" && fl == "opts" {
						return true
					}
				}
			case ssa.CallInstruction:
				callee := x.Common().StaticCallee()
				if callee == nil || !p.InModule(callee) {
					continue
				}
				for ai, a := range x.Common().Args {
					if a == ssa.Value(prm) && paramReachesEncoderOpts(p, callee, ai, depth+1) {
						return true
					}
				}
			}
		}
	}
	return false
}

// comparesElementsDirectly: every result of the comparator f is an ordering
// comparison (< > <= >=) whose operands are read from memory without passing
// through a call (strings.Compare / bytes.Compare of such operands against 0
// is the same thing), or a constant.
func comparesElementsDirectly(f *ssa.Function) bool {
	var pure func(v ssa.Value, d int) bool
	pure = func(v ssa.Value, d int) bool {
		if d > 10 {
			return false
		}
		switch x := v.(type) {
		case *ssa.Const, *ssa.Parameter, *ssa.FreeVar, *ssa.Alloc, *ssa.Global:
			return true
		case *ssa.UnOp:
			return x.Op == token.MUL && pure(x.X, d+1)
		case *ssa.FieldAddr:
			return pure(x.X, d+1)
		case *ssa.Field:
			return pure(x.X, d+1)
		case *ssa.IndexAddr:
			return pure(x.X, d+1) && pure(x.Index, d+1)
		case *ssa.Index:
			return pure(x.X, d+1) && pure(x.Index, d+1)
		case *ssa.Convert:
			return pure(x.X, d+1)
		case *ssa.ChangeType:
			return pure(x.X, d+1)
		}
		return false
	}
	var okRes func(v ssa.Value, d int) bool
	okRes = func(v ssa.Value, d int) bool {
		if d > 6 {
			return false
		}
		switch x := v.(type) {
		case *ssa.Const:
			return true
		case *ssa.Phi:
			for _, e := range x.Edges {
				if !okRes(e, d+1) {
					return false
				}
			}
			return true
		case *ssa.BinOp:
			switch x.Op {
			case token.LSS, token.GTR, token.LEQ, token.GEQ:
				if c, ok := x.X.(*ssa.Call); ok {
					if sf := c.Call.StaticCallee(); sf != nil && sf.Name() == "Compare" && sf.Pkg != nil && (sf.Pkg.Pkg.Path() == "strings" || sf.Pkg.Pkg.Path() == "bytes") {
						if _, isK := x.Y.(*ssa.Const); isK && len(c.Call.Args) == 2 {
							return pure(c.Call.Args[0], 0) && pure(c.Call.Args[1], 0)
						}
					}
					return false
				}
				return pure(x.X, 0) && pure(x.Y, 0)
			}
		}
		return false
	}
	n := 0
	for _, ret := range returns(f) {
		if len(ret.Results) != 1 {
			return false
		}
		n++
		if !okRes(ret.Results[0], 0) {
			return false
		}
	}
	return n > 0
}

// callsThrough: in is a static call of a module function that reaches, through
// static calls inside the module (at most three levels, never through a
// function for which stop holds), a function for which target holds. It lets
// a rule about "what this function does" follow a step extracted into a helper.
func callsThrough(p *load.Program, in ssa.Instruction, target, stop func(*ssa.Function) bool) bool {
	c, ok := in.(ssa.CallInstruction)
	if !ok {
		return false
	}
	f := load.Unwrap(c.Common().StaticCallee())
	if f == nil || !p.InModule(f) {
		return false
	}
	seen := map[*ssa.Function]bool{}
	var walk func(g *ssa.Function, d int) bool
	walk = func(g *ssa.Function, d int) bool {
		if g == nil || seen[g] || d > 3 || !p.InModule(g) || (stop != nil && stop(g)) {
			return false
		}
		seen[g] = true
		for _, b := range g.Blocks {
			for _, x := range b.Instrs {
				cc, ok := x.(ssa.CallInstruction)
				if !ok {
					continue
				}
				h := load.Unwrap(cc.Common().StaticCallee())
				if h == nil {
					continue
				}
				if target(h) || walk(h, d+1) {
					return true
				}
			}
		}
		return false
	}
	if stop != nil && stop(f) {
		return false
	}
	return walk(f, 0)
}

// helperClosure lists fn and the module functions it reaches through static
// calls (at most depth levels) for which follow holds.
func helperClosure(p *load.Program, fn *ssa.Function, follow func(*ssa.Function) bool, depth int) []*ssa.Function {
	out := []*ssa.Function{fn}
	seen := map[*ssa.Function]bool{fn: true}
	var walk func(g *ssa.Function, d int)
	walk = func(g *ssa.Function, d int) {
		if d >= depth {
			return
		}
		for _, b := range g.Blocks {
			for _, x := range b.Instrs {
				cc, ok := x.(ssa.CallInstruction)
				if !ok {
					continue
				}
				cands := []*ssa.Function{load.Unwrap(cc.Common().StaticCallee())}
				// a step handed over as a function value (w.writeValue(api, val, writeClobText))
				for _, a := range cc.Common().Args {
					switch fv := a.(type) {
					case *ssa.Function:
						cands = append(cands, fv)
					case *ssa.MakeClosure:
						if cf, ok := fv.Fn.(*ssa.Function); ok {
							cands = append(cands, cf)
						}
					}
				}
				for _, h := range cands {
					if h == nil || seen[h] || !p.InModule(h) || p.InTest(h) || len(h.Blocks) == 0 || !follow(h) {
						continue
					}
					seen[h] = true
					out = append(out, h)
					walk(h, d+1)
				}
			}
		}
	}
	walk(fn, 0)
	return out
}
