package rules

import (
	"go/token"
	"sort"
	"strings"

	"golang.org/x/tools/go/ssa"

	"verif/checker/internal/load"
	"verif/checker/internal/report"
	"verif/checker/internal/ssau"
)

// Rules written after seeding round 5 and the defects F40-F45 its agents
// reported on the unchanged tree.

// ---------------------------------------------------------------------------
// ORD-UNREAD

// OrdUnread implements ORD-UNREAD: token kinds whose text tokenizer.ReadValue
// reads with the same reader leave the input in the same state at every exit of
// tokenizer.Next that announces them.
func OrdUnread(p *load.Program) *report.RuleResult {
	r := newResult("ORD-UNREAD", "tokenizer.Next and tokenizer.ReadValue agree on where a token's text starts: the token kinds that one arm of ReadValue hands to the same reader (operator and dot to readOperator) are announced by Next in the same input state, namely with the first character put back (unread) on every path, or on none. A kind announced with its first character consumed on some path is read back without it (a lone '.' came back as the empty symbol)", 3)
	next := methodByName(p, "tokenizer", "Next")
	rv := methodByName(p, "tokenizer", "ReadValue")
	if next == nil || rv == nil || len(rv.Params) < 2 {
		missing(r, "tokenizer.Next / tokenizer.ReadValue", "not found")
		return r
	}
	names, _ := namedConstsOf(p, "token")
	// ReadValue: reader -> kinds
	ef := ssau.TrackEnum(rv, matchPath(ssau.Path(rv.Params[1])))
	groups := map[string][]string{}
	for _, b := range rv.Blocks {
		for _, in := range b.Instrs {
			c, ok := in.(*ssa.Call)
			if !ok {
				continue
			}
			f := c.Call.StaticCallee()
			if f == nil || recvTypeName(f) != "tokenizer" {
				continue
			}
			vs, _ := ef.At(c)
			if !vs.Known() {
				continue
			}
			for _, k := range vs.Values() {
				groups[f.Name()] = append(groups[f.Name()], k)
			}
		}
	}
	if len(groups) < 4 {
		missing(r, "tokenizer.ReadValue dispatch", sprintf("only %d readers found under a known token kind", len(groups)))
		return r
	}
	readerOf := map[string]string{}
	for rd, ks := range groups {
		for _, k := range ks {
			readerOf[k] = rd
		}
	}
	// Next: must-unread at every ok(kind, _) with a constant kind
	ev := ssau.MustEvents(next, func(in ssa.Instruction) []string {
		if calleeIs(in, "tokenizer", "unread") {
			return []string{"unread"}
		}
		return nil
	})
	type exit struct {
		in     ssa.Instruction
		kind   string
		unread bool
	}
	byReader := map[string][]exit{}
	for _, b := range next.Blocks {
		for _, in := range b.Instrs {
			if !calleeIs(in, "tokenizer", "ok") {
				continue
			}
			args := in.(ssa.CallInstruction).Common().Args
			if len(args) < 2 {
				continue
			}
			k, ok := args[1].(*ssa.Const)
			if !ok || k.Value == nil {
				continue
			}
			ks := k.Value.ExactString()
			rd, ok := readerOf[ks]
			if !ok {
				continue
			}
			byReader[rd] = append(byReader[rd], exit{in, ks, ev.At(in)["unread"]})
		}
	}
	var rds []string
	for rd := range byReader {
		rds = append(rds, rd)
	}
	sort.Strings(rds)
	n := 0
	for _, rd := range rds {
		exits := byReader[rd]
		nu := 0
		for _, e := range exits {
			if e.unread {
				nu++
			}
		}
		for _, e := range exits {
			n++
			kn, _ := atoi64(e.kind)
			what := sprintf("exit announcing %s (read by %s)", names[kn], rd)
			switch {
			case nu == len(exits) || nu == 0:
				r.OK(p.FuncName(next), instrPos(p, e.in), what, sprintf("all %d exits for this reader agree (first character put back: %v)", len(exits), nu > 0))
			case e.unread:
				r.OK(p.FuncName(next), instrPos(p, e.in), what, "first character put back on every path")
			default:
				r.Bad(p.FuncName(next), instrPos(p, e.in), what, sprintf("the first character is not put back on every path to this exit, while %d of the %d exits that %s serves put it back: the reader starts after the character and returns the text without it", nu, len(exits), rd))
			}
		}
	}
	if n == 0 {
		missing(r, "tokenizer.ok calls with a constant token kind in Next", "none found")
	}
	return r
}

// ---------------------------------------------------------------------------
// TAB-OPCOMMENT

// TabOpComment implements TAB-OPCOMMENT: every scanner of an operator run
// stops in front of a comment.
func TabOpComment(p *load.Program) *report.RuleResult {
	r := newResult("TAB-OPCOMMENT", "every tokenizer loop that consumes a run of operator characters (a loop continued by isOperatorChar) looks for '/' followed by '/' or '*' and stops there, as whitespace skipping does everywhere else: otherwise '+// note' is the operator '+//' when read and '+' followed by a comment when the enclosing container is skipped, so what a Reader returns depends on how the caller navigated", 2)
	n := 0
	for _, fn := range sortedFuncs(p) {
		if p.InTest(fn) || recvTypeName(fn) != "tokenizer" || len(fn.Blocks) == 0 {
			continue
		}
		// a loop continued by isOperatorChar: a call whose result decides an If inside a cycle
		var loopCall *ssa.Call
		for _, b := range fn.Blocks {
			for _, in := range b.Instrs {
				c, ok := in.(*ssa.Call)
				if !ok || c.Call.StaticCallee() == nil || c.Call.StaticCallee().Name() != "isOperatorChar" {
					continue
				}
				ib, si := branchDecidedBy(c, true, 4)
				if ib == nil {
					continue
				}
				if ssau.Reaches(ib.Succs[si], b) {
					loopCall = c
				}
			}
		}
		if loopCall == nil {
			continue
		}
		n++
		// inside the function or its helpers: comparisons with '/' and with '*'
		slash, star := false, false
		for _, g := range helperClosure(p, fn, func(f *ssa.Function) bool {
			// not the character-class predicate itself, which lists '/' and '*' as operator characters
			return (f.Object() == nil || !f.Object().Exported()) && f != loopCall.Call.StaticCallee() && f.Name() != "peek" && f.Name() != "peekN" && f.Name() != "read" && f.Name() != "unread"
		}, 1) {
			for _, b := range g.Blocks {
				for _, in := range b.Instrs {
					bo, ok := in.(*ssa.BinOp)
					if !ok || (bo.Op != token.EQL && bo.Op != token.NEQ) {
						continue
					}
					for _, o := range []ssa.Value{bo.X, bo.Y} {
						if k, ok := ssau.ConstInt(o); ok {
							slash = slash || k == '/'
							star = star || k == '*'
						}
					}
				}
			}
		}
		what := "operator run scanned in a loop"
		if slash && star {
			r.OK(p.FuncName(fn), instrPos(p, loopCall), what, "the scan tests for '/' and for a following '/' or '*'")
		} else {
			r.Bad(p.FuncName(fn), instrPos(p, loopCall), what, "the run is consumed without looking for a comment start ('/' followed by '/' or '*'): '+// note' and '+/* note */' are read as the operators '+//' and '+/*', while skipping the same text treats them as '+' and a comment")
		}
	}
	if n == 0 {
		missing(r, "loops continued by isOperatorChar in the tokenizer", "none found")
	}
	return r
}

// ---------------------------------------------------------------------------
// ORD-OPENSTAR

// OrdOpenStar implements ORD-OPENSTAR: the '*' that opens a block comment is
// consumed before the scan for the closing '*/' begins.
func OrdOpenStar(p *load.Program) *report.RuleResult {
	r := newResult("ORD-OPENSTAR", "where the tokenizer recognises the start of a block comment by peeking at the '*' (without consuming it), that '*' is consumed before the scan for the closing '*/' starts: the scanner treats every '*' it reads as a possible first half of the terminator, so '/*/' would otherwise count as a complete comment", 1)
	n := 0
	for _, fn := range sortedFuncs(p) {
		if p.InTest(fn) || recvTypeName(fn) != "tokenizer" || len(fn.Blocks) == 0 {
			continue
		}
		ff := (*ssau.FactFlow)(nil)
		for _, b := range fn.Blocks {
			for _, in := range b.Instrs {
				if !calleeIs(in, "tokenizer", "skipBlockComment") {
					continue
				}
				n++
				if ff == nil {
					ff = ssau.ComputeFacts(fn, ssau.StoreKills)
				}
				// the value known to be '*' here
				fact, ok := ff.At(in).Any("eq", func(f ssau.Fact) bool { return f.Arg == "k:42" })
				what := "scan for the end of a block comment"
				if !ok {
					r.Unknown(p.FuncName(fn), instrPos(p, in), what, "no value is known to equal '*' at this call: the rule cannot tell how the comment start was recognised")
					continue
				}
				// was it obtained by peek (still in the input) or by read (consumed)?
				peeked := strings.Contains(fact.Path, "peek(")
				for _, ob := range fn.Blocks {
					for _, oi := range ob.Instrs {
						if ex, ok := oi.(*ssa.Extract); ok && ssau.Path(ex) == fact.Path {
							if oc, ok := ex.Tuple.(*ssa.Call); ok && calleeIs(oc, "tokenizer", "peek") {
								peeked = true
							}
						}
					}
				}
				if !peeked {
					r.OK(p.FuncName(fn), instrPos(p, in), what, "the '*' was consumed when it was recognised ("+cleanPath(fact.Path)+")")
					continue
				}
				// a read() must lie on every path between the peek's test and this call
				consumed := false
				for _, d := range domChain(in.Block()) {
					for _, x := range d.Instrs {
						if x == in {
							break
						}
						if calleeIs(x, "tokenizer", "read") {
							if fs := ff.At(x); fs.Has("eq", fact.Path, "k:42") {
								consumed = true
							}
						}
					}
				}
				if consumed {
					r.OK(p.FuncName(fn), instrPos(p, in), what, "the peeked '*' is consumed by a read() before the scan starts")
				} else {
					r.Bad(p.FuncName(fn), instrPos(p, in), what, "the '*' of the opening '/*' was only peeked and is still in the input when the scan starts: it is taken for the first half of '*/', so '/*/' is a complete comment ('/*/ a */ 5' yields a and a syntax error instead of 5)")
				}
			}
		}
	}
	if n == 0 {
		missing(r, "calls of tokenizer.skipBlockComment", "none found")
	}
	return r
}

// domChain: the block and its dominators, innermost first.
func domChain(b *ssa.BasicBlock) []*ssa.BasicBlock {
	var out []*ssa.BasicBlock
	for d := b; d != nil; d = d.Idom() {
		out = append(out, d)
	}
	return out
}

// ---------------------------------------------------------------------------
// TAB-SURROGATE

// TabSurrogate implements TAB-SURROGATE: the four-digit escape is the only
// spelling of a UTF-16 surrogate, and the reader pairs them.
func TabSurrogate(p *load.Program) *report.RuleResult {
	r := newResult("TAB-SURROGATE", "the text reader's four-digit escape (\\uHHHH) passes its result through UTF-16 surrogate pairing (utf16.IsSurrogate / utf16.DecodeRune, directly or in a helper) before the rune is appended: Ion text spells a code point above U+FFFF either as \\UHHHHHHHH or as a \\u pair, and both spellings denote the same string", 1)
	n := 0
	for _, fn := range sortedFuncs(p) {
		if p.InTest(fn) || recvTypeName(fn) != "tokenizer" || len(fn.Blocks) == 0 {
			continue
		}
		for _, b := range fn.Blocks {
			for _, in := range b.Instrs {
				c, ok := in.(*ssa.Call)
				if !ok || !calleeIs(in, "tokenizer", "readHexEscapeSeq") {
					continue
				}
				args := c.Call.Args
				k, ok := ssau.ConstInt(args[len(args)-1])
				if !ok || k != 4 {
					continue
				}
				n++
				paired := false
				for _, g := range helperClosure(p, fn, func(f *ssa.Function) bool { return f.Object() == nil || !f.Object().Exported() }, 2) {
					for _, gb := range g.Blocks {
						for _, x := range gb.Instrs {
							cc, ok := x.(ssa.CallInstruction)
							if !ok {
								continue
							}
							f := cc.Common().StaticCallee()
							if f != nil && f.Pkg != nil && f.Pkg.Pkg.Path() == "unicode/utf16" && (f.Name() == "DecodeRune" || f.Name() == "Decode") {
								paired = true
							}
						}
					}
				}
				what := "four-digit escape decoded"
				if paired {
					r.OK(p.FuncName(fn), instrPos(p, c), what, "surrogate halves are combined with unicode/utf16")
				} else {
					r.Bad(p.FuncName(fn), instrPos(p, c), what, "the result is used as a rune as it is: a surrogate pair \"\\uD83D\\uDE00\" decodes to two U+FFFD instead of U+1F600")
				}
			}
		}
	}
	if n == 0 {
		missing(r, "readHexEscapeSeq(4) in the tokenizer", "not found")
	}
	return r
}

// ---------------------------------------------------------------------------
// NIL-ADDR

// NilAddr implements NIL-ADDR: reflect.Value.Addr is called only on a value
// known to be addressable.
func NilAddr(sc Scope, min int) func(p *load.Program) *report.RuleResult {
	return func(p *load.Program) *report.RuleResult {
		r := newResult("NIL-ADDR", "in the "+sc.Name+", reflect.Value.Addr is called only where the same value's CanAddr() is known to be true, or on a value that is addressable by construction (the Elem of a pointer or of reflect.New): Marshal receives values by interface, which are not addressable, and Addr on such a value panics", min)
		for _, fn := range sortedFuncs(p) {
			if !sc.has(p, fn) || len(fn.Blocks) == 0 {
				continue
			}
			var ff *ssau.FactFlow
			for _, b := range fn.Blocks {
				for _, in := range b.Instrs {
					c, ok := in.(*ssa.Call)
					if !ok {
						continue
					}
					f := c.Call.StaticCallee()
					if f == nil || f.Pkg == nil || f.Pkg.Pkg.Path() != "reflect" || f.Name() != "Addr" || recvTypeName(f) != "Value" || len(c.Call.Args) < 1 {
						continue
					}
					if ff == nil {
						ff = ssau.ComputeFacts(fn, ssau.StoreKills)
					}
					recv := c.Call.Args[0]
					rp := ssau.Path(recv)
					what := sprintf("reflect.Value.Addr of %s", describeOperand(recv))
					_, guarded := ff.At(c).Any("true", func(fa ssau.Fact) bool {
						return strings.HasPrefix(fa.Path, rp) && strings.Contains(strings.TrimPrefix(fa.Path, rp), "CanAddr(")
					})
					switch {
					case guarded:
						r.OK(p.FuncName(fn), instrPos(p, c), what, "CanAddr() of the same value is true here")
					case addressableByConstruction(recv, 3):
						r.OK(p.FuncName(fn), instrPos(p, c), what, "the value is the Elem of a pointer or of reflect.New")
					default:
						r.Bad(p.FuncName(fn), instrPos(p, c), what, "nothing establishes that the value is addressable: a value reached from an interface or passed by value is not, and Addr panics (Marshal of a Decimal held by value)")
					}
				}
			}
		}
		return r
	}
}

func addressableByConstruction(v ssa.Value, depth int) bool {
	if depth == 0 {
		return false
	}
	switch x := v.(type) {
	case *ssa.UnOp:
		if x.Op == token.MUL {
			// a load of a local the value was spilled to: look at the stores
			if al, ok := x.X.(*ssa.Alloc); ok && al.Referrers() != nil {
				n, okAll := 0, true
				for _, rf := range *al.Referrers() {
					if st, ok := rf.(*ssa.Store); ok && st.Addr == ssa.Value(al) {
						n++
						okAll = okAll && addressableByConstruction(st.Val, depth-1)
					}
				}
				return n > 0 && okAll
			}
		}
	case *ssa.Call:
		f := x.Call.StaticCallee()
		if f == nil || f.Pkg == nil || f.Pkg.Pkg.Path() != "reflect" {
			return false
		}
		switch f.Name() {
		case "Elem":
			// Elem of a pointer Value is addressable; of an interface it is not: require reflect.New
			// or a Kind()==Ptr fact is beyond this rule, so accept only New(...).Elem()
			if len(x.Call.Args) == 1 {
				if nc, ok := x.Call.Args[0].(*ssa.Call); ok {
					if nf := nc.Call.StaticCallee(); nf != nil && nf.Pkg != nil && nf.Pkg.Pkg.Path() == "reflect" && nf.Name() == "New" {
						return true
					}
				}
			}
		case "Field", "Index":
			return len(x.Call.Args) >= 1 && addressableByConstruction(x.Call.Args[0], depth-1)
		}
	}
	return false
}

var _ = report.Discharged
