package rules

import (
	"go/token"
	"go/types"
	"sort"
	"strings"

	"golang.org/x/tools/go/ssa"

	"verif/checker/internal/load"
	"verif/checker/internal/report"
	"verif/checker/internal/ssau"
)

// Rules written after seeding round 5 and the defects F40-F45 its agents
// reported on the unchanged tree.

// ---------------------------------------------------------------------------
// ORD-UNREAD

// OrdUnread implements ORD-UNREAD: token kinds whose text tokenizer.ReadValue
// reads with the same reader leave the input in the same state at every exit of
// tokenizer.Next that announces them.
func OrdUnread(p *load.Program) *report.RuleResult {
	r := newResult("ORD-UNREAD", "tokenizer.Next and tokenizer.ReadValue agree on where a token's text starts: the token kinds that one arm of ReadValue hands to the same reader (operator and dot to readOperator) are announced by Next in the same input state, namely with the first character put back (unread) on every path, or on none. A kind announced with its first character consumed on some path is read back without it (a lone '.' came back as the empty symbol)", 3)
	next := methodByName(p, "tokenizer", "Next")
	rv := methodByName(p, "tokenizer", "ReadValue")
	if next == nil || rv == nil || len(rv.Params) < 2 {
		missing(r, "tokenizer.Next / tokenizer.ReadValue", "not found")
		return r
	}
	names, _ := namedConstsOf(p, "token")
	// ReadValue (or the helper it hands the token kind to): reader -> kinds
	dispatchIn := func(g *ssa.Function) map[string][]string {
		out := map[string][]string{}
		var tokParam *ssa.Parameter
		for _, pa := range g.Params {
			if ssau.TypeName(pa.Type()) == "token" {
				tokParam = pa
			}
		}
		if tokParam == nil {
			return out
		}
		ef := ssau.TrackEnum(g, matchPath(ssau.Path(tokParam)))
		for _, b := range g.Blocks {
			for _, in := range b.Instrs {
				c, ok := in.(*ssa.Call)
				if !ok {
					continue
				}
				f := c.Call.StaticCallee()
				if f == nil || recvTypeName(f) != "tokenizer" {
					continue
				}
				vs, _ := ef.At(c)
				if !vs.Known() {
					continue
				}
				for _, k := range vs.Values() {
					out[f.Name()] = append(out[f.Name()], k)
				}
			}
		}
		return out
	}
	groups := dispatchIn(rv)
	for _, b := range rv.Blocks {
		for _, in := range b.Instrs {
			if c, ok := in.(ssa.CallInstruction); ok {
				if g := c.Common().StaticCallee(); g != nil && g != rv && recvTypeName(g) == "tokenizer" && len(g.Blocks) > 0 {
					if gg := dispatchIn(g); len(gg) > len(groups) {
						groups = gg
					}
				}
			}
		}
	}
	if len(groups) < 4 {
		missing(r, "tokenizer.ReadValue dispatch", sprintf("only %d readers found under a known token kind", len(groups)))
		return r
	}
	readerOf := map[string]string{}
	for rd, ks := range groups {
		for _, k := range ks {
			readerOf[k] = rd
		}
	}
	// Next: must-unread at every ok(kind, _) with a constant kind
	ev := ssau.MustEvents(next, func(in ssa.Instruction) []string {
		if calleeIs(in, "tokenizer", "unread") {
			return []string{"unread"}
		}
		return nil
	})
	type exit struct {
		in     ssa.Instruction
		kind   string
		unread bool
	}
	byReader := map[string][]exit{}
	for _, b := range next.Blocks {
		for _, in := range b.Instrs {
			if !calleeIs(in, "tokenizer", "ok") {
				continue
			}
			args := in.(ssa.CallInstruction).Common().Args
			if len(args) < 2 {
				continue
			}
			k, ok := args[1].(*ssa.Const)
			if !ok || k.Value == nil {
				continue
			}
			ks := k.Value.ExactString()
			rd, ok := readerOf[ks]
			if !ok {
				continue
			}
			byReader[rd] = append(byReader[rd], exit{in, ks, ev.At(in)["unread"]})
		}
	}
	var rds []string
	for rd := range byReader {
		rds = append(rds, rd)
	}
	sort.Strings(rds)
	n := 0
	for _, rd := range rds {
		exits := byReader[rd]
		nu := 0
		for _, e := range exits {
			if e.unread {
				nu++
			}
		}
		for _, e := range exits {
			n++
			kn, _ := atoi64(e.kind)
			what := sprintf("exit announcing %s (read by %s)", names[kn], rd)
			switch {
			case nu == len(exits) || nu == 0:
				r.OK(p.FuncName(next), instrPos(p, e.in), what, sprintf("all %d exits for this reader agree (first character put back: %v)", len(exits), nu > 0))
			case e.unread:
				r.OK(p.FuncName(next), instrPos(p, e.in), what, "first character put back on every path")
			default:
				r.Bad(p.FuncName(next), instrPos(p, e.in), what, sprintf("the first character is not put back on every path to this exit, while %d of the %d exits that %s serves put it back: the reader starts after the character and returns the text without it", nu, len(exits), rd))
			}
		}
	}
	if n == 0 {
		missing(r, "tokenizer.ok calls with a constant token kind in Next", "none found")
	}
	return r
}

// ---------------------------------------------------------------------------
// TAB-OPCOMMENT

// TabOpComment implements TAB-OPCOMMENT: every scanner of an operator run
// stops in front of a comment.
func TabOpComment(p *load.Program) *report.RuleResult {
	r := newResult("TAB-OPCOMMENT", "every tokenizer loop that consumes a run of operator characters (a loop continued by isOperatorChar) looks for '/' followed by '/' or '*' and stops there, as whitespace skipping does everywhere else: otherwise '+// note' is the operator '+//' when read and '+' followed by a comment when the enclosing container is skipped, so what a Reader returns depends on how the caller navigated", 2)
	n := 0
	for _, fn := range sortedFuncs(p) {
		if p.InTest(fn) || recvTypeName(fn) != "tokenizer" || len(fn.Blocks) == 0 {
			continue
		}
		// a loop continued by isOperatorChar: a call whose result decides an If inside a cycle
		var loopCall *ssa.Call
		for _, b := range fn.Blocks {
			for _, in := range b.Instrs {
				c, ok := in.(*ssa.Call)
				if !ok || c.Call.StaticCallee() == nil || c.Call.StaticCallee().Name() != "isOperatorChar" {
					continue
				}
				ib, si := branchDecidedBy(c, true, 4)
				if ib == nil {
					continue
				}
				if ssau.Reaches(ib.Succs[si], b) {
					loopCall = c
				}
			}
		}
		if loopCall == nil {
			continue
		}
		n++
		// inside the function or its helpers: comparisons with '/' and with '*'
		slash, star := false, false
		for _, g := range helperClosure(p, fn, func(f *ssa.Function) bool {
			// not the character-class predicate itself, which lists '/' and '*' as operator characters
			return (f.Object() == nil || !f.Object().Exported()) && f != loopCall.Call.StaticCallee() && f.Name() != "peek" && f.Name() != "peekN" && f.Name() != "read" && f.Name() != "unread"
		}, 1) {
			for _, b := range g.Blocks {
				for _, in := range b.Instrs {
					bo, ok := in.(*ssa.BinOp)
					if !ok || (bo.Op != token.EQL && bo.Op != token.NEQ) {
						continue
					}
					for _, o := range []ssa.Value{bo.X, bo.Y} {
						if k, ok := ssau.ConstInt(o); ok {
							slash = slash || k == '/'
							star = star || k == '*'
						}
					}
				}
			}
		}
		what := "operator run scanned in a loop"
		if slash && star {
			r.OK(p.FuncName(fn), instrPos(p, loopCall), what, "the scan tests for '/' and for a following '/' or '*'")
		} else {
			r.Bad(p.FuncName(fn), instrPos(p, loopCall), what, "the run is consumed without looking for a comment start ('/' followed by '/' or '*'): '+// note' and '+/* note */' are read as the operators '+//' and '+/*', while skipping the same text treats them as '+' and a comment")
		}
	}
	if n == 0 {
		missing(r, "loops continued by isOperatorChar in the tokenizer", "none found")
	}
	return r
}

// ---------------------------------------------------------------------------
// ORD-OPENSTAR

// OrdOpenStar implements ORD-OPENSTAR: the '*' that opens a block comment is
// consumed before the scan for the closing '*/' begins.
func OrdOpenStar(p *load.Program) *report.RuleResult {
	r := newResult("ORD-OPENSTAR", "where the tokenizer recognises the start of a block comment by peeking at the '*' (without consuming it), that '*' is consumed before the scan for the closing '*/' starts: the scanner treats every '*' it reads as a possible first half of the terminator, so '/*/' would otherwise count as a complete comment", 1)
	n := 0
	for _, fn := range sortedFuncs(p) {
		if p.InTest(fn) || recvTypeName(fn) != "tokenizer" || len(fn.Blocks) == 0 {
			continue
		}
		ff := (*ssau.FactFlow)(nil)
		for _, b := range fn.Blocks {
			for _, in := range b.Instrs {
				if !calleeIs(in, "tokenizer", "skipBlockComment") {
					continue
				}
				n++
				if ff == nil {
					ff = ssau.ComputeFacts(fn, ssau.StoreKills)
				}
				// the value known to be '*' here
				fact, ok := ff.At(in).Any("eq", func(f ssau.Fact) bool { return f.Arg == "k:42" })
				what := "scan for the end of a block comment"
				if !ok {
					r.Unknown(p.FuncName(fn), instrPos(p, in), what, "no value is known to equal '*' at this call: the rule cannot tell how the comment start was recognised")
					continue
				}
				// was it obtained by peek (still in the input) or by read (consumed)?
				peeked := strings.Contains(fact.Path, "peek(")
				for _, ob := range fn.Blocks {
					for _, oi := range ob.Instrs {
						if ex, ok := oi.(*ssa.Extract); ok && ssau.Path(ex) == fact.Path {
							if oc, ok := ex.Tuple.(*ssa.Call); ok && calleeIs(oc, "tokenizer", "peek") {
								peeked = true
							}
						}
					}
				}
				if !peeked {
					r.OK(p.FuncName(fn), instrPos(p, in), what, "the '*' was consumed when it was recognised ("+cleanPath(fact.Path)+")")
					continue
				}
				// a read() must lie on every path between the peek's test and this call
				consumed := false
				for _, d := range domChain(in.Block()) {
					for _, x := range d.Instrs {
						if x == in {
							break
						}
						if calleeIs(x, "tokenizer", "read") {
							if fs := ff.At(x); fs.Has("eq", fact.Path, "k:42") {
								consumed = true
							}
						}
					}
				}
				if consumed {
					r.OK(p.FuncName(fn), instrPos(p, in), what, "the peeked '*' is consumed by a read() before the scan starts")
				} else {
					r.Bad(p.FuncName(fn), instrPos(p, in), what, "the '*' of the opening '/*' was only peeked and is still in the input when the scan starts: it is taken for the first half of '*/', so '/*/' is a complete comment ('/*/ a */ 5' yields a and a syntax error instead of 5)")
				}
			}
		}
	}
	if n == 0 {
		missing(r, "calls of tokenizer.skipBlockComment", "none found")
	}
	return r
}

// domChain: the block and its dominators, innermost first.
func domChain(b *ssa.BasicBlock) []*ssa.BasicBlock {
	var out []*ssa.BasicBlock
	for d := b; d != nil; d = d.Idom() {
		out = append(out, d)
	}
	return out
}

// ---------------------------------------------------------------------------
// TAB-SURROGATE

// TabSurrogate implements TAB-SURROGATE: the four-digit escape is the only
// spelling of a UTF-16 surrogate, and the reader pairs them.
func TabSurrogate(p *load.Program) *report.RuleResult {
	r := newResult("TAB-SURROGATE", "the text reader's four-digit escape (\\uHHHH) passes its result through UTF-16 surrogate pairing (utf16.IsSurrogate / utf16.DecodeRune, directly or in a helper) before the rune is appended: Ion text spells a code point above U+FFFF either as \\UHHHHHHHH or as a \\u pair, and both spellings denote the same string", 1)
	n := 0
	for _, fn := range sortedFuncs(p) {
		if p.InTest(fn) || recvTypeName(fn) != "tokenizer" || len(fn.Blocks) == 0 {
			continue
		}
		for _, b := range fn.Blocks {
			for _, in := range b.Instrs {
				c, ok := in.(*ssa.Call)
				if !ok || !calleeIs(in, "tokenizer", "readHexEscapeSeq") {
					continue
				}
				args := c.Call.Args
				k, ok := ssau.ConstInt(args[len(args)-1])
				if !ok || k != 4 {
					continue
				}
				n++
				paired := false
				for _, g := range helperClosure(p, fn, func(f *ssa.Function) bool { return f.Object() == nil || !f.Object().Exported() }, 2) {
					for _, gb := range g.Blocks {
						for _, x := range gb.Instrs {
							cc, ok := x.(ssa.CallInstruction)
							if !ok {
								continue
							}
							f := cc.Common().StaticCallee()
							if f != nil && f.Pkg != nil && f.Pkg.Pkg.Path() == "unicode/utf16" && (f.Name() == "DecodeRune" || f.Name() == "Decode") {
								paired = true
							}
						}
					}
				}
				what := "four-digit escape decoded"
				if paired {
					r.OK(p.FuncName(fn), instrPos(p, c), what, "surrogate halves are combined with unicode/utf16")
				} else {
					r.Bad(p.FuncName(fn), instrPos(p, c), what, "the result is used as a rune as it is: a surrogate pair \"\\uD83D\\uDE00\" decodes to two U+FFFD instead of U+1F600")
				}
			}
		}
	}
	if n == 0 {
		missing(r, "readHexEscapeSeq(4) in the tokenizer", "not found")
	}
	return r
}

// ---------------------------------------------------------------------------
// NIL-ADDR

// NilAddr implements NIL-ADDR: reflect.Value.Addr is called only on a value
// known to be addressable.
func NilAddr(sc Scope, min int) func(p *load.Program) *report.RuleResult {
	return func(p *load.Program) *report.RuleResult {
		r := newResult("NIL-ADDR", "in the "+sc.Name+", reflect.Value.Addr is called only where the same value's CanAddr() is known to be true, or on a value that is addressable by construction (the Elem of a pointer or of reflect.New): Marshal receives values by interface, which are not addressable, and Addr on such a value panics", min)
		for _, fn := range sortedFuncs(p) {
			if !sc.has(p, fn) || len(fn.Blocks) == 0 {
				continue
			}
			var ff *ssau.FactFlow
			for _, b := range fn.Blocks {
				for _, in := range b.Instrs {
					c, ok := in.(*ssa.Call)
					if !ok {
						continue
					}
					f := c.Call.StaticCallee()
					if f == nil || f.Pkg == nil || f.Pkg.Pkg.Path() != "reflect" || f.Name() != "Addr" || recvTypeName(f) != "Value" || len(c.Call.Args) < 1 {
						continue
					}
					if ff == nil {
						ff = ssau.ComputeFacts(fn, ssau.StoreKills)
					}
					recv := c.Call.Args[0]
					rp := ssau.Path(recv)
					what := sprintf("reflect.Value.Addr of %s", describeOperand(recv))
					_, guarded := ff.At(c).Any("true", func(fa ssau.Fact) bool {
						return strings.HasPrefix(fa.Path, rp) && strings.Contains(strings.TrimPrefix(fa.Path, rp), "CanAddr(")
					})
					switch {
					case guarded:
						r.OK(p.FuncName(fn), instrPos(p, c), what, "CanAddr() of the same value is true here")
					case addressableByConstruction(recv, 3):
						r.OK(p.FuncName(fn), instrPos(p, c), what, "the value is the Elem of a pointer or of reflect.New")
					default:
						r.Bad(p.FuncName(fn), instrPos(p, c), what, "nothing establishes that the value is addressable: a value reached from an interface or passed by value is not, and Addr panics (Marshal of a Decimal held by value)")
					}
				}
			}
		}
		return r
	}
}

func addressableByConstruction(v ssa.Value, depth int) bool {
	if depth == 0 {
		return false
	}
	switch x := v.(type) {
	case *ssa.UnOp:
		if x.Op == token.MUL {
			// a load of a local the value was spilled to: look at the stores
			if al, ok := x.X.(*ssa.Alloc); ok && al.Referrers() != nil {
				n, okAll := 0, true
				for _, rf := range *al.Referrers() {
					if st, ok := rf.(*ssa.Store); ok && st.Addr == ssa.Value(al) {
						n++
						okAll = okAll && addressableByConstruction(st.Val, depth-1)
					}
				}
				return n > 0 && okAll
			}
		}
	case *ssa.Call:
		f := x.Call.StaticCallee()
		if f == nil || f.Pkg == nil || f.Pkg.Pkg.Path() != "reflect" {
			return false
		}
		switch f.Name() {
		case "Elem":
			// Elem of a pointer Value is addressable; of an interface it is not: require reflect.New
			// or a Kind()==Ptr fact is beyond this rule, so accept only New(...).Elem()
			if len(x.Call.Args) == 1 {
				if nc, ok := x.Call.Args[0].(*ssa.Call); ok {
					if nf := nc.Call.StaticCallee(); nf != nil && nf.Pkg != nil && nf.Pkg.Pkg.Path() == "reflect" && nf.Name() == "New" {
						return true
					}
				}
			}
		case "Field", "Index":
			return len(x.Call.Args) >= 1 && addressableByConstruction(x.Call.Args[0], depth-1)
		}
	}
	return false
}

var _ = report.Discharged

// ---------------------------------------------------------------------------
// OWN-SCRATCHOUT

// OwnScratchOut implements OWN-SCRATCHOUT: a byte buffer kept in a field of a
// reader or writer is never handed out.
func OwnScratchOut(p *load.Program) *report.RuleResult {
	r := newResult("OWN-SCRATCHOUT", "no method of a type of package ion hands out a byte slice that aliases a buffer kept in a field of its receiver ([]byte, [n]byte, bytes.Buffer): such a slice is only indexed, measured, copied from, appended to and stored back into the same field; it is not returned to a caller outside the type's own helpers, stored anywhere else, boxed, or passed to something that keeps it. The next value overwrites a reused buffer, so a value handed out earlier (a clob from ByteValue, an atom buffered until Finish) would change after the fact", 0)
	for _, fn := range sortedFuncs(p) {
		if p.InTest(fn) || !p.InModule(fn) || fn.Pkg == nil || fn.Pkg != p.Ion || fn.Signature.Recv() == nil || len(fn.Blocks) == 0 || len(fn.Params) == 0 {
			continue
		}
		recv := fn.Params[0]
		for _, b := range fn.Blocks {
			for _, in := range b.Instrs {
				fa, ok := in.(*ssa.FieldAddr)
				if !ok || fa.X != ssa.Value(recv) || fa.Referrers() == nil {
					continue
				}
				fname := fieldName2(fa)
				kind := scratchKind(fa)
				if kind == "" {
					continue
				}
				for _, u := range *fa.Referrers() {
					var origin ssa.Value
					switch x := u.(type) {
					case *ssa.UnOp:
						if kind == "slice" && x.Op == token.MUL {
							origin = x
						}
					case *ssa.Slice:
						if kind == "array" && x.X == ssa.Value(fa) {
							origin = x
						}
					case *ssa.Call:
						if f := x.Call.StaticCallee(); kind == "buffer" && f != nil && f.Pkg != nil && f.Pkg.Pkg.Path() == "bytes" && (f.Name() == "Bytes" || f.Name() == "Next") && len(x.Call.Args) > 0 && x.Call.Args[0] == ssa.Value(fa) {
							origin = x
						}
					}
					if origin == nil {
						continue
					}
					what := sprintf("bytes of the receiver's buffer field %s", fname)
					w := &scratchWalk{p: p, field: fname, recvType: recvTypeName(fn), seen: map[ssa.Value]bool{}}
					if esc := w.escapes(origin, 3); esc != "" {
						r.Bad(p.FuncName(fn), instrPos(p, origin.(ssa.Instruction)), what, "the slice aliases a buffer that the next value reuses and "+esc+": what was handed out changes when the buffer is written again")
					} else {
						r.OK(p.FuncName(fn), instrPos(p, origin.(ssa.Instruction)), what, "only inspected, copied from, appended to or stored back into the same field")
					}
				}
			}
		}
	}
	return r
}

func scratchKind(fa *ssa.FieldAddr) string {
	pt, ok := fa.Type().Underlying().(*types.Pointer)
	if !ok {
		return ""
	}
	t := pt.Elem()
	if sl, ok := t.Underlying().(*types.Slice); ok {
		if b, ok := sl.Elem().(*types.Basic); ok && b.Kind() == types.Uint8 {
			if _, named := t.(*types.Named); !named {
				return "slice"
			}
		}
		return ""
	}
	if ar, ok := t.Underlying().(*types.Array); ok {
		if b, ok := ar.Elem().(*types.Basic); ok && b.Kind() == types.Uint8 {
			return "array"
		}
		return ""
	}
	if ptr, ok := t.(*types.Pointer); ok {
		t = ptr.Elem()
	}
	if n, ok := t.(*types.Named); ok && n.Obj().Pkg() != nil && n.Obj().Pkg().Path() == "bytes" && n.Obj().Name() == "Buffer" {
		if _, isPtr := pt.Elem().(*types.Pointer); !isPtr {
			return "buffer"
		}
	}
	return ""
}

type scratchWalk struct {
	p        *load.Program
	field    string
	recvType string
	seen     map[ssa.Value]bool
	inCallee int // > 0 while a callee is walked on behalf of a call whose result is followed at the call site
}

func (w *scratchWalk) escapes(v ssa.Value, depth int) string {
	if w.seen[v] || v.Referrers() == nil {
		return ""
	}
	w.seen[v] = true
	for _, u := range *v.Referrers() {
		switch x := u.(type) {
		case *ssa.DebugRef, *ssa.IndexAddr, *ssa.Index, *ssa.BinOp, *ssa.Lookup:
		case *ssa.Slice, *ssa.Phi, *ssa.ChangeType:
			if esc := w.escapes(x.(ssa.Value), depth); esc != "" {
				return esc
			}
		case *ssa.Convert:
			if b, ok := x.Type().Underlying().(*types.Basic); ok && b.Info()&types.IsString != 0 {
				continue // string(bs) copies
			}
			if esc := w.escapes(x, depth); esc != "" {
				return esc
			}
		case *ssa.Store:
			if x.Val != v {
				continue
			}
			if fa, ok := x.Addr.(*ssa.FieldAddr); ok && fieldName2(fa) == w.field && ssau.TypeName(fa.X.Type()) == w.recvType {
				continue // stored back into the buffer field
			}
			if al, ok := x.Addr.(*ssa.Alloc); ok {
				// a local variable (also one whose address is handed to a helper that appends to it)
				for _, lu := range *al.Referrers() {
					if ld, ok := lu.(*ssa.UnOp); ok && ld.Op == token.MUL {
						if esc := w.escapes(ld, depth); esc != "" {
							return esc
						}
					}
				}
				continue
			}
			return "is stored in " + cleanPath(ssau.Path(x.Addr))
		case *ssa.MakeInterface:
			return "is boxed into an interface value"
		case *ssa.Return:
			fn := x.Parent()
			if w.inCallee > 0 {
				continue // the result is followed where the call was made
			}
			if depth == 0 || (fn.Object() != nil && fn.Object().Exported()) {
				return "is returned by " + w.p.FuncName(fn)
			}
			idx := -1
			for i, rv := range x.Results {
				if rv == v {
					idx = i
				}
			}
			for _, g := range sortedFuncs(w.p) {
				if w.p.InTest(g) || !w.p.InModule(g) {
					continue
				}
				for _, gb := range g.Blocks {
					for _, gi := range gb.Instrs {
						c, ok := gi.(*ssa.Call)
						if !ok || c.Call.StaticCallee() != fn {
							continue
						}
						if len(x.Results) == 1 {
							if esc := w.escapes(c, depth-1); esc != "" {
								return esc
							}
							continue
						}
						for _, cu := range *c.Referrers() {
							if ex, ok := cu.(*ssa.Extract); ok && ex.Index == idx {
								if esc := w.escapes(ex, depth-1); esc != "" {
									return esc
								}
							}
						}
					}
				}
			}
		case ssa.CallInstruction:
			cc := x.Common()
			if b, ok := cc.Value.(*ssa.Builtin); ok {
				switch b.Name() {
				case "append":
					if len(cc.Args) > 0 && cc.Args[0] == v {
						if val, ok := x.(ssa.Value); ok {
							if esc := w.escapes(val, depth); esc != "" {
								return esc
							}
						}
					}
				}
				continue // len, cap, copy, append FROM
			}
			if cc.IsInvoke() {
				if cc.Method.Name() == "Write" {
					continue // io.Writer: must not retain
				}
				return "is passed to the interface method " + cc.Method.Name()
			}
			f := cc.StaticCallee()
			if f == nil {
				return "is passed to a function value"
			}
			if !w.p.InModule(f) || len(f.Blocks) == 0 {
				continue // standard library: reads or copies
			}
			if depth == 0 {
				return "is passed to " + w.p.FuncName(f)
			}
			for i, a := range cc.Args {
				if a == v && i < len(f.Params) {
					w.inCallee++
					esc := w.escapes(f.Params[i], depth-1)
					w.inCallee--
					if esc != "" {
						return esc
					}
				}
			}
			// append-style helpers return (an alias of) their argument
			if val, ok := x.(ssa.Value); ok {
				if sl, ok := val.Type().Underlying().(*types.Slice); ok {
					if bb, ok := sl.Elem().Underlying().(*types.Basic); ok && bb.Kind() == types.Uint8 {
						if esc := w.escapes(val, depth); esc != "" {
							return esc
						}
					}
				}
			}
		default:
			return "is used by " + u.String()
		}
	}
	return ""
}

// ---------------------------------------------------------------------------
// ERR-EOFONLY

// ErrEOFOnly implements ERR-EOFONLY: the end-of-input sentinel stands for
// io.EOF and nothing else.
func ErrEOFOnly(p *load.Program) *report.RuleResult {
	r := newResult("ERR-EOFONLY", "in the reader files, an exit that returns the end-of-input sentinel -1 with a nil error is reached only on the edge where the source's error equals io.EOF: any other error of the source (io.ErrUnexpectedEOF of a truncated gzip stream included) is an input failure that the caller must see, and -1 at a value boundary ends the traversal with Err() == nil", 2)
	for _, fn := range sortedFuncs(p) {
		if !ScopeReader.has(p, fn) || len(fn.Blocks) == 0 {
			continue
		}
		ei := errResultIndex(fn)
		if ei < 0 || fn.Signature.Results().Len() != 2 {
			continue
		}
		var ff *ssau.FactFlow
		for _, ret := range returns(fn) {
			k, ok := ssau.ConstInt(ret.Results[1-ei])
			if !ok || k != -1 || !ssau.IsNilConst(ret.Results[ei]) {
				continue
			}
			if ff == nil {
				ff = ssau.ComputeFacts(fn, ssau.StoreKills)
			}
			facts := ff.At(ret)
			_, eof := facts.Any("eq", func(f ssau.Fact) bool { return strings.HasSuffix(strings.TrimSuffix(f.Arg, "^"), "io.EOF") })
			// a sentinel handed on from a callee or from the pushback buffer (c == -1) is not a translation
			_, passed := facts.Any("eq", func(f ssau.Fact) bool { return f.Arg == "k:-1" })
			what := "end-of-input sentinel returned with a nil error"
			switch {
			case eof:
				r.OK(p.FuncName(fn), instrPos(p, ret), what, "only where the source's error is io.EOF")
			case passed:
				r.OK(p.FuncName(fn), instrPos(p, ret), what, "a sentinel obtained from another primitive is handed on")
			default:
				r.Bad(p.FuncName(fn), instrPos(p, ret), what, "this exit is not restricted to io.EOF: an input failure is reported as a clean end of input, so a traversal can finish with Err() == nil after an I/O error")
			}
		}
	}
	return r
}

// ---------------------------------------------------------------------------
// TAB-READVIA

// TabReadVia implements TAB-READVIA: the binary reader makes up no scalar.
func TabReadVia(p *load.Program) *report.RuleResult {
	r := newResult("TAB-READVIA", "every scalar the binary reader stores as the current value is computed from what a bitstream method returned (ReadInt, ReadFloat, ..., Code for booleans); only the container kinds are stored as constants. The bitstream's Read* methods are where the validity rules of the encodings live (negative zero, overlong or truncated bodies): a value made up from a constant on some shortcut (a zero-length int is zero) bypasses them", 8)
	fn := methodByName(p, "binaryReader", "next")
	if fn == nil {
		missing(r, "binaryReader.next", "not found")
		return r
	}
	for _, g := range helperClosure(p, fn, func(f *ssa.Function) bool { return recvTypeName(f) == "binaryReader" }, 1) {
		for _, b := range g.Blocks {
			for _, in := range b.Instrs {
				st, ok := in.(*ssa.Store)
				if !ok {
					continue
				}
				fa, ok := st.Addr.(*ssa.FieldAddr)
				if !ok || fieldName2(fa) != "value" {
					continue
				}
				if tn := ssau.TypeName(fa.X.Type()); tn != "binaryReader" && tn != "reader" {
					continue
				}
				v := st.Val
				if mi, ok := v.(*ssa.MakeInterface); ok {
					v = mi.X
				}
				for {
					if cv, ok := v.(*ssa.Convert); ok {
						v = cv.X
						continue
					}
					if ct, ok := v.(*ssa.ChangeType); ok {
						v = ct.X
						continue
					}
					break
				}
				what := "current value stored"
				c, isConst := v.(*ssa.Const)
				switch {
				case !isConst:
					r.OK(p.FuncName(g), instrPos(p, st), what, "computed from "+describeOperand(v))
				case c.Value == nil:
					r.OK(p.FuncName(g), instrPos(p, st), what, "cleared")
				case ssau.TypeName(c.Type()) == "Type":
					r.OK(p.FuncName(g), instrPos(p, st), what, "a container kind")
				default:
					r.Bad(p.FuncName(g), instrPos(p, st), what, sprintf("the constant %s is stored as a scalar value without reading the body through the bitstream: the checks of the Read* method for this type code are bypassed (0x30, negative zero with no magnitude bytes, is delivered as 0)", c.Value.ExactString()))
				}
			}
		}
	}
	return r
}

// ---------------------------------------------------------------------------
// NUM-BIGFIT

// NumBigFit implements NUM-BIGFIT: Int64Value asks a big.Int whether it fits.
func NumBigFit(p *load.Program) *report.RuleResult {
	r := newResult("NUM-BIGFIT", "reader.Int64Value refuses a value held as a *big.Int only after big.Int.IsInt64 said it does not fit: the readers do not promise to hold every int that fits as an int64 (bitstream.ReadInt delivers -2^63 and zero-padded magnitudes of nine or more bytes as *big.Int), so the dynamic type alone does not tell whether the value fits", 1)
	fn := methodByName(p, "reader", "Int64Value")
	if fn == nil {
		missing(r, "reader.Int64Value", "not found")
		return r
	}
	ei := errResultIndex(fn)
	var fits *ssa.Call
	for _, g := range helperClosure(p, fn, func(f *ssa.Function) bool { return f.Object() == nil || !f.Object().Exported() }, 1) {
		for _, b := range g.Blocks {
			for _, in := range b.Instrs {
				c, ok := in.(*ssa.Call)
				if !ok {
					continue
				}
				f := c.Call.StaticCallee()
				if f != nil && f.Pkg != nil && f.Pkg.Pkg.Path() == "math/big" && (f.Name() == "IsInt64" || f.Name() == "BitLen" || f.Name() == "Cmp") && feedsBranch(c, 4) {
					fits = c
				}
			}
		}
	}
	n := 0
	for _, ret := range returns(fn) {
		if ei < 0 || !definitelyNonNilError(p, ret.Results[ei], 0) {
			continue
		}
		n++
		what := "error exit of Int64Value"
		if fits != nil {
			r.OK(p.FuncName(fn), instrPos(p, ret), what, "a "+fits.Call.StaticCallee().Name()+" test of the big.Int decides a branch of this function")
		} else {
			r.Bad(p.FuncName(fn), instrPos(p, ret), what, "no test of the big.Int's magnitude (IsInt64, BitLen, Cmp) is made: a value that the binary reader delivers as *big.Int although it fits (-9223372036854775808, 29 00 .. 05) is refused")
		}
	}
	if n == 0 {
		missing(r, "error exits of reader.Int64Value", "none found")
	}
	return r
}

// ---------------------------------------------------------------------------
// OWN-BIGFRESH

// OwnBigFresh implements OWN-BIGFRESH: big.Int results are computed into fresh
// receivers.
func OwnBigFresh(sc Scope, min int) func(p *load.Program) *report.RuleResult {
	return func(p *load.Program) *report.RuleResult {
		r := newResult("OWN-BIGFRESH", "in the "+sc.Name+", every big.Int method that stores its result in its receiver (Add, Sub, Mul, Neg, Exp, SetString, SetBytes, QuoRem, ...) is called on a big.Int allocated in the same function (new(big.Int), big.NewInt, or the result of such a call): a Decimal's coefficient and a big.Int received from or handed to a caller are shared values and are never written in place, so an operand is not changed by the operation it takes part in", min)
		for _, fn := range sortedFuncs(p) {
			if !sc.has(p, fn) || len(fn.Blocks) == 0 {
				continue
			}
			for _, b := range fn.Blocks {
				for _, in := range b.Instrs {
					c, ok := in.(*ssa.Call)
					if !ok || !bigMutator(c) {
						continue
					}
					recv := c.Call.Args[0]
					what := sprintf("big.Int.%s into %s", c.Call.StaticCallee().Name(), describeOperand(recv))
					if bigFresh(recv, 6) {
						r.OK(p.FuncName(fn), instrPos(p, c), what, "the receiver was allocated in this function")
					} else {
						r.Bad(p.FuncName(fn), instrPos(p, c), what, "the receiver is not a big.Int allocated here: the result overwrites a value that others hold (an operand's coefficient, a value returned earlier)")
					}
				}
			}
		}
		return r
	}
}

func bigMutator(c *ssa.Call) bool {
	f := c.Call.StaticCallee()
	if f == nil || f.Pkg == nil || f.Pkg.Pkg.Path() != "math/big" || f.Signature.Recv() == nil || len(c.Call.Args) == 0 {
		return false
	}
	if ssau.TypeName(f.Signature.Recv().Type()) != "Int" {
		return false
	}
	res := f.Signature.Results()
	if res.Len() == 0 {
		return false
	}
	pt, ok := res.At(0).Type().(*types.Pointer)
	return ok && ssau.TypeName(pt) == "Int"
}

func bigFresh(v ssa.Value, depth int) bool {
	if depth == 0 {
		return false
	}
	switch x := v.(type) {
	case *ssa.Alloc:
		return true
	case *ssa.Parameter:
		// an out-parameter of an unexported helper: fresh when every caller hands in a fresh one
		fn := x.Parent()
		if fn == nil || fn.Object() == nil || fn.Object().Exported() || fn.Pkg == nil {
			return false
		}
		idx := -1
		for i, pa := range fn.Params {
			if pa == x {
				idx = i
			}
		}
		n := 0
		for _, m := range fn.Pkg.Members {
			var fs []*ssa.Function
			switch mm := m.(type) {
			case *ssa.Function:
				fs = append(fs, mm)
			case *ssa.Type:
				for _, t := range []types.Type{mm.Type(), types.NewPointer(mm.Type())} {
					ms := fn.Prog.MethodSets.MethodSet(t)
					for i := 0; i < ms.Len(); i++ {
						if g := fn.Prog.MethodValue(ms.At(i)); g != nil {
							fs = append(fs, g)
						}
					}
				}
			}
			for _, g := range fs {
				for _, gb := range g.Blocks {
					for _, gi := range gb.Instrs {
						c, ok := gi.(ssa.CallInstruction)
						if !ok || c.Common().StaticCallee() != fn || idx >= len(c.Common().Args) {
							continue
						}
						n++
						if !bigFresh(c.Common().Args[idx], depth-1) {
							return false
						}
					}
				}
			}
		}
		return n > 0
	case *ssa.Call:
		if f := x.Call.StaticCallee(); f != nil && f.Pkg != nil && f.Pkg.Pkg.Path() == "math/big" {
			if f.Name() == "NewInt" {
				return true
			}
			if bigMutator(x) {
				return bigFresh(x.Call.Args[0], depth-1)
			}
		}
	case *ssa.Extract:
		if c, ok := x.Tuple.(*ssa.Call); ok && x.Index == 0 && bigMutator(c) {
			return bigFresh(c.Call.Args[0], depth-1)
		}
		// QuoRem and DivMod hand back their last argument as the second result
		if c, ok := x.Tuple.(*ssa.Call); ok && x.Index == 1 && bigMutator(c) && len(c.Call.Args) == 4 {
			return bigFresh(c.Call.Args[3], depth-1)
		}
	case *ssa.Phi:
		for _, e := range x.Edges {
			if !bigFresh(e, depth-1) {
				return false
			}
		}
		return true
	case *ssa.UnOp:
		// a local variable holding the pointer
		if al, ok := x.X.(*ssa.Alloc); ok && x.Op == token.MUL && al.Referrers() != nil {
			n := 0
			for _, rf := range *al.Referrers() {
				if st, ok := rf.(*ssa.Store); ok && st.Addr == ssa.Value(al) {
					n++
					if !bigFresh(st.Val, depth-1) {
						return false
					}
				}
			}
			return n > 0
		}
	}
	return false
}

// ---------------------------------------------------------------------------
// ORD-POOLRESET

// OrdPoolReset implements ORD-POOLRESET: what goes back into a sync.Pool was reset.
func OrdPoolReset(p *load.Program) *report.RuleResult {
	r := newResult("ORD-POOLRESET", "a value is put back into a sync.Pool only after its Reset (or Truncate) was called on every path since it was taken out, the error exits included: the next Get, in any goroutine, receives whatever the value still holds, so a buffer returned after a failed call prefixes someone else's output with the failed call's partial output", 0)
	for _, fn := range sortedFuncs(p) {
		if p.InTest(fn) || !p.InModule(fn) || len(fn.Blocks) == 0 {
			continue
		}
		var puts []ssa.Instruction
		for _, b := range fn.Blocks {
			for _, in := range b.Instrs {
				c, ok := in.(ssa.CallInstruction)
				if !ok {
					continue
				}
				f := c.Common().StaticCallee()
				if f != nil && f.Pkg != nil && f.Pkg.Pkg.Path() == "sync" && f.Name() == "Put" && recvTypeName(f) == "Pool" && len(c.Common().Args) == 2 {
					puts = append(puts, in)
				}
			}
		}
		if len(puts) == 0 {
			continue
		}
		for _, put := range puts {
			v := put.(ssa.CallInstruction).Common().Args[1]
			if mi, ok := v.(*ssa.MakeInterface); ok {
				v = mi.X
			}
			vp := ssau.Path(v)
			ev := ssau.MustEvents(fn, func(in ssa.Instruction) []string {
				c, ok := in.(*ssa.Call)
				if !ok || len(c.Call.Args) == 0 {
					return nil
				}
				f := c.Call.StaticCallee()
				if f != nil && (f.Name() == "Reset" || f.Name() == "Truncate") && ssau.Path(c.Call.Args[0]) == vp {
					return []string{"reset"}
				}
				return nil
			})
			what := sprintf("a %s put back into a sync.Pool", v.Type().String())
			if _, isDefer := put.(*ssa.Defer); isDefer {
				for _, ret := range returns(fn) {
					if !ssau.Reaches(put.Block(), ret.Block()) {
						continue
					}
					if ev.At(ret)["reset"] {
						r.OK(p.FuncName(fn), instrPos(p, ret), what+" (deferred) at this exit", "Reset on every path to the exit")
					} else {
						r.Bad(p.FuncName(fn), instrPos(p, ret), what+" (deferred) at this exit", "this exit is reached without a Reset of the value: it goes back into the pool with its contents, and the next Get starts from them")
					}
				}
				continue
			}
			if ev.At(put)["reset"] {
				r.OK(p.FuncName(fn), instrPos(p, put), what, "Reset on every path to the Put")
			} else {
				r.Bad(p.FuncName(fn), instrPos(p, put), what, "a path reaches the Put without a Reset of the value: the next Get starts from its old contents")
			}
		}
	}
	return r
}

// ---------------------------------------------------------------------------
// TAB-SKIPARMS

// TabSkipArms implements TAB-SKIPARMS: the container skipper knows every
// delimited form the value skippers know.
func TabSkipArms(p *load.Program) *report.RuleResult {
	r := newResult("TAB-SKIPARMS", "the character-level container skipper (skipContainerHelper) uses every delimited-form skipper that the token-level skippers dispatched by skipValue use (short string, long string, quoted symbol, lob): a form it does not know is scanned as bare characters, where comment starts and brackets mean something else ('//' inside the base64 text of a blob swallows the rest of the line), so what follows a skipped container differs from what follows a traversed one", 3)
	sv := methodByName(p, "tokenizer", "skipValue")
	sc := methodByName(p, "tokenizer", "skipContainerHelper")
	if sv == nil || sc == nil {
		missing(r, "tokenizer.skipValue / tokenizer.skipContainerHelper", "not found")
		return r
	}
	tokCallees := func(f *ssa.Function) []*ssa.Function {
		var out []*ssa.Function
		seen := map[*ssa.Function]bool{}
		for _, b := range f.Blocks {
			for _, in := range b.Instrs {
				if c, ok := in.(ssa.CallInstruction); ok {
					if g := c.Common().StaticCallee(); g != nil && recvTypeName(g) == "tokenizer" && !seen[g] {
						seen[g] = true
						out = append(out, g)
					}
				}
			}
		}
		return out
	}
	calls := func(f, g *ssa.Function) bool {
		for _, h := range tokCallees(f) {
			if h == g {
				return true
			}
		}
		return false
	}
	// what the container skipper uses, directly or through a case body extracted into a method of its own
	have := map[*ssa.Function]bool{}
	for _, h := range tokCallees(sc) {
		have[h] = true
		if h != sc {
			for _, h2 := range tokCallees(h) {
				have[h2] = true
			}
		}
	}
	n := 0
	for _, top := range tokCallees(sv) {
		for _, h := range tokCallees(top) {
			if !strings.HasSuffix(h.Name(), "Helper") || h == sc || calls(h, sc) || strings.Contains(strings.ToLower(h.Name()), "whitespace") {
				continue
			}
			n++
			what := sprintf("form skipped by %s (used by %s)", h.Name(), top.Name())
			if have[h] {
				r.OK(p.FuncName(sc), p.Pos(sc.Pos()), what, "the container skipper uses the same skipper")
			} else {
				r.Bad(p.FuncName(sc), p.Pos(sc.Pos()), what, "the container skipper does not use it: inside a skipped container this form is scanned as bare characters")
			}
		}
	}
	if n == 0 {
		missing(r, "delimited-form helpers of the value skippers", "none found (skip*Helper methods called by the skippers that skipValue dispatches to)")
	}
	return r
}

// ---------------------------------------------------------------------------
// ORD-IMPADJUST

// OrdImpAdjust implements ORD-IMPADJUST: an import leaves readImport sized as declared.
func OrdImpAdjust(p *load.Program) *report.RuleResult {
	r := newResult("ORD-IMPADJUST", "every shared table that readImport returns without an error is nil (no import), a placeholder built for the declared max_id, or the result of Adjust(declared max_id): a table taken from the catalog is never returned as found, because the import occupies exactly the declared number of IDs whatever the catalog's copy defines, and every later import and local symbol is numbered after it", 2)
	fn := p.Func(nil, "readImport")
	if fn == nil {
		missing(r, "readImport", "function not found")
		return r
	}
	ei := errResultIndex(fn)
	seen := map[ssa.Value]bool{}
	var classify func(v ssa.Value, at string, depth int)
	classify = func(v ssa.Value, at string, depth int) {
		if seen[v] {
			return
		}
		seen[v] = true
		what := "import returned by readImport"
		switch x := v.(type) {
		case *ssa.Const:
			r.OK(p.FuncName(fn), at, what, "nil")
		case *ssa.Phi:
			for i, e := range x.Edges {
				classify(e, p.Pos(lastPos(x.Block().Preds[i])), depth)
			}
		case *ssa.MakeInterface:
			r.OK(p.FuncName(fn), at, what, "a placeholder of type "+ssau.TypeName(x.X.Type())+" built here")
		case *ssa.Extract:
			classify(x.Tuple, at, depth)
		case *ssa.Call:
			switch {
			case x.Call.IsInvoke() && x.Call.Method.Name() == "Adjust":
				r.OK(p.FuncName(fn), at, what, "result of Adjust")
			case x.Call.StaticCallee() != nil && p.InModule(x.Call.StaticCallee()) && depth > 0 && len(x.Call.StaticCallee().Blocks) > 0:
				g := x.Call.StaticCallee()
				gi := errResultIndex(g)
				for _, ret := range returns(g) {
					if gi >= 0 && definitelyNonNilError(p, ret.Results[gi], 0) {
						continue
					}
					for i, rv := range ret.Results {
						if i != gi && types.Identical(rv.Type(), fn.Signature.Results().At(0).Type()) {
							classify(rv, instrPos(p, ret), depth-1)
						}
					}
				}
			default:
				r.Bad(p.FuncName(fn), at, what, "the table comes from "+describeOperand(x)+" and is returned as found: when the declared max_id differs from what that table defines, the import occupies the wrong number of IDs and everything after it is misnumbered")
			}
		default:
			r.Bad(p.FuncName(fn), at, what, "the table comes from "+describeOperand(v)+" and is returned as found: when the declared max_id differs from what that table defines, the import occupies the wrong number of IDs and everything after it is misnumbered")
		}
	}
	for _, ret := range returns(fn) {
		if ei >= 0 && definitelyNonNilError(p, ret.Results[ei], 0) {
			continue
		}
		classify(ret.Results[0], instrPos(p, ret), 2)
	}
	return r
}
