package rules

import (
	"strings"

	"golang.org/x/tools/go/ssa"

	"verif/checker/internal/load"
	"verif/checker/internal/report"
	"verif/checker/internal/ssau"
)

// TabDateVal implements TAB-DATEVAL: functions that validate calendar fields
// by building a time.Time with time.Date (which silently normalises month 13,
// day 32, hour 24, minute 60 ...) must compare every non-constant field they
// pass with the corresponding accessor of the result before returning
// success, and the year of a decoded timestamp must be established to lie in
// 1..9999.
func TabDateVal(p *load.Program) *report.RuleResult {
	r := newResult("TAB-DATEVAL", "wherever package ion builds a time.Time from decoded calendar fields with time.Date, every success exit is dominated by the equality of each non-constant field with the matching accessor of the result (time.Date normalises impossible values instead of rejecting them), and by the year of the result lying in 1..9999", 9)
	accessors := []string{"Year", "Month", "Day", "Hour", "Minute", "Second"}
	n := 0
	for _, fn := range sortedFuncs(p) {
		if !ScopeIon.has(p, fn) || len(fn.Blocks) == 0 {
			continue
		}
		var ff *ssau.FactFlow
		var env *intervalEnv
		for _, b := range fn.Blocks {
			for _, in := range b.Instrs {
				c, ok := in.(*ssa.Call)
				if !ok {
					continue
				}
				f := c.Call.StaticCallee()
				if f == nil || f.Pkg == nil || f.Pkg.Pkg.Path() != "time" || f.Name() != "Date" || f.Signature.Recv() != nil {
					continue
				}
				n++
				if ff == nil {
					ff = ssau.ComputeFacts(fn, ssau.StoreKills)
					env = newIntervalEnv(p, fn)
				}
				name := p.FuncName(fn)
				ei := errResultIndex(fn)
				datePath := ssau.Path(c)
				// success exits reachable from the call
				var exits []*ssa.Return
				for _, ret := range returns(fn) {
					if ei >= 0 && !ssau.IsNilConst(ret.Results[ei]) {
						continue
					}
					if ssau.Reaches(c.Block(), ret.Block()) {
						exits = append(exits, ret)
					}
				}
				if len(exits) == 0 {
					r.Bad(name, instrPos(p, c), "time.Date call", "no success exit found after the call")
					continue
				}
				for i, acc := range accessors {
					arg := c.Call.Args[i]
					if _, isConst := arg.(*ssa.Const); isConst {
						continue
					}
					ap := stripConv(ssau.Path(arg))
					accPath := datePath + "." + acc + "()"
					what := sprintf("field %s of time.Date", strings.ToLower(acc))
					okAll := true
					for _, ret := range exits {
						fs := ff.At(ret)
						found := false
						for fct := range fs {
							if fct.Kind != "eq" {
								continue
							}
							a, b := stripConv(fct.Path), stripConv(fct.Arg)
							if (a == ap && b == accPath) || (b == ap && a == accPath) {
								found = true
							}
						}
						if !found {
							okAll = false
						}
					}
					if okAll {
						r.OK(name, instrPos(p, c), what, "every success exit is dominated by "+cleanPath(ap)+" == result."+acc+"()")
					} else {
						r.Bad(name, instrPos(p, c), what, "a success exit is reached without comparing this field with result."+acc+"(): time.Date normalises an impossible value (for example minute 60) into another instant instead of rejecting it")
					}
				}
				// year range at success exits: the year of the time value that is
				// handed to the Timestamp constructor on that exit
				if _, isConst := c.Call.Args[0].(*ssa.Const); !isConst {
					what := "year of the decoded timestamp"
					okAll := true
					why := ""
					yearArg := stripConv(ssau.Path(c.Call.Args[0]))
					bounded := func(fs ssau.FactSet, path string) bool {
						lo, hi := false, false
						for fct := range fs {
							if stripConv(fct.Path) != path || !strings.HasPrefix(fct.Arg, "k:") {
								continue
							}
							k, _ := atoi64(strings.TrimPrefix(fct.Arg, "k:"))
							switch fct.Kind {
							case "ge":
								lo = lo || k >= 1
							case "gt":
								lo = lo || k >= 0
							case "le":
								hi = hi || k <= 9999
							case "lt":
								hi = hi || k <= 10000
							}
						}
						return lo && hi
					}
					for _, ret := range exits {
						fs := ff.At(ret)
						tv := timeOfResult(ret.Results[0])
						ok := false
						switch {
						case tv == nil:
							why = sprintf("exit at %s: cannot tell which time value becomes the timestamp", instrPos(p, ret))
						case bounded(fs, stripConv(ssau.Path(tv))+".Year()"):
							ok = true
						case tv == ssa.Value(c):
							// the time.Date result itself: its year equals the year argument (checked above)
							if bounded(fs, yearArg) {
								ok = true
							} else if xr, okr := env.rangeOf(c.Call.Args[0], fs, map[ssa.Value]bool{}, 0); okr && xr.lo.Cmp(bi(1)) >= 0 && xr.hi.Cmp(bi(9999)) <= 0 {
								ok = true
							} else if callersBoundYear(p, fn, c) {
								ok = true
							} else {
								why = sprintf("exit at %s: the year passed to time.Date is not bounded to 1..9999", instrPos(p, ret))
							}
						default:
							why = sprintf("exit at %s: the timestamp is built from %s, whose Year() is not known to be within 1..9999 (a bound on another time value, e.g. the UTC fields before the offset is applied, does not bound it)", instrPos(p, ret), cleanPath(ssau.Path(tv)))
						}
						if !ok {
							okAll = false
						}
					}
					if okAll {
						r.OK(name, instrPos(p, c), what, "1 <= Year() <= 9999 established, before every success exit, for the time value the timestamp is built from")
					} else {
						r.Bad(name, instrPos(p, c), what, "a timestamp is produced without establishing 1 <= year <= 9999: "+why)
					}
				}
			}
		}
	}
	if n < 2 {
		missing(r, "time.Date calls in package ion", sprintf("found %d, expected at least 2", n))
	}
	return r
}

// callersBoundYear: the year argument of the time.Date call is a parameter of
// fn and every module call site of fn passes a value whose interval is within
// 1..9999.
func callersBoundYear(p *load.Program, fn *ssa.Function, c *ssa.Call) bool {
	prm, ok := c.Call.Args[0].(*ssa.Parameter)
	if !ok {
		return false
	}
	idx := -1
	for i, q := range fn.Params {
		if q == prm {
			idx = i
		}
	}
	if idx < 0 {
		return false
	}
	sites := 0
	for _, caller := range p.Funcs {
		if p.InTest(caller) {
			continue
		}
		var env *intervalEnv
		for _, b := range caller.Blocks {
			for _, in := range b.Instrs {
				call, ok := in.(*ssa.Call)
				if !ok || call.Call.StaticCallee() != fn {
					continue
				}
				sites++
				if env == nil {
					env = newIntervalEnv(p, caller)
				}
				xr, okr := env.rangeOf(call.Call.Args[idx], env.ff.At(call), map[ssa.Value]bool{}, 0)
				if !okr || xr.lo.Cmp(bi(1)) < 0 || xr.hi.Cmp(bi(9999)) > 0 {
					return false
				}
			}
		}
	}
	return sites > 0
}

// timeOfResult finds the time.Time value a returned Timestamp is built from:
// the first time.Time argument of the constructor call (or composite) that
// produces it. Phis are followed when all edges agree.
func timeOfResult(v ssa.Value) ssa.Value {
	switch x := v.(type) {
	case *ssa.Call:
		for _, a := range x.Call.Args {
			if n := ssau.NamedOf(a.Type()); n != nil && n.Obj().Pkg() != nil && n.Obj().Pkg().Path() == "time" && n.Obj().Name() == "Time" {
				return a
			}
		}
	case *ssa.Phi:
		var t ssa.Value
		for _, e := range x.Edges {
			et := timeOfResult(e)
			if et == nil || (t != nil && et != t) {
				return nil
			}
			t = et
		}
		return t
	}
	return nil
}
