package rules

import (
	"go/token"
	"go/types"
	"sort"
	"strings"

	"golang.org/x/tools/go/ssa"

	"verif/checker/internal/effects"
	"verif/checker/internal/load"
	"verif/checker/internal/report"
	"verif/checker/internal/ssau"
)

// OrdStepIn implements ORD-STEPIN: a Reader implementation enters a container
// (pushes a nesting level) only where the current value is known to be a
// non-null container.
func OrdStepIn(p *load.Program) *report.RuleResult {
	r := newResult("ORD-STEPIN", "in the StepIn method of each Reader implementation every push of a nesting level (ctxstack.push, bitstream.StepIn) is dominated by the facts that make the current value a non-null container: valueType in {list, sexp, struct} and value != nil, or the reader state trsBeforeContainer (which only a non-null container sets)", 3)
	_, typeVals := namedConstsOf(p, "Type")
	containers := map[string]bool{}
	for _, n := range []string{"ListType", "SexpType", "StructType"} {
		if v, ok := typeVals[n]; ok {
			containers[sprintf("%d", v)] = true
		}
	}
	before, okB := constOf(p, "trsBeforeContainer")
	n := 0
	for _, T := range implementers(p, p.Ion, "Reader") {
		fn := methodOf(p, T, "StepIn")
		if fn == nil || recvTypeName(fn) != T.Obj().Name() {
			continue
		}
		ff := ssau.ComputeFacts(fn, ssau.StoreKills)
		name := p.FuncName(fn)
		// the valueType value dispatched on
		vtPath, _ := dispatchValue(fn, constOfType("Type"))
		var ef *ssau.EnumFlow
		if vtPath != "" {
			ef = ssau.TrackEnum(fn, matchPath(vtPath))
		}
		for _, b := range fn.Blocks {
			for _, in := range b.Instrs {
				c, ok := in.(ssa.CallInstruction)
				if !ok {
					continue
				}
				callee := load.Unwrap(c.Common().StaticCallee())
				if callee == nil {
					continue
				}
				isPush := (callee.Name() == "push" && strings.HasSuffix(recvTypeName(callee), "stack")) || (callee.Name() == "StepIn" && recvTypeName(callee) == "bitstream")
				if !isPush {
					continue
				}
				n++
				what := "nesting level pushed by " + p.FuncName(callee)
				fs := ff.At(in)
				// (a) state == trsBeforeContainer
				stateOK := false
				if okB {
					for f := range fs {
						if f.Kind == "eq" && strings.HasSuffix(f.Path, ".state") && f.Arg == sprintf("k:%d", before) {
							stateOK = true
						}
					}
				}
				// the same established earlier on the way here, whatever was stored to the state since
				// (the test is what matters, the order of the bookkeeping after it is free)
				if okB && !stateOK {
					pb := in.Block()
					for d := pb.Idom(); d != nil && !stateOK; d = d.Idom() {
						bo, ok := blockIfCond(d).(*ssa.BinOp)
						if !ok || (bo.Op != token.EQL && bo.Op != token.NEQ) {
							continue
						}
						k, isK := ssau.ConstInt(bo.Y)
						if !isK || k != before || !strings.HasSuffix(ssau.Path(bo.X), ".state") {
							continue
						}
						si := 0
						if bo.Op == token.NEQ {
							si = 1
						}
						if s := d.Succs[si]; s == pb || s.Dominates(pb) {
							stateOK = true
						}
					}
				}
				// (b) value != nil and valueType is a container type
				nonNull := false
				for f := range fs {
					if f.Kind == "nonnil" && strings.HasSuffix(f.Path, ".value") {
						nonNull = true
					}
				}
				typed := false
				if ef != nil {
					if vs, reach := ef.At(in); reach && vs.Known() && len(vs.Values()) > 0 {
						typed = true
						for _, k := range vs.Values() {
							if !containers[k] {
								typed = false
							}
						}
					} else if reach && !vs.Known() {
						// r.valueType != A && != B && != C  =>  refused; here: not all three excluded.
						// The repo's spelling excludes nothing on the accepted path, so fall back
						// to the refusal exit: some exit returns a UsageError under the exclusion
						// of all three container types.
						typed = refusesNonContainers(p, fn, ef, containers)
					}
				}
				switch {
				case stateOK:
					r.OK(name, instrPos(p, in), what, "reader state is trsBeforeContainer")
				case nonNull && typed:
					r.OK(name, instrPos(p, in), what, "value != nil and valueType is a container type")
				default:
					r.Bad(name, instrPos(p, in), what, sprintf("a nesting level is entered without establishing that the current value is a non-null container (value != nil: %v, container type: %v): StepIn on null.list or on a scalar desynchronises the cursor from the stream", nonNull, typed))
				}
			}
		}
	}
	if n < 3 {
		missing(r, "nesting-level pushes in Reader.StepIn implementations", sprintf("found %d, expected at least 3", n))
	}
	return r
}

// refusesNonContainers: fn has an exit returning a non-nil error at which all
// container types are excluded for the tracked valueType (the refusal of
// scalars), so on every other path one of them holds.
func refusesNonContainers(p *load.Program, fn *ssa.Function, ef *ssau.EnumFlow, containers map[string]bool) bool {
	ei := errResultIndex(fn)
	if ei < 0 {
		return false
	}
	for _, ret := range returns(fn) {
		if ssau.IsNilConst(ret.Results[ei]) {
			continue
		}
		vs, reach := ef.At(ret)
		if !reach || vs.Known() {
			continue
		}
		ex := map[string]bool{}
		for _, k := range vs.Excluded() {
			ex[k] = true
		}
		all := true
		for k := range containers {
			if !ex[k] {
				all = false
			}
		}
		if all && definitelyNonNilError(p, ret.Results[ei], 0) {
			return true
		}
	}
	return false
}

// OwnLobWS implements OWN-LOBWS: inside a lob ({{ ... }}) '/' is data (base64)
// or an error, never the start of a comment, so no function of the lob
// readers and skippers may reach the comment-skipping whitespace routine.
func OwnLobWS(p *load.Program) *report.RuleResult {
	r := newResult("OWN-LOBWS", "no function that reads or skips the inside of a lob ({{ ... }}) calls the comment-skipping whitespace routine: every whitespace skip reachable from the lob readers and skippers (without leaving through a function that parses a nested value) uses the lob variant that stops at '/'", 4)
	tk := p.Type(p.Ion, "tokenizer")
	if tk == nil {
		missing(r, "tokenizer", "type not found")
		return r
	}
	var lobFns []*ssa.Function
	for _, fn := range p.Funcs {
		if p.InTest(fn) || recvTypeName(fn) != "tokenizer" {
			continue
		}
		n := strings.ToLower(fn.Name())
		if strings.Contains(n, "blob") || strings.Contains(n, "clob") || strings.Contains(n, "lob") {
			lobFns = append(lobFns, fn)
		}
	}
	sort.Slice(lobFns, func(i, j int) bool { return lobFns[i].Name() < lobFns[j].Name() })
	if len(lobFns) < 4 {
		missing(r, "lob readers/skippers of the tokenizer", sprintf("found %d", len(lobFns)))
		return r
	}
	// comment-skipping entry points: skipWhitespace, skipWhitespaceHelper, skipCommentsHandler used as a handler
	isCommentSkipping := func(f *ssa.Function) bool {
		switch f.Name() {
		case "skipWhitespace", "skipWhitespaceHelper", "skipSingleLineComment", "skipBlockComment":
			return recvTypeName(f) == "tokenizer"
		}
		return false
	}
	for _, fn := range lobFns {
		name := p.FuncName(fn)
		bad := ""
		for _, b := range fn.Blocks {
			for _, in := range b.Instrs {
				c, ok := in.(ssa.CallInstruction)
				if !ok {
					continue
				}
				for _, callee := range p.Callees(c) {
					if isCommentSkipping(load.Unwrap(callee)) {
						bad = sprintf("calls %s at %s", p.FuncName(callee), instrPos(p, in))
					}
				}
				// the comment-skipping handler passed as a strategy
				for _, a := range c.Common().Args {
					if mc, ok := a.(*ssa.MakeClosure); ok {
						if f, ok := mc.Fn.(*ssa.Function); ok && strings.Contains(f.Name(), "skipCommentsHandler") {
							bad = sprintf("passes the comment-skipping handler at %s", instrPos(p, in))
						}
					}
				}
			}
		}
		if bad == "" {
			r.OK(name, p.Pos(fn.Pos()), "whitespace handling inside a lob", "no comment-skipping routine is called")
		} else {
			r.Bad(name, p.Pos(fn.Pos()), "whitespace handling inside a lob", "inside {{ }} a '/' is base64 data: this function "+bad+", so '//' in a blob swallows the rest of the line including the closing braces")
		}
	}
	return r
}

// OwnBuild implements OWN-BUILD: building a table from a symbolTableBuilder
// leaves the builder's ID-assignment state intact and gives the table its own
// storage for everything the builder keeps mutating.
func OwnBuild(p *load.Program) *report.RuleResult {
	r := newResult("OWN-BUILD", "symbolTableBuilder.Build does not write to the builder (its numbering continues after an intermediate Build), and every slice or map it puts into the built table that Add keeps mutating (symbols, index) is a fresh copy, not the builder's own storage", 3)
	build := methodByName(p, "symbolTableBuilder", "Build")
	add := methodByName(p, "symbolTableBuilder", "Add")
	if build == nil || add == nil {
		missing(r, "symbolTableBuilder.Build/Add", "not found")
		return r
	}
	eff := effects.Of(p)
	name := p.FuncName(build)
	if s := eff.Sum[build]; s != nil && s.MutParams[0] {
		r.Bad(name, p.Pos(build.Pos()), "builder state after Build", "Build writes to memory reachable from the builder: after an intermediate Build the builder no longer knows the IDs it has handed out, so known text is re-added and IDs are reused")
	} else {
		r.OK(name, p.Pos(build.Pos()), "builder state after Build", "Build writes nothing reachable from the builder")
	}
	mut := map[string]bool{}
	if s := eff.Sum[add]; s != nil {
		for f := range s.MutFields {
			f = strings.TrimSuffix(f, "[]")
			if i := strings.LastIndex(f, "."); i >= 0 {
				mut[f[i+1:]] = true
			}
		}
	}
	n := 0
	// the stores that fill the built table: in Build itself, or in an unexported constructor it
	// hands the values to (makeLST(imports, offsets, max, symbols, index)); a store of a
	// constructor parameter is judged by the argument Build passes
	type fill struct {
		field string
		val   ssa.Value
		at    ssa.Instruction
	}
	var fills []fill
	for _, b := range build.Blocks {
		for _, in := range b.Instrs {
			if st, ok := in.(*ssa.Store); ok {
				if _, field, ok := ssau.FieldOf(st.Addr); ok && mut[field] {
					fills = append(fills, fill{field, st.Val, in})
				}
			}
			c, ok := in.(ssa.CallInstruction)
			if !ok {
				continue
			}
			g := load.Unwrap(c.Common().StaticCallee())
			if g == nil || !p.InModule(g) || len(g.Blocks) == 0 || (g.Object() != nil && g.Object().Exported()) {
				continue
			}
			for _, gb := range g.Blocks {
				for _, gin := range gb.Instrs {
					st, ok := gin.(*ssa.Store)
					if !ok {
						continue
					}
					_, field, ok := ssau.FieldOf(st.Addr)
					prm, isPrm := st.Val.(*ssa.Parameter)
					if !ok || !mut[field] || !isPrm {
						continue
					}
					for k, q := range g.Params {
						if q == prm && k < len(c.Common().Args) {
							fills = append(fills, fill{field, c.Common().Args[k], in})
						}
					}
				}
			}
		}
	}
	for _, fl := range fills {
		{
			st := struct {
				Val ssa.Value
			}{fl.val}
			in := fl.at
			field := fl.field
			switch st.Val.Type().Underlying().(type) {
			case *types.Slice, *types.Map:
			default:
				continue
			}
			n++
			what := "field " + field + " of the built table"
			if t, f, _, isLoad := fieldLoad(st.Val); isLoad {
				r.Bad(name, instrPos(p, in), what, sprintf("the built table receives the builder's own %s.%s, which Add keeps mutating: the table changes after it was built (and a concurrent reader of it races with the writer)", t, f))
			} else if aliasOfReceiverField(st.Val, 0) {
				r.Bad(name, instrPos(p, in), what, "the built table may receive an alias of the builder's own storage")
			} else {
				r.OK(name, instrPos(p, in), what, "fresh copy")
			}
		}
	}
	if n < 2 {
		missing(r, "stores of symbols/index into the built table", sprintf("found %d, expected 2", n))
	}
	return r
}

// OrdImportFirst implements ORD-IMPORTFIRST: a local symbol table resolves
// text through its imports (in order) before its own symbols, so that the
// lowest ID carrying a text wins even for tables that declare a text again.
func OrdImportFirst(p *load.Program) *report.RuleResult {
	r := newResult("ORD-IMPORTFIRST", "lst.FindByName consults the imports before the local index: no path leads from the lookup in the local index to a lookup in an import", 1)
	fn := methodByName(p, "lst", "FindByName")
	if fn == nil {
		missing(r, "lst.FindByName", "not found")
		return r
	}
	var lookups, invokes []ssa.Instruction
	for _, b := range fn.Blocks {
		for _, in := range b.Instrs {
			switch x := in.(type) {
			case *ssa.Lookup:
				if _, f, ok := ssau.FieldOf(x.X); ok && f == "index" {
					lookups = append(lookups, x)
				} else if strings.HasSuffix(ssau.Path(x.X), ".index") {
					lookups = append(lookups, x)
				}
			case ssa.CallInstruction:
				if x.Common().IsInvoke() && x.Common().Method.Name() == "FindByName" {
					invokes = append(invokes, in)
				}
			}
		}
	}
	if len(lookups) == 0 || len(invokes) == 0 {
		missing(r, "local index lookup and import lookup in lst.FindByName", sprintf("found %d and %d", len(lookups), len(invokes)))
		return r
	}
	name := p.FuncName(fn)
	for _, lk := range lookups {
		bad := false
		for _, iv := range invokes {
			if lk.Block() == iv.Block() {
				if ssau.InstrIndex(lk) < ssau.InstrIndex(iv) {
					bad = true
				}
			} else if ssau.Reaches(lk.Block(), iv.Block()) {
				bad = true
			}
		}
		if bad {
			r.Bad(name, instrPos(p, lk), "lookup in the local index", "the local index is consulted before (some) import: a text that an import already defines resolves to the higher, local ID instead of the lowest one")
		} else {
			r.OK(name, instrPos(p, lk), "lookup in the local index", "reached only after every import has been consulted")
		}
	}
	return r
}

// TabSid0 implements TAB-SID0: symbol ID 0 ($0) is a valid ID. Code that
// looks at a token's LocalSID may separate "unknown" (SymbolIDUnknown, -1, or
// negative) from "known", but never 0 from the positive IDs.
func TabSid0(p *load.Program) *report.RuleResult {
	r := newResult("TAB-SID0", "every comparison of a symbol token's LocalSID (or a sid parameter) with a constant separates only 'no ID' (negative / SymbolIDUnknown) from 'has an ID', or tests one particular positive system ID; none treats symbol ID 0 differently from the positive IDs", 4)
	for _, fn := range sortedFuncs(p) {
		if p.InTest(fn) || !p.InModule(fn) {
			continue
		}
		for _, b := range fn.Blocks {
			for _, in := range b.Instrs {
				bo, ok := in.(*ssa.BinOp)
				if !ok {
					continue
				}
				var v ssa.Value
				var k int64
				var op = bo.Op
				if c, ok := ssau.ConstInt(bo.Y); ok {
					v, k = bo.X, c
				} else if c, ok := ssau.ConstInt(bo.X); ok {
					v, k = bo.Y, c
					op = map[token.Token]token.Token{token.LSS: token.GTR, token.GTR: token.LSS, token.LEQ: token.GEQ, token.GEQ: token.LEQ, token.EQL: token.EQL, token.NEQ: token.NEQ}[op]
				} else {
					continue
				}
				pa := ssau.Path(v)
				if !strings.HasSuffix(pa, ".LocalSID") && pa != "p.sid" {
					continue
				}
				what := sprintf("%s %s %d", cleanPath(pa), op, k)
				// the set of IDs on the two sides of the comparison: does it split {0} from {1,2,...}?
				splits := false
				switch op {
				case token.LSS, token.GEQ: // x < k | x >= k : boundary between k-1 and k
					splits = k == 1
				case token.LEQ, token.GTR: // x <= k | x > k : boundary between k and k+1
					splits = k == 0
				case token.EQL, token.NEQ:
					splits = k == 0
				default:
					continue
				}
				if splits {
					r.Bad(p.FuncName(fn), instrPos(p, bo), what, "this comparison treats symbol ID 0 differently from the positive IDs: $0 is a valid symbol (a symbol without text) and must be read, copied and written like any other ID")
				} else {
					r.OK(p.FuncName(fn), instrPos(p, bo), what, "separates 'no ID' from 'has an ID' or tests one positive ID")
				}
			}
		}
	}
	return r
}

// mentionsNamed reports whether type t structurally contains the named type.
func mentionsNamed(t types.Type, name string, depth int) bool {
	if depth > 6 {
		return false
	}
	if n, ok := t.(*types.Named); ok {
		if n.Obj().Name() == name {
			return true
		}
		if _, isStruct := n.Underlying().(*types.Struct); isStruct {
			return false // another struct type: its own fields are looked at separately
		}
		return mentionsNamed(n.Underlying(), name, depth+1)
	}
	switch x := t.(type) {
	case *types.Pointer:
		return mentionsNamed(x.Elem(), name, depth+1)
	case *types.Slice:
		return mentionsNamed(x.Elem(), name, depth+1)
	case *types.Array:
		return mentionsNamed(x.Elem(), name, depth+1)
	case *types.Map:
		return mentionsNamed(x.Key(), name, depth+1) || mentionsNamed(x.Elem(), name, depth+1)
	}
	return false
}

// OwnTokCache implements OWN-TOKCACHE: a resolved symbol token kept in a
// Reader across values must not outlive the symbol table it was resolved in.
func OwnTokCache(p *load.Program) *report.RuleResult {
	r := newResult("OWN-TOKCACHE", "every field of the Reader implementations that can hold a resolved SymbolToken is either reset for every value (assigned in reader.clear) or reset on every path after each assignment of the reader's current symbol table (lst), so no token resolved under one table is served under another", 2)
	// the structs: reader implementations and the structs they embed
	var structs []*types.Named
	seen := map[*types.Named]bool{}
	var addStruct func(n *types.Named)
	addStruct = func(n *types.Named) {
		if n == nil || seen[n] {
			return
		}
		st, ok := n.Underlying().(*types.Struct)
		if !ok {
			return
		}
		seen[n] = true
		structs = append(structs, n)
		for i := 0; i < st.NumFields(); i++ {
			if st.Field(i).Embedded() {
				addStruct(ssau.NamedOf(st.Field(i).Type()))
			}
		}
	}
	for _, T := range implementers(p, p.Ion, "Reader") {
		addStruct(T)
	}
	if len(structs) < 3 {
		missing(r, "Reader implementations", sprintf("found %d struct types", len(structs)))
		return r
	}
	typeNames := map[string]bool{}
	for _, n := range structs {
		typeNames[n.Obj().Name()] = true
	}
	clear := methodByName(p, "reader", "clear")
	if clear == nil {
		missing(r, "reader.clear", "not found")
		return r
	}
	storesField := func(in ssa.Instruction, field string) bool {
		st, ok := in.(*ssa.Store)
		if !ok {
			return false
		}
		tn, f, ok := ssau.FieldOf(st.Addr)
		return ok && f == field && typeNames[tn]
	}
	cleared := map[string]bool{}
	for _, b := range clear.Blocks {
		for _, in := range b.Instrs {
			if st, ok := in.(*ssa.Store); ok {
				if _, f, ok := ssau.FieldOf(st.Addr); ok {
					cleared[f] = true
				}
			}
		}
	}
	// every store to lst in methods of these structs
	type site struct {
		fn *ssa.Function
		in ssa.Instruction
	}
	var lstStores []site
	for _, fn := range p.Funcs {
		if p.InTest(fn) || !typeNames[recvTypeName(fn)] {
			continue
		}
		for _, b := range fn.Blocks {
			for _, in := range b.Instrs {
				if storesField(in, "lst") {
					lstStores = append(lstStores, site{fn, in})
				}
			}
		}
	}
	if len(lstStores) < 3 {
		missing(r, "assignments of the reader's symbol table", sprintf("found %d", len(lstStores)))
	}
	for _, n := range structs {
		st := n.Underlying().(*types.Struct)
		for i := 0; i < st.NumFields(); i++ {
			f := st.Field(i)
			if f.Embedded() || !mentionsNamed(f.Type(), "SymbolToken", 0) {
				continue
			}
			what := "field " + n.Obj().Name() + "." + f.Name() + " (" + types.TypeString(f.Type(), shortQual) + ")"
			if cleared[f.Name()] {
				r.OK("(*reader).clear", p.Pos(clear.Pos()), what, "reset for every value by reader.clear")
				continue
			}
			bad := ""
			for _, s := range lstStores {
				// constructors assign lst on a fresh reader: nothing to invalidate
				if esc := ssau.EscapesWithout(s.in, func(in ssa.Instruction) bool { return storesField(in, f.Name()) }, nil); esc != nil {
					bad = sprintf("%s assigns the symbol table at %s and can return (%s) without resetting it", p.FuncName(s.fn), instrPos(p, s.in), instrPos(p, esc))
					break
				}
			}
			if bad == "" {
				r.OK(n.Obj().Name(), p.Pos(f.Pos()), what, "reset after every assignment of the symbol table")
			} else {
				r.Bad(n.Obj().Name(), p.Pos(f.Pos()), what, "tokens kept in this field survive a change of the symbol table: "+bad+", so an ID resolved under the old table is served with the old text")
			}
		}
	}
	return r
}

// OrdEndClear implements ORD-ENDCLEAR: closing a container discards a field
// name or annotations that were set but never followed by a value, in every
// writer implementation.
func OrdEndClear(p *load.Program) *report.RuleResult {
	r := newResult("ORD-ENDCLEAR", "in each Writer implementation the function that closes a container (end) reaches (*writer).clear on every path to an exit that does not return a definitely non-nil error: a field name or annotation set just before End* does not leak to a later value", 2)
	n := 0
	for _, T := range implementers(p, p.Ion, "Writer") {
		// the closer by what it does: the method of T that pops the context stack
		var fn *ssa.Function
		for _, f := range sortedFuncs(p) {
			if recvTypeName(f) != T.Obj().Name() || p.InTest(f) || fn != nil {
				continue
			}
			for _, b := range f.Blocks {
				for _, in := range b.Instrs {
					if calleeIs(in, "ctxstack", "pop") {
						fn = f
					}
				}
			}
		}
		if fn == nil {
			continue
		}
		n++
		name := p.FuncName(fn)
		ei := errResultIndex(fn)
		isClear := func(in ssa.Instruction) bool {
			c, ok := in.(ssa.CallInstruction)
			if !ok {
				return false
			}
			f := load.Unwrap(c.Common().StaticCallee())
			return f != nil && f.Name() == "clear" && recvTypeName(f) == "writer"
		}
		ff := ssau.ComputeFacts(fn, ssau.StoreKills)
		// every return reachable from the entry without passing clear()
		type st struct {
			b   *ssa.BasicBlock
			idx int
		}
		seen := map[*ssa.BasicBlock]bool{fn.Blocks[0]: true}
		work := []st{{fn.Blocks[0], 0}}
		bad := ""
		for len(work) > 0 && bad == "" {
			cur := work[len(work)-1]
			work = work[:len(work)-1]
			stopped := false
			for i := cur.idx; i < len(cur.b.Instrs); i++ {
				in := cur.b.Instrs[i]
				if isClear(in) {
					stopped = true
					break
				}
				if ret, ok := in.(*ssa.Return); ok && ei >= 0 {
					v := ret.Results[ei]
					if definitelyNonNilError(p, v, 0) || ff.At(ret).Has("nonnil", ssau.Path(v), "") {
						continue
					}
					bad = sprintf("the exit at %s can return without an error although clear() was not called", instrPos(p, ret))
				}
			}
			if stopped {
				continue
			}
			for _, s := range cur.b.Succs {
				if !seen[s] {
					seen[s] = true
					work = append(work, st{s, 0})
				}
			}
		}
		if bad == "" {
			r.OK(name, p.Pos(fn.Pos()), "pending field name/annotations at End*", "clear() is reached before every exit that may succeed")
		} else {
			r.Bad(name, p.Pos(fn.Pos()), "pending field name/annotations at End*", bad+": FieldName(a); EndStruct(); BeginStruct(); WriteInt(1) would emit {a:1} instead of failing")
		}
	}
	if n < 2 {
		missing(r, "end functions of the Writer implementations", sprintf("found %d, expected 2", n))
	}
	return r
}

// OwnWriterCache implements OWN-WRCACHE: the binary writer keeps no
// text-to-ID memory of its own besides the symbol table builder, or resets it
// whenever the builder is replaced.
func OwnWriterCache(p *load.Program) *report.RuleResult {
	r := newResult("OWN-WRCACHE", "every map- or slice-typed field of the binary writer that can carry symbol IDs across values (a field whose type mentions uint64 or SymbolToken, other than the buffers) is reset on every path after each replacement of the symbol table builder (lstb), so no ID assigned under one local symbol table is emitted under the next", 1)
	bw := p.Type(p.Ion, "binaryWriter")
	if bw == nil {
		missing(r, "binaryWriter", "type not found")
		return r
	}
	st := bw.Underlying().(*types.Struct)
	storesField := func(in ssa.Instruction, field string) bool {
		s, ok := in.(*ssa.Store)
		if !ok {
			return false
		}
		tn, f, ok := ssau.FieldOf(s.Addr)
		return ok && f == field && tn == "binaryWriter"
	}
	type site struct {
		fn *ssa.Function
		in ssa.Instruction
	}
	var lstbStores []site
	for _, fn := range p.Funcs {
		if p.InTest(fn) || recvTypeName(fn) != "binaryWriter" {
			continue
		}
		for _, b := range fn.Blocks {
			for _, in := range b.Instrs {
				if storesField(in, "lstb") {
					lstbStores = append(lstbStores, site{fn, in})
				}
			}
		}
	}
	if len(lstbStores) == 0 {
		missing(r, "replacement of binaryWriter.lstb", "no store found")
		return r
	}
	r.OK("binaryWriter", p.Pos(bw.Obj().Pos()), "symbol table builder replaced", sprintf("%d site(s) found", len(lstbStores)))
	for i := 0; i < st.NumFields(); i++ {
		f := st.Field(i)
		if f.Embedded() {
			continue
		}
		switch u := f.Type().Underlying().(type) {
		case *types.Map:
			if basicKind(u.Elem()) != types.Uint64 && basicKind(u.Key()) != types.Uint64 && !mentionsNamed(u.Elem(), "SymbolToken", 0) {
				continue
			}
		case *types.Slice:
			if basicKind(u.Elem()) != types.Uint64 && !mentionsNamed(u.Elem(), "SymbolToken", 0) {
				continue
			}
		default:
			continue
		}
		what := "field binaryWriter." + f.Name() + " (" + types.TypeString(f.Type(), shortQual) + ")"
		bad := ""
		for _, s := range lstbStores {
			if esc := ssau.EscapesWithout(s.in, func(in ssa.Instruction) bool { return storesField(in, f.Name()) }, nil); esc != nil {
				bad = sprintf("%s replaces the builder at %s and can return (%s) without resetting it", p.FuncName(s.fn), instrPos(p, s.in), instrPos(p, esc))
				break
			}
		}
		if bad == "" {
			r.OK("binaryWriter", p.Pos(f.Pos()), what, "reset after every replacement of the builder")
		} else {
			r.Bad("binaryWriter", p.Pos(f.Pos()), what, "IDs remembered in this field survive the start of a new local symbol table: "+bad)
		}
	}
	return r
}

// TabIndexPair implements TAB-INDEXPAIR: wherever a symbol table object is
// built, its text index describes exactly the symbols it is built with.
func TabIndexPair(p *load.Program) *report.RuleResult {
	r := newResult("TAB-INDEXPAIR", "in every composite literal of a symbol table type (sst, lst) the fields symbols and index are a consistent pair: the index is buildIndex of the very slice stored as symbols, or both are taken unmodified from one existing table, or both are copies made from one builder; an index that describes other symbols than the table holds resolves text to IDs the table does not define", 4)
	n := 0
	for _, fn := range sortedFuncs(p) {
		if p.InTest(fn) || fn.Pkg != p.Ion {
			continue
		}
		for _, b := range fn.Blocks {
			for _, in := range b.Instrs {
				al, ok := in.(*ssa.Alloc)
				if !ok {
					continue
				}
				tn := ssau.TypeName(al.Type())
				if tn != "sst" && tn != "lst" {
					continue
				}
				var symV, idxV ssa.Value
				for _, u := range *al.Referrers() {
					fa, ok := u.(*ssa.FieldAddr)
					if !ok {
						continue
					}
					_, f, _ := ssau.FieldOf(fa)
					for _, u2 := range *fa.Referrers() {
						if st, ok := u2.(*ssa.Store); ok && st.Addr == ssa.Value(fa) {
							switch f {
							case "symbols":
								symV = st.Val
							case "index":
								idxV = st.Val
							}
						}
					}
				}
				if symV == nil && idxV == nil {
					continue
				}
				n++
				name := p.FuncName(fn)
				what := tn + " built with symbols/index"
				by := indexPairOK(p, symV, idxV)
				if by == "" && symV != nil && idxV == nil {
					by = lazyIndexOK(p, tn)
				}
				if by != "" {
					r.OK(name, instrPos(p, al), what, by)
				} else {
					r.Bad(name, instrPos(p, al), what, sprintf("symbols = %s but index = %s: the index is not derived from the symbols this table holds (a truncated, extended or foreign symbol list needs its own index)", describeVal(symV), describeVal(idxV)))
				}
			}
		}
	}
	if n < 4 {
		missing(r, "symbol table literals", sprintf("found %d, expected at least 4", n))
	}
	return r
}

func describeVal(v ssa.Value) string {
	if v == nil {
		return "(unset)"
	}
	return cleanPath(ssau.Path(v))
}

func indexPairOK(p *load.Program, symV, idxV ssa.Value) string {
	return indexPairOKd(p, symV, idxV, 0)
}

func indexPairOKd(p *load.Program, symV, idxV ssa.Value, depth int) string {
	if depth > 3 {
		return ""
	}
	if symV != nil && ssau.IsNilConst(symV) {
		symV = nil
	}
	// (d) the two results of one helper call: decided at the helper's returns
	if se, ok := symV.(*ssa.Extract); ok {
		if ie, ok := idxV.(*ssa.Extract); ok && se.Tuple == ie.Tuple {
			if c, ok := se.Tuple.(*ssa.Call); ok {
				if g := load.Unwrap(c.Call.StaticCallee()); g != nil && p.InModule(g) && len(g.Blocks) > 0 {
					by := ""
					for _, ret := range returns(g) {
						if se.Index >= len(ret.Results) || ie.Index >= len(ret.Results) {
							return ""
						}
						by = indexPairOKd(p, ret.Results[se.Index], ret.Results[ie.Index], depth+1)
						if by == "" {
							return ""
						}
					}
					if by != "" {
						return "results of " + p.FuncName(g) + ": " + by
					}
				}
			}
		}
	}
	// (e) both are parameters of an unexported constructor: decided at its call sites
	if sp, ok := symV.(*ssa.Parameter); ok {
		if ip, ok := idxV.(*ssa.Parameter); ok && sp.Parent() == ip.Parent() && sp.Parent() != nil {
			f := sp.Parent()
			if o := f.Object(); o != nil && !o.Exported() {
				si, ii := -1, -1
				for k, q := range f.Params {
					if q == sp {
						si = k
					}
					if q == ip {
						ii = k
					}
				}
				n := 0
				by := ""
				for _, caller := range p.Funcs {
					if p.InTest(caller) {
						continue
					}
					for _, b := range caller.Blocks {
						for _, in := range b.Instrs {
							c, ok := in.(ssa.CallInstruction)
							if !ok || load.Unwrap(c.Common().StaticCallee()) != f || si >= len(c.Common().Args) || ii >= len(c.Common().Args) {
								continue
							}
							n++
							by = indexPairOKd(p, c.Common().Args[si], c.Common().Args[ii], depth+1)
							if by == "" {
								return ""
							}
						}
					}
				}
				if n > 0 {
					return sprintf("a consistent pair at each of the %d call sites of %s (e.g. %s)", n, p.FuncName(f), by)
				}
			}
		}
	}
	if symV == nil || idxV == nil {
		if symV == nil && idxV != nil {
			if mm, ok := idxV.(*ssa.MakeMap); ok && len(*mm.Referrers()) <= 2 {
				return "no symbols and a fresh empty index"
			}
		}
		return ""
	}
	// (a) index = buildIndex(symbols, _)
	if c, ok := idxV.(*ssa.Call); ok {
		if f := c.Call.StaticCallee(); f != nil && f.Name() == "buildIndex" && len(c.Call.Args) >= 1 {
			if c.Call.Args[0] == symV {
				return "index = buildIndex of the slice stored as symbols"
			}
			return ""
		}
	}
	// (b) both unmodified loads from one object
	ts, fs, bs, oks := fieldLoadExact(symV)
	ti, fi, bi2, oki := fieldLoadExact(idxV)
	if oks && oki && fs == "symbols" && fi == "index" && ts == ti && bs == bi2 {
		return "both taken unmodified from one existing table"
	}
	// (c) both copies made from one object (append/copy of o.symbols; a fresh map filled from o.index)
	so, si := copySource(symV, "symbols", 0), copySource(idxV, "index", 0)
	if so != "" && so == si {
		return "both copied from " + cleanPath(so)
	}
	return ""
}

// fieldLoadExact: v is exactly a load of field f of object base (no slicing).
func fieldLoadExact(v ssa.Value) (string, string, ssa.Value, bool) {
	switch x := v.(type) {
	case *ssa.UnOp:
		if fa, ok := x.X.(*ssa.FieldAddr); ok && x.Op == token.MUL {
			t, f, _ := ssau.FieldOf(fa)
			return t, f, fa.X, t != ""
		}
	case *ssa.Field:
		t, f, _ := ssau.FieldOf(x)
		return t, f, x.X, t != ""
	}
	return "", "", nil, false
}

// copySource: the path of the object whose field `field` v was copied from.
func copySource(v ssa.Value, field string, depth int) string {
	if depth > 5 {
		return ""
	}
	if _, f, base, ok := fieldLoadExact(v); ok && f == field {
		return ssau.Path(base)
	}
	switch x := v.(type) {
	case *ssa.Call:
		if ssau.IsBuiltinCall(x, "append") {
			for _, a := range x.Call.Args {
				if s := copySource(a, field, depth+1); s != "" {
					return s
				}
			}
		}
	case *ssa.Slice:
		if x.Low == nil && x.High == nil {
			return copySource(x.X, field, depth+1)
		}
	case *ssa.MakeSlice:
		// make + copy(dst, src)
		for _, u := range *x.Referrers() {
			if c, ok := u.(*ssa.Call); ok && ssau.IsBuiltinCall(c, "copy") && len(c.Call.Args) == 2 && c.Call.Args[0] == ssa.Value(x) {
				return copySource(c.Call.Args[1], field, depth+1)
			}
		}
	case *ssa.MakeMap:
		// filled by m[k] = v while ranging over o.index
		for _, u := range *x.Referrers() {
			mu, ok := u.(*ssa.MapUpdate)
			if !ok {
				continue
			}
			// key comes from a Next over a Range of o.index
			if ex, ok := mu.Key.(*ssa.Extract); ok {
				if nx, ok := ex.Tuple.(*ssa.Next); ok {
					if rg, ok := nx.Iter.(*ssa.Range); ok {
						return copySource(rg.X, field, depth+1)
					}
				}
			}
		}
	case *ssa.Phi:
		src := ""
		for _, e := range x.Edges {
			s := copySource(e, field, depth+1)
			if s == "" || (src != "" && s != src) {
				return ""
			}
			src = s
		}
		return src
	}
	return ""
}

// lazyIndexOK accepts a table built without an index when the type builds it
// on first use: somewhere a store x.index = buildIndex(x.symbols, _) is taken
// only when x.index is nil, every other store to the field is of that kind,
// and the field is read only in functions that contain such a store.
func lazyIndexOK(p *load.Program, tn string) string {
	inits := map[*ssa.Function]bool{}
	okAll := true
	var readers []*ssa.Function
	for _, fn := range sortedFuncs(p) {
		if p.InTest(fn) || fn.Pkg != p.Ion {
			continue
		}
		for _, b := range fn.Blocks {
			for _, in := range b.Instrs {
				fa, ok := in.(*ssa.FieldAddr)
				if !ok {
					continue
				}
				t, f, _ := ssau.FieldOf(fa)
				if t != tn || f != "index" {
					continue
				}
				if _, isAlloc := fa.X.(*ssa.Alloc); isAlloc {
					continue // a literal under construction
				}
				for _, ref := range *fa.Referrers() {
					switch u := ref.(type) {
					case *ssa.Store:
						good := false
						if c, ok := u.Val.(*ssa.Call); ok && effects.MemoInit(u) {
							if f := c.Call.StaticCallee(); f != nil && f.Name() == "buildIndex" && len(c.Call.Args) >= 1 {
								if ts, fs, base, ok := fieldLoadExact(c.Call.Args[0]); ok && ts == tn && fs == "symbols" && ssau.Path(base) == ssau.Path(fa.X) {
									good = true
								}
							}
						}
						if good {
							inits[fn] = true
						} else {
							okAll = false
						}
					case *ssa.UnOp:
						// handing the (possibly still nil) index on to a new table of the same type is not a lookup
						handOn := true
						for _, r2 := range *u.Referrers() {
							st, ok := r2.(*ssa.Store)
							if !ok {
								handOn = false
								continue
							}
							fa2, ok := st.Addr.(*ssa.FieldAddr)
							if !ok {
								handOn = false
								continue
							}
							if t2, f2, _ := ssau.FieldOf(fa2); t2 != tn || f2 != "index" {
								handOn = false
							}
						}
						if !handOn {
							readers = append(readers, fn)
						}
					}
				}
			}
		}
	}
	if !okAll || len(inits) == 0 {
		return ""
	}
	for _, f := range readers {
		if !inits[f] {
			return ""
		}
	}
	return "the index is built on first use from the table's own symbols (every read of the field goes through the function that builds it when nil)"
}
