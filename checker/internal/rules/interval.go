package rules

import (
	"go/constant"
	"go/token"
	"go/types"
	"math/big"
	"strings"

	"golang.org/x/tools/go/ssa"

	"verif/checker/internal/effects"
	"verif/checker/internal/load"
	"verif/checker/internal/ssau"
)

// A light interval abstract interpretation over SSA values, used by the NUM
// rules. It is deliberately small: intervals of integer values are computed
// by structural recursion over the defining expression, refined by the branch
// facts that dominate the point of use (ssau.FactFlow, keyed by canonical
// access path) and, for phi nodes, by the facts holding on each incoming
// edge. Anything it does not understand gets the full range of its type, so a
// claim "operand ⊆ target range" is sound with respect to go/ssa's semantics
// (wrap-around arithmetic is modelled by falling back to the type's range
// whenever a result interval leaves it).

type ival struct{ lo, hi *big.Int }

func (a ival) String() string { return "[" + a.lo.String() + "," + a.hi.String() + "]" }

func (a ival) within(b ival) bool { return a.lo.Cmp(b.lo) >= 0 && a.hi.Cmp(b.hi) <= 0 }

func (a ival) join(b ival) ival {
	r := ival{a.lo, a.hi}
	if b.lo.Cmp(r.lo) < 0 {
		r.lo = b.lo
	}
	if b.hi.Cmp(r.hi) > 0 {
		r.hi = b.hi
	}
	return r
}

func (a ival) meet(b ival) ival {
	r := ival{a.lo, a.hi}
	if b.lo.Cmp(r.lo) > 0 {
		r.lo = b.lo
	}
	if b.hi.Cmp(r.hi) < 0 {
		r.hi = b.hi
	}
	return r
}

func (a ival) empty() bool { return a.lo.Cmp(a.hi) > 0 }

func bi(x int64) *big.Int { return big.NewInt(x) }

func pow2(n uint) *big.Int { return new(big.Int).Lsh(big.NewInt(1), n) }

// intBits is the width of int/uint/uintptr in the analysed configuration.
var intBits uint = 64

// typeRange returns the value range of an integer type (ok=false otherwise).
func typeRange(t types.Type) (ival, bool) {
	b, ok := t.Underlying().(*types.Basic)
	if !ok || b.Info()&types.IsInteger == 0 {
		return ival{}, false
	}
	var bits uint
	signed := b.Info()&types.IsUnsigned == 0
	switch b.Kind() {
	case types.Int8, types.Uint8:
		bits = 8
	case types.Int16, types.Uint16:
		bits = 16
	case types.Int32, types.Uint32:
		bits = 32
	case types.Int64, types.Uint64:
		bits = 64
	case types.Int, types.Uint, types.Uintptr:
		bits = intBits
	case types.UntypedInt, types.UntypedRune:
		bits = 64
	default:
		return ival{}, false
	}
	if signed {
		return ival{new(big.Int).Neg(pow2(bits - 1)), new(big.Int).Sub(pow2(bits-1), bi(1))}, true
	}
	return ival{bi(0), new(big.Int).Sub(pow2(bits), bi(1))}, true
}

type intervalEnv struct {
	p     *load.Program
	fn    *ssa.Function
	ff    *ssau.FactFlow
	notes map[string]bool // idioms used (for the discharge text)
	kinds map[string]*ssau.EnumFlow
	// callDepth counts nested callee summaries (expression depth restarts in
	// each callee so that a cached summary never depends on the caller).
	callDepth int
	// assume holds induction hypotheses for loop phis while their back edges
	// are being evaluated.
	assume   map[ssa.Value]ival
	hitCycle bool
	// trusted reports conversions that the residual table accepts with a
	// reason; downstream values may rely on them being in range.
	trusted func(cv *ssa.Convert) bool
	// at is the instruction currently being decided (set by rules that need
	// to reason about what happens between a definition and this use).
	at ssa.Instruction
}

func newIntervalEnv(p *load.Program, fn *ssa.Function) *intervalEnv {
	return &intervalEnv{p: p, fn: fn, ff: ssau.ComputeFacts(fn, callAndStoreKills(p)), notes: map[string]bool{}, kinds: map[string]*ssau.EnumFlow{}}
}

// callAndStoreKills: a store kills the facts about what it overwrites
// (ssau.StoreKills); a call kills the facts about every struct field its
// callees may write (effect summaries), so a bound on b.len established before
// b.clear() is not used after it.
func callAndStoreKills(p *load.Program) ssau.KillFunc {
	var eff *effects.Info
	if p != nil {
		eff = effects.Of(p)
	}
	return func(in ssa.Instruction) func(ssau.Fact) bool {
		if k := ssau.StoreKills(in); k != nil {
			return k
		}
		ci, ok := in.(ssa.CallInstruction)
		if !ok || eff == nil {
			return nil
		}
		if _, isB := ci.Common().Value.(*ssa.Builtin); isB {
			return nil
		}
		s := eff.CallSummary(ci)
		if s == nil {
			return nil
		}
		fn := in.Parent()
		var roots []string
		for i := range s.MutParams {
			if i < len(fn.Params) {
				roots = append(roots, "p."+fn.Params[i].Name())
			}
		}
		for i := range s.MutFree {
			if i < len(fn.FreeVars) {
				roots = append(roots, "fv."+fn.FreeVars[i].Name())
			}
		}
		// locals whose address is handed to a callee that writes
		if !s.Pure() {
			for _, a := range ci.Common().Args {
				ap := ssau.Path(a)
				if strings.HasPrefix(ap, "&a.") {
					roots = append(roots, ap[1:])
				}
			}
		}
		globals := len(s.MutGlobal) > 0
		unknown := s.Unknown
		if len(roots) == 0 && !globals && !unknown {
			return nil
		}
		return func(f ssau.Fact) bool {
			memory := func(p string) bool { return strings.Contains(p, "^") || strings.Contains(p, "[") }
			for _, pth := range []string{f.Path, f.Arg} {
				if pth == "" || strings.HasPrefix(pth, "k:") {
					continue
				}
				if unknown && memory(pth) {
					return true
				}
				if globals && strings.Contains(pth, "g.") {
					return true
				}
				for _, r := range roots {
					if ssau.Mentions(pth, r) && (memory(pth) || strings.HasPrefix(r, "a.")) {
						return true
					}
				}
			}
			return false
		}
	}
}

// mentionsField: path contains ".name" as a whole field selector.
func mentionsField(path, dotName string) bool {
	for i := 0; ; {
		j := strings.Index(path[i:], dotName)
		if j < 0 {
			return false
		}
		e := i + j + len(dotName)
		if e == len(path) || !(path[e] == '_' || path[e] >= '0' && path[e] <= '9' || path[e] >= 'a' && path[e] <= 'z' || path[e] >= 'A' && path[e] <= 'Z') {
			return true
		}
		i = e
	}
}

// maxLen bounds len/cap of strings and slices: the Go runtime cannot allocate
// more than 2^48 bytes on 64-bit platforms (runtime.maxAlloc), 2^31-1 on 32-bit.
func maxLen() *big.Int {
	if intBits == 64 {
		return pow2(48)
	}
	return new(big.Int).Sub(pow2(intBits-1), bi(1))
}

func (e *intervalEnv) note(s string) { e.notes[s] = true }

// refine narrows r by the constant comparisons among facts that mention the
// path of v.
func (e *intervalEnv) refine(v ssa.Value, r ival, facts ssau.FactSet) ival {
	if facts == nil {
		return r
	}
	path := ssau.Path(v)
	if strings.HasPrefix(path, "k:") {
		return r
	}
	for f := range facts {
		if f.Path != path || !strings.HasPrefix(f.Arg, "k:") {
			continue
		}
		k, ok := new(big.Int).SetString(strings.TrimPrefix(f.Arg, "k:"), 10)
		if !ok {
			continue
		}
		switch f.Kind {
		case "lt":
			r = r.meet(ival{r.lo, new(big.Int).Sub(k, bi(1))})
		case "le":
			r = r.meet(ival{r.lo, k})
		case "gt":
			r = r.meet(ival{new(big.Int).Add(k, bi(1)), r.hi})
		case "ge":
			r = r.meet(ival{k, r.hi})
		case "eq":
			r = r.meet(ival{k, k})
		default:
			continue
		}
		e.note("dominating comparison with a constant")
	}
	// x != k trims k off the end of an interval
	for i := 0; i < 2; i++ {
		for f := range facts {
			if f.Kind != "ne" || f.Path != path || !strings.HasPrefix(f.Arg, "k:") {
				continue
			}
			k, ok := new(big.Int).SetString(strings.TrimPrefix(f.Arg, "k:"), 10)
			if !ok || r.empty() {
				continue
			}
			if k.Cmp(r.lo) == 0 {
				r = ival{new(big.Int).Add(r.lo, bi(1)), r.hi}
				e.note("dominating comparison with a constant")
			} else if k.Cmp(r.hi) == 0 {
				r = ival{r.lo, new(big.Int).Sub(r.hi, bi(1))}
				e.note("dominating comparison with a constant")
			}
		}
	}
	// x < len(s), x <= len(s): bounded by the largest possible length
	for f := range facts {
		if f.Path != path || !(strings.HasPrefix(f.Arg, "len(") || strings.HasPrefix(f.Arg, "cap(")) {
			continue
		}
		switch f.Kind {
		case "lt":
			r = r.meet(ival{r.lo, new(big.Int).Sub(maxLen(), bi(1))})
		case "le", "eq":
			r = r.meet(ival{r.lo, maxLen()})
		}
	}
	return r
}

// refinePath is refine for a value known only by its canonical path (used for
// len(x), which has no SSA value at the point of use).
func (e *intervalEnv) refinePath(path string, r ival, facts ssau.FactSet) ival {
	for round := 0; round < 3; round++ {
		for f := range facts {
			if stripConv(f.Path) != path || !strings.HasPrefix(f.Arg, "k:") {
				continue
			}
			k, ok := new(big.Int).SetString(strings.TrimPrefix(f.Arg, "k:"), 10)
			if !ok {
				continue
			}
			switch f.Kind {
			case "lt":
				r = r.meet(ival{r.lo, new(big.Int).Sub(k, bi(1))})
			case "le":
				r = r.meet(ival{r.lo, k})
			case "gt":
				r = r.meet(ival{new(big.Int).Add(k, bi(1)), r.hi})
			case "ge":
				r = r.meet(ival{k, r.hi})
			case "eq":
				r = r.meet(ival{k, k})
			case "ne":
				if !r.empty() && k.Cmp(r.lo) == 0 {
					r = ival{new(big.Int).Add(r.lo, bi(1)), r.hi}
				} else if !r.empty() && k.Cmp(r.hi) == 0 {
					r = ival{r.lo, new(big.Int).Sub(r.hi, bi(1))}
				}
			}
		}
	}
	return r
}

// rangeOf computes an interval for integer value v as seen with the given
// dominating facts.
func (e *intervalEnv) rangeOf(v ssa.Value, facts ssau.FactSet, seen map[ssa.Value]bool, depth int) (ival, bool) {
	tr, ok := typeRange(v.Type())
	if !ok {
		return ival{}, false
	}
	if seen[v] {
		e.hitCycle = true
		if h, ok := e.assume[v]; ok {
			return e.refine(v, h, facts), true
		}
		return e.refine(v, tr, facts), true
	}
	if depth > 12 {
		return e.refine(v, tr, facts), true
	}
	r := tr
	switch x := v.(type) {
	case *ssa.Const:
		// the exact value first: an int64 view of an unsigned constant above MaxInt64 (math.MaxUint64) is negative
		if x.Value != nil {
			if z, ok := new(big.Int).SetString(x.Value.ExactString(), 10); ok {
				return ival{z, z}, true
			}
		}
		if k, ok := ssau.ConstInt(x); ok {
			return ival{bi(k), bi(k)}, true
		}
	case *ssa.Parameter:
		if pr, ok := e.paramRangeFromCallers(x); ok && pr.within(tr) {
			r = pr
			e.note("every call site passes a value in this range")
		}
	case *ssa.Convert:
		if xr, ok := e.rangeOf(x.X, facts, seen, depth+1); ok {
			if xr.within(tr) {
				r = xr
			} else if e.trusted != nil && e.trusted(x) {
				if m := xr.meet(tr); !m.empty() {
					r = m
					e.note("relies on a conversion accepted by the residual table")
				}
			}
		}
	case *ssa.ChangeType:
		if xr, ok := e.rangeOf(x.X, facts, seen, depth+1); ok && xr.within(tr) {
			r = xr
		}
	case *ssa.Phi:
		if x.Comment == "rangeindex" {
			// go/ssa's lowering of `for i := range s`: the phi runs from -1 to len(s)-1
			r = ival{bi(-1), new(big.Int).Sub(maxLen(), bi(1))}
			e.note("range-loop index")
			break
		}
		seen[v] = true
		type edgeRes struct {
			r      ival
			cyclic bool
		}
		eval := func() ([]edgeRes, bool) {
			var out []edgeRes
			for i, ed := range x.Edges {
				saved := e.hitCycle
				e.hitCycle = false
				er, ok := e.rangeOf(ed, e.ff.OnPhiEdge(x, i), seen, depth+1)
				cyc := e.hitCycle
				e.hitCycle = saved || cyc
				if !ok {
					return nil, false
				}
				out = append(out, edgeRes{er, cyc})
			}
			return out, true
		}
		joinAll := func(rs []edgeRes) *ival {
			var acc *ival
			for _, er := range rs {
				if er.r.empty() {
					continue // infeasible edge
				}
				if acc == nil {
					c := er.r
					acc = &c
				} else {
					j := acc.join(er.r)
					acc = &j
				}
			}
			return acc
		}
		rs, okEval := eval()
		var acc *ival
		if okEval {
			acc = joinAll(rs)
			// induction on a loop-carried value: if the edges that do not go
			// through the phi itself give [L,U'] and, assuming the phi lies in
			// [L, max], every cyclic edge stays in [L, max], then L is a lower
			// bound of the phi (same for an upper bound).
			var base *ival
			anyCyclic := false
			for _, er := range rs {
				if er.cyclic {
					anyCyclic = true
					continue
				}
				if er.r.empty() {
					continue
				}
				if base == nil {
					c := er.r
					base = &c
				} else {
					j := base.join(er.r)
					base = &j
				}
			}
			if anyCyclic && base != nil && acc != nil && e.assume[v].lo == nil {
				for _, hyp := range []ival{{base.lo, base.hi}, {base.lo, tr.hi}, {tr.lo, base.hi}} {
					if !hyp.within(tr) || acc.within(hyp) {
						continue
					}
					if e.assume == nil {
						e.assume = map[ssa.Value]ival{}
					}
					e.assume[v] = hyp
					rs2, ok2 := eval()
					delete(e.assume, v)
					if !ok2 {
						continue
					}
					holds := true
					for _, er := range rs2 {
						if !er.r.empty() && !er.r.within(hyp) {
							holds = false
						}
					}
					if holds {
						m := acc.meet(hyp)
						acc = &m
						e.note("loop invariant by induction")
						break
					}
				}
			}
		}
		delete(seen, v)
		if acc != nil && acc.within(tr) {
			r = *acc
			e.note("phi of bounded operands")
		}
	case *ssa.BinOp:
		xr, okx := e.rangeOf(x.X, facts, seen, depth+1)
		yr, oky := e.rangeOf(x.Y, facts, seen, depth+1)
		if okx && oky {
			if br, ok := binopRange(x.Op, xr, yr, tr); ok && br.within(tr) {
				r = br
			} else if x.Op == token.SUB {
				// x - y with a dominating comparison of the two: no wrap, and a lower bound.
				// The comparison may dominate the use, or the definition of the difference:
				// an SSA value keeps the relation its operands had when it was computed.
				xp, yp := stripConv(ssau.Path(x.X)), stripConv(ssau.Path(x.Y))
				all := ssau.FactSet{}
				for f := range facts {
					all[f] = true
				}
				if x.Parent() == e.fn && x.Block() != nil {
					for f := range e.ff.At(x) {
						all[f] = true
					}
				}
				for f := range all {
					a, b := stripConv(f.Path), stripConv(f.Arg)
					lo := int64(-1)
					switch {
					case a == yp && b == xp && f.Kind == "lt", a == xp && b == yp && f.Kind == "gt":
						lo = 1
					case a == yp && b == xp && f.Kind == "le", a == xp && b == yp && f.Kind == "ge":
						lo = 0
					}
					if lo >= 0 {
						hi := new(big.Int).Sub(xr.hi, yr.lo)
						if hi.Cmp(tr.hi) > 0 {
							hi = tr.hi
						}
						if c := (ival{bi(lo), hi}); c.within(tr) && !c.empty() {
							r = c
							e.note("difference of two operands ordered by a dominating comparison")
						}
					}
				}
			}
		}
	case *ssa.UnOp:
		if x.Op == token.MUL {
			if fa, ok := x.X.(*ssa.FieldAddr); ok {
				if fr, ok := e.fieldStoreRange(fa); ok && fr.within(tr) && !tr.within(fr) {
					r = fr
					e.note("every store to this unexported field in the module is in this range")
				}
			}
		}
		if x.Op == token.SUB {
			if xr, ok := e.rangeOf(x.X, facts, seen, depth+1); ok {
				n := ival{new(big.Int).Neg(xr.hi), new(big.Int).Neg(xr.lo)}
				if n.within(tr) {
					r = n
				}
			}
		}
	case *ssa.Call:
		if cr, ok := callRange(x); ok {
			r = cr.meet(tr)
			e.note("result range of " + calleeLabel(x))
		} else if cr, ok := e.reflectRange(x); ok {
			r = cr.meet(tr)
			e.note("reflect kind cases bound the value")
		} else if cr, ok := e.moduleRetRange(x, 0, seen, depth); ok {
			r = cr.meet(tr)
			e.note("return range of " + calleeLabel(x))
		}
	case *ssa.Extract:
		if c, ok := x.Tuple.(*ssa.Call); ok {
			if cr, ok := extractRange(c, x.Index); ok {
				r = cr.meet(tr)
				e.note("result range of " + calleeLabel(c))
			} else if cr, ok := e.moduleRetRangeCond(c, x.Index, facts); ok {
				r = cr.meet(tr)
				e.note("return range of " + calleeLabel(c))
			}
		}
		if _, ok := x.Tuple.(*ssa.Next); ok && x.Index == 1 {
			// range-loop index over a slice/string
			r = r.meet(ival{bi(0), tr.hi})
		}
		if nx, ok := x.Tuple.(*ssa.Next); ok && x.Index == 2 && nx.IsString {
			// the runes of a range over a constant string
			if rg, ok := nx.Iter.(*ssa.Range); ok {
				if c, ok := rg.X.(*ssa.Const); ok && c.Value != nil && c.Value.Kind() == constant.String {
					lo, hi := int64(-1), int64(-1)
					for _, ch := range constant.StringVal(c.Value) {
						if lo < 0 || int64(ch) < lo {
							lo = int64(ch)
						}
						if int64(ch) > hi {
							hi = int64(ch)
						}
					}
					if lo >= 0 {
						r = r.meet(ival{bi(lo), bi(hi)})
						e.note("runes of a constant string")
					}
				}
			}
		}
	}
	return e.refine(v, r, facts), true
}

func binopRange(op token.Token, x, y, tr ival) (ival, bool) {
	nonneg := func(a ival) bool { return a.lo.Sign() >= 0 }
	switch op {
	case token.ADD:
		return ival{new(big.Int).Add(x.lo, y.lo), new(big.Int).Add(x.hi, y.hi)}, true
	case token.SUB:
		return ival{new(big.Int).Sub(x.lo, y.hi), new(big.Int).Sub(x.hi, y.lo)}, true
	case token.MUL:
		c := []*big.Int{new(big.Int).Mul(x.lo, y.lo), new(big.Int).Mul(x.lo, y.hi), new(big.Int).Mul(x.hi, y.lo), new(big.Int).Mul(x.hi, y.hi)}
		lo, hi := c[0], c[0]
		for _, z := range c[1:] {
			if z.Cmp(lo) < 0 {
				lo = z
			}
			if z.Cmp(hi) > 0 {
				hi = z
			}
		}
		return ival{lo, hi}, true
	case token.AND:
		// x & mask with a non-negative side is within [0, that side's hi]
		switch {
		case nonneg(x) && nonneg(y):
			h := x.hi
			if y.hi.Cmp(h) < 0 {
				h = y.hi
			}
			return ival{bi(0), h}, true
		case nonneg(y):
			return ival{bi(0), y.hi}, true
		case nonneg(x):
			return ival{bi(0), x.hi}, true
		}
	case token.OR, token.XOR:
		if nonneg(x) && nonneg(y) {
			// bounded by the next power of two above both
			h := x.hi
			if y.hi.Cmp(h) > 0 {
				h = y.hi
			}
			return ival{bi(0), new(big.Int).Sub(pow2(uint(h.BitLen())), bi(1))}, true
		}
	case token.SHR:
		if nonneg(x) && nonneg(y) && y.lo.IsInt64() && y.lo.Int64() < 1024 {
			return ival{bi(0), new(big.Int).Rsh(x.hi, uint(y.lo.Int64()))}, true
		}
	case token.SHL:
		if nonneg(x) && nonneg(y) && y.hi.IsInt64() && y.hi.Int64() < 256 {
			return ival{new(big.Int).Lsh(x.lo, uint(y.lo.Int64())), new(big.Int).Lsh(x.hi, uint(y.hi.Int64()))}, true
		}
	case token.REM:
		if y.lo.Sign() > 0 {
			m := new(big.Int).Sub(y.hi, bi(1))
			if nonneg(x) {
				return ival{bi(0), m}, true
			}
			return ival{new(big.Int).Neg(m), m}, true
		}
	case token.QUO:
		if nonneg(x) && y.lo.Sign() > 0 {
			return ival{bi(0), new(big.Int).Quo(x.hi, y.lo)}, true
		}
	}
	return ival{}, false
}

func calleeLabel(c *ssa.Call) string {
	if f := c.Call.StaticCallee(); f != nil {
		if f.Signature.Recv() != nil {
			return ssau.TypeName(f.Signature.Recv().Type()) + "." + f.Name()
		}
		if f.Pkg != nil {
			return f.Pkg.Pkg.Name() + "." + f.Name()
		}
		return f.Name()
	}
	if b, ok := c.Call.Value.(*ssa.Builtin); ok {
		return b.Name()
	}
	if c.Call.IsInvoke() {
		return c.Call.Method.Name()
	}
	return "call"
}

var maxInt = new(big.Int).Sub(pow2(63), bi(1))

// callRange gives the documented result range of builtins and of the standard
// library functions the repository converts results of.
func callRange(c *ssa.Call) (ival, bool) {
	if b, ok := c.Call.Value.(*ssa.Builtin); ok {
		switch b.Name() {
		case "len", "cap", "copy":
			return ival{bi(0), maxLen()}, true
		}
		return ival{}, false
	}
	f := c.Call.StaticCallee()
	if f == nil {
		return ival{}, false
	}
	recv := ""
	if f.Signature.Recv() != nil {
		recv = ssau.TypeName(f.Signature.Recv().Type())
	}
	pkg := ""
	if f.Pkg != nil {
		pkg = f.Pkg.Pkg.Path()
	}
	switch pkg {
	case "time":
		if recv == "Time" {
			switch f.Name() {
			case "Month":
				return ival{bi(1), bi(12)}, true
			case "Day":
				return ival{bi(1), bi(31)}, true
			case "Hour":
				return ival{bi(0), bi(23)}, true
			case "Minute", "Second":
				return ival{bi(0), bi(59)}, true
			case "Nanosecond":
				return ival{bi(0), bi(999999999)}, true
			case "YearDay":
				return ival{bi(1), bi(366)}, true
			}
		}
	case "math/big":
		if recv == "Int" {
			switch f.Name() {
			case "BitLen":
				return ival{bi(0), maxInt}, true
			case "Sign", "Cmp", "CmpAbs":
				return ival{bi(-1), bi(1)}, true
			}
		}
	case "math/bits":
		if strings.HasPrefix(f.Name(), "Len") || strings.HasPrefix(f.Name(), "LeadingZeros") || strings.HasPrefix(f.Name(), "TrailingZeros") || strings.HasPrefix(f.Name(), "OnesCount") {
			return ival{bi(0), bi(64)}, true
		}
	case "bytes", "strings":
		switch f.Name() {
		case "Len", "Cap":
			return ival{bi(0), maxLen()}, true
		case "Index", "IndexByte", "IndexRune", "LastIndex", "IndexAny":
			return ival{bi(-1), maxLen()}, true
		}
	case "unicode/utf8":
		switch f.Name() {
		case "RuneLen":
			return ival{bi(-1), bi(4)}, true
		case "EncodeRune", "RuneCountInString", "RuneCount":
			return ival{bi(0), maxInt}, true
		}
	case "reflect":
		if recv == "Value" && (f.Name() == "Len" || f.Name() == "NumField" || f.Name() == "Cap") {
			return ival{bi(0), maxInt}, true
		}
	}
	return ival{}, false
}

// extractRange gives the range of component idx of a tuple-returning call.
func extractRange(c *ssa.Call, idx int) (ival, bool) {
	f := c.Call.StaticCallee()
	if f == nil {
		if c.Call.IsInvoke() {
			switch c.Call.Method.Name() {
			case "Read", "Write":
				if idx == 0 {
					return ival{bi(0), maxInt}, true
				}
			}
		}
		return ival{}, false
	}
	pkg := ""
	if f.Pkg != nil {
		pkg = f.Pkg.Pkg.Path()
	}
	recv := ""
	if f.Signature.Recv() != nil {
		recv = ssau.TypeName(f.Signature.Recv().Type())
	}
	switch {
	case pkg == "io" && (f.Name() == "ReadFull" || f.Name() == "ReadAtLeast") && idx == 0,
		pkg == "bufio" && recv == "Reader" && (f.Name() == "Discard" || f.Name() == "Read") && idx == 0:
		return ival{bi(0), maxInt}, true
	case pkg == "strconv" && (f.Name() == "ParseInt" || f.Name() == "ParseUint") && idx == 0 && len(c.Call.Args) == 3 && sliceWidth(c.Call.Args[0]) > 0 && isConstInt(c.Call.Args[1], 10):
		// a decimal number spelled with n characters is below 10^n in magnitude
		w := new(big.Int).Exp(bi(10), bi(int64(sliceWidth(c.Call.Args[0]))), nil)
		w.Sub(w, bi(1))
		if f.Name() == "ParseUint" {
			return ival{bi(0), w}, true
		}
		return ival{new(big.Int).Neg(w), w}, true
	case pkg == "strconv" && (f.Name() == "ParseInt" || f.Name() == "ParseUint") && idx == 0 && len(c.Call.Args) == 3:
		if bs, ok := ssau.ConstInt(c.Call.Args[2]); ok {
			if bs == 0 {
				bs = int64(intBits)
			}
			if f.Name() == "ParseInt" {
				return ival{new(big.Int).Neg(pow2(uint(bs - 1))), new(big.Int).Sub(pow2(uint(bs-1)), bi(1))}, true
			}
			return ival{bi(0), new(big.Int).Sub(pow2(uint(bs)), bi(1))}, true
		}
	case pkg == "strconv" && f.Name() == "Atoi" && idx == 0:
		return ival{new(big.Int).Neg(pow2(intBits - 1)), new(big.Int).Sub(pow2(intBits-1), bi(1))}, true
	case pkg == "unicode/utf8" && strings.HasPrefix(f.Name(), "DecodeRune") && idx == 1:
		return ival{bi(0), bi(4)}, true
	case pkg == "time" && recv == "Time" && f.Name() == "Zone" && idx == 1:
		return ival{bi(-100000), bi(100000)}, true
	case pkg == "time" && recv == "Time" && f.Name() == "Date" && idx == 1:
		return ival{bi(1), bi(12)}, true
	case pkg == "time" && recv == "Time" && f.Name() == "Date" && idx == 2:
		return ival{bi(1), bi(31)}, true
	case pkg == "time" && recv == "Time" && f.Name() == "Clock" && idx == 0:
		return ival{bi(0), bi(23)}, true
	case pkg == "time" && recv == "Time" && f.Name() == "Clock" && idx > 0:
		return ival{bi(0), bi(59)}, true
	}
	return ival{}, false
}

// retRangeCache memoises return ranges of module functions (nil = in progress
// or unknown).
var retRangeCache = map[*ssa.Function]map[int]*ival{}

// moduleRetRange joins, over every return of a statically resolved module
// callee, the interval of result idx as seen with the facts at that return.
func (e *intervalEnv) moduleRetRange(c *ssa.Call, idx int, seen map[ssa.Value]bool, depth int) (ival, bool) {
	f := c.Call.StaticCallee()
	if f == nil || e.p == nil || !e.p.InModule(f) || len(f.Blocks) == 0 || e.callDepth > 8 {
		return ival{}, false
	}
	if idx >= f.Signature.Results().Len() {
		return ival{}, false
	}
	if _, ok := typeRange(f.Signature.Results().At(idx).Type()); !ok {
		return ival{}, false
	}
	if m, ok := retRangeCache[f]; ok {
		if r, ok := m[idx]; ok {
			if r == nil {
				return ival{}, false
			}
			return *r, true
		}
	} else {
		retRangeCache[f] = map[int]*ival{}
	}
	retRangeCache[f][idx] = nil // recursion guard
	ce := newIntervalEnv(e.p, f)
	ce.callDepth = e.callDepth + 1
	var acc *ival
	for _, ret := range returns(f) {
		rr, ok := ce.rangeOf(ret.Results[idx], ce.ff.At(ret), map[ssa.Value]bool{}, 0)
		if !ok {
			return ival{}, false
		}
		if acc == nil {
			c := rr
			acc = &c
		} else {
			j := acc.join(rr)
			acc = &j
		}
	}
	if acc == nil {
		return ival{}, false
	}
	retRangeCache[f][idx] = acc
	return *acc, true
}

// moduleRetRangeCond is moduleRetRange restricted, when the call also returns
// a bool (the comma-ok shape) that the facts at the point of use know to be
// true, to the callee's returns whose bool result is not the constant false.
func (e *intervalEnv) moduleRetRangeCond(c *ssa.Call, idx int, facts ssau.FactSet) (ival, bool) {
	f := c.Call.StaticCallee()
	if f != nil && e.p != nil && e.p.InModule(f) && len(f.Blocks) > 0 && facts != nil {
		res := f.Signature.Results()
		for j := 0; j < res.Len(); j++ {
			if j == idx || basicKind(res.At(j).Type()) != types.Bool {
				continue
			}
			okPath := ssau.Path(c) + sprintf("#%d", j)
			want := ""
			switch {
			case facts.Has("true", okPath, ""):
				want = "true"
			case facts.Has("false", okPath, ""):
				want = "false"
			default:
				continue
			}
			if _, okT := typeRange(res.At(idx).Type()); !okT || e.callDepth > 8 {
				break
			}
			ce := newIntervalEnv(e.p, f)
			ce.callDepth = e.callDepth + 1
			var acc *ival
			for _, ret := range returns(f) {
				if k, isConst := ret.Results[j].(*ssa.Const); isConst && k.Value != nil && k.Value.ExactString() != want {
					continue // this return reports the other outcome
				}
				rr, ok := ce.rangeOf(ret.Results[idx], ce.ff.At(ret), map[ssa.Value]bool{}, 0)
				if !ok {
					acc = nil
					break
				}
				if acc == nil {
					c := rr
					acc = &c
				} else {
					jn := acc.join(rr)
					acc = &jn
				}
			}
			if acc != nil {
				return *acc, true
			}
		}
	}
	return e.moduleRetRange(c, idx, nil, 0)
}

// reflectRange bounds reflect.Value.Uint()/Int() by the reflect.Kind cases
// that dominate the call: under `case reflect.Uint8, reflect.Uint16` the value
// is below 2^16.
func (e *intervalEnv) reflectRange(c *ssa.Call) (ival, bool) {
	f := c.Call.StaticCallee()
	if f == nil || f.Pkg == nil || f.Pkg.Pkg.Path() != "reflect" || f.Signature.Recv() == nil || ssau.TypeName(f.Signature.Recv().Type()) != "Value" {
		return ival{}, false
	}
	if f.Name() != "Uint" && f.Name() != "Int" {
		return ival{}, false
	}
	// the Kind() value switched on in this function
	var kindPaths []string
	for _, b := range e.fn.Blocks {
		for _, in := range b.Instrs {
			k, ok := in.(*ssa.Call)
			if !ok {
				continue
			}
			kf := k.Call.StaticCallee()
			if kf != nil && kf.Name() == "Kind" && kf.Pkg != nil && kf.Pkg.Pkg.Path() == "reflect" {
				kindPaths = append(kindPaths, ssau.Path(k))
			} else if k.Call.IsInvoke() && k.Call.Method.Name() == "Kind" && k.Call.Method.Pkg() != nil && k.Call.Method.Pkg().Path() == "reflect" {
				kindPaths = append(kindPaths, ssau.Path(k))
			}
		}
	}
	bitsOf := map[string]uint{"8": 8, "16": 16, "32": 32, "64": 64}
	for _, kp := range kindPaths {
		ef, ok := e.kinds[kp]
		if !ok {
			ef = ssau.TrackEnum(e.fn, matchPath(kp))
			e.kinds[kp] = ef
		}
		vs, reach := ef.At(c)
		if !reach || !vs.Known() || len(vs.Values()) == 0 {
			continue
		}
		var max uint
		okAll := true
		for _, v := range vs.Values() {
			n, ok := atoi64(v)
			if !ok {
				okAll = false
				break
			}
			name := reflectKindName(n)
			var w uint
			switch {
			case f.Name() == "Uint" && strings.HasPrefix(name, "Uint"):
				w = bitsOf[strings.TrimPrefix(name, "Uint")]
			case f.Name() == "Int" && strings.HasPrefix(name, "Int"):
				w = bitsOf[strings.TrimPrefix(name, "Int")]
			}
			if w == 0 {
				w = 64 // Uint, Uintptr, Int: platform sized; treat as 64
			}
			if w > max {
				max = w
			}
		}
		if !okAll || max == 0 {
			continue
		}
		if f.Name() == "Uint" {
			return ival{bi(0), new(big.Int).Sub(pow2(max), bi(1))}, true
		}
		return ival{new(big.Int).Neg(pow2(max - 1)), new(big.Int).Sub(pow2(max-1), bi(1))}, true
	}
	return ival{}, false
}

func reflectKindName(n int64) string {
	names := []string{"Invalid", "Bool", "Int", "Int8", "Int16", "Int32", "Int64", "Uint", "Uint8", "Uint16", "Uint32", "Uint64", "Uintptr", "Float32", "Float64"}
	if n >= 0 && int(n) < len(names) {
		return names[n]
	}
	return ""
}

// sliceWidth returns n when v is s[a:b] with constant bounds, b-a = n (0 otherwise).
func sliceWidth(v ssa.Value) int {
	sl, ok := v.(*ssa.Slice)
	if !ok || sl.High == nil {
		return 0
	}
	hi, ok := ssau.ConstInt(sl.High)
	if !ok {
		return 0
	}
	lo := int64(0)
	if sl.Low != nil {
		if lo, ok = ssau.ConstInt(sl.Low); !ok {
			return 0
		}
	}
	if hi-lo <= 0 || hi-lo > 18 {
		return 0
	}
	return int(hi - lo)
}

func isConstInt(v ssa.Value, k int64) bool {
	c, ok := ssau.ConstInt(v)
	return ok && c == k
}

var paramRangeCache = map[*ssa.Parameter]*ival{}
var paramRangeBusy = map[*ssa.Parameter]bool{}

// addressTaken: fn is used as a value somewhere (closure, method value,
// stored), so its call sites are not all visible.
var addrTakenCache = map[*load.Program]map[*ssa.Function]bool{}

func addressTaken(p *load.Program, fn *ssa.Function) bool {
	m, ok := addrTakenCache[p]
	if !ok {
		m = map[*ssa.Function]bool{}
		for _, f := range p.Funcs {
			for _, b := range f.Blocks {
				for _, in := range b.Instrs {
					for _, op := range in.Operands(nil) {
						if g, ok := (*op).(*ssa.Function); ok {
							if c, isCall := in.(ssa.CallInstruction); isCall && c.Common().Value == ssa.Value(g) {
								continue
							}
							m[g] = true
						}
					}
				}
			}
		}
		addrTakenCache[p] = m
	}
	return m[fn]
}

// paramRangeFromCallers: for an unexported function (or method) that is only
// ever called directly, the interval of a parameter is the join of the
// intervals of the arguments at all module call sites.
func (e *intervalEnv) paramRangeFromCallers(prm *ssa.Parameter) (ival, bool) {
	fn := prm.Parent()
	if fn == nil || e.p == nil || e.callDepth > 6 {
		return ival{}, false
	}
	if r, ok := paramRangeCache[prm]; ok {
		if r == nil {
			return ival{}, false
		}
		return *r, true
	}
	if paramRangeBusy[prm] {
		return ival{}, false
	}
	if fn.Object() == nil || fn.Object().Exported() || fn.Parent() != nil || addressTaken(e.p, fn) {
		paramRangeCache[prm] = nil
		return ival{}, false
	}
	// methods that implement an interface may be invoked dynamically
	if fn.Signature.Recv() != nil {
		for _, f := range e.p.Funcs {
			for _, b := range f.Blocks {
				for _, in := range b.Instrs {
					if c, ok := in.(ssa.CallInstruction); ok && c.Common().IsInvoke() && c.Common().Method.Name() == fn.Name() {
						paramRangeCache[prm] = nil
						return ival{}, false
					}
				}
			}
		}
	}
	idx := -1
	for i, q := range fn.Params {
		if q == prm {
			idx = i
		}
	}
	if idx < 0 {
		return ival{}, false
	}
	if _, ok := typeRange(prm.Type()); !ok {
		return ival{}, false
	}
	paramRangeBusy[prm] = true
	defer delete(paramRangeBusy, prm)
	var acc *ival
	for _, caller := range e.p.Funcs {
		var ce *intervalEnv
		for _, b := range caller.Blocks {
			for _, in := range b.Instrs {
				c, ok := in.(ssa.CallInstruction)
				if !ok || c.Common().StaticCallee() != fn || idx >= len(c.Common().Args) {
					continue
				}
				if ce == nil {
					ce = newIntervalEnv(e.p, caller)
					ce.callDepth = e.callDepth + 1
				}
				ar, ok := ce.rangeOf(c.Common().Args[idx], ce.ff.At(in), map[ssa.Value]bool{}, 0)
				if !ok {
					return ival{}, false
				}
				if acc == nil {
					cp := ar
					acc = &cp
				} else {
					j := acc.join(ar)
					acc = &j
				}
			}
		}
	}
	paramRangeCache[prm] = acc
	if acc == nil {
		return ival{}, false
	}
	return *acc, true
}

// ---------------------------------------------------------------------------
// field invariants

var fieldRangeCache = map[string]*ival{}
var fieldRangeBusy = map[string]bool{}

// fieldStoreRange returns the join of the intervals of every value the module
// stores to the unexported integer field fa addresses (plus the zero value), or
// false when the field's address is used for anything but loads and stores or
// the field is exported (code outside the module could set it). It is the
// type's invariant for that field: whole-struct copies preserve it.
func (e *intervalEnv) fieldStoreRange(fa *ssa.FieldAddr) (ival, bool) {
	if e.p == nil || e.callDepth > 6 {
		return ival{}, false
	}
	n := ssau.NamedOf(fa.X.Type())
	st, ok := ssau.Deref(fa.X.Type()).Underlying().(*types.Struct)
	if n == nil || !ok || fa.Field >= st.NumFields() {
		return ival{}, false
	}
	fld := st.Field(fa.Field)
	if fld.Exported() || fld.Embedded() {
		return ival{}, false
	}
	tr, ok := typeRange(fld.Type())
	if !ok {
		return ival{}, false
	}
	key := n.Obj().Pkg().Path() + "." + n.Obj().Name() + "." + fld.Name()
	if r, ok := fieldRangeCache[key]; ok {
		if r == nil {
			return ival{}, false
		}
		return *r, true
	}
	if fieldRangeBusy[key] {
		return ival{}, false
	}
	fieldRangeBusy[key] = true
	defer delete(fieldRangeBusy, key)
	acc := ival{bi(0), bi(0)}
	for _, fn := range e.p.Funcs {
		var fe *intervalEnv
		for _, b := range fn.Blocks {
			for _, in := range b.Instrs {
				fa2, ok := in.(*ssa.FieldAddr)
				if !ok || fa2.Field != fa.Field || ssau.NamedOf(fa2.X.Type()) == nil || ssau.NamedOf(fa2.X.Type()).Obj() != n.Obj() {
					continue
				}
				for _, ref := range *fa2.Referrers() {
					switch u := ref.(type) {
					case *ssa.UnOp:
						if u.Op != token.MUL {
							fieldRangeCache[key] = nil
							return ival{}, false
						}
					case *ssa.Store:
						if u.Addr != ssa.Value(fa2) {
							fieldRangeCache[key] = nil
							return ival{}, false
						}
						// a copy of the same field of another value of the type keeps the invariant
						if ld, ok := u.Val.(*ssa.UnOp); ok && ld.Op == token.MUL {
							if fa3, ok := ld.X.(*ssa.FieldAddr); ok && fa3.Field == fa.Field && ssau.NamedOf(fa3.X.Type()) != nil && ssau.NamedOf(fa3.X.Type()).Obj() == n.Obj() {
								continue
							}
						}
						if fe == nil {
							fe = newIntervalEnv(e.p, fn)
							fe.callDepth = e.callDepth + 1
						}
						vr, ok := fe.rangeOf(u.Val, fe.ff.At(u), map[ssa.Value]bool{}, 0)
						if !ok {
							fieldRangeCache[key] = nil
							return ival{}, false
						}
						acc = acc.join(vr)
					case *ssa.DebugRef:
					default:
						fieldRangeCache[key] = nil
						return ival{}, false
					}
				}
			}
		}
	}
	if !acc.within(tr) {
		fieldRangeCache[key] = nil
		return ival{}, false
	}
	fieldRangeCache[key] = &acc
	return acc, true
}
