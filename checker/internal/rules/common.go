// Package rules holds the rule engines (ERR, NIL, NUM, TAB, ORD, OWN).
package rules

import (
	"fmt"
	"go/types"
	"sort"
	"strings"

	"golang.org/x/tools/go/ssa"

	"verif/checker/internal/load"
	"verif/checker/internal/report"
	"verif/checker/internal/ssau"
)

func newResult(id, doc string, min int) *report.RuleResult {
	return &report.RuleResult{ID: id, Doc: doc, MinInstances: min}
}

// missing records an anchor the rule could not resolve: the function, table or
// comparison the rule reasons about is not where (or not named what) the rule
// expects. The rule then cannot decide its clause: the obligation is Undecided
// (the check ends in CHECKER-ERROR, exit 2, without a VIOLATION line). A
// renamed helper must not be reported as a broken property; a removed
// safeguard usually still is, by the rules that do not depend on its name.
func missing(r *report.RuleResult, anchor, why string) {
	r.Add(report.Obligation{Key: "anchor|" + anchor, Func: anchor, Pos: "-", What: "anchor " + anchor, Status: report.Undecided,
		Detail: "anchor not found: " + why + " (renamed, moved or removed: this rule cannot decide its clause on this tree)"})
}

// Roles: the names of module functions a rule recognises calls by (calleeIs).
// A rule whose verdict depends on "this call is binaryWriter.write" silently
// changes meaning when that method is renamed; every name asked for during a
// rule's run is recorded and checked afterwards (CheckRoles).
var roleLog map[[2]string]bool

// BeginRoles starts recording.
func BeginRoles() { roleLog = map[[2]string]bool{} }

// CheckRoles returns the recorded (receiver, name) pairs that no function of
// the module answers to.
func CheckRoles(p *load.Program) []string {
	var out []string
	have := map[[2]string]bool{}
	for _, f := range p.Funcs {
		have[[2]string{recvTypeName(f), f.Name()}] = true
		have[[2]string{"", f.Name()}] = true
	}
	for k := range roleLog {
		if !have[k] {
			if k[0] != "" {
				out = append(out, k[0]+"."+k[1])
			} else {
				out = append(out, k[1])
			}
		}
	}
	sort.Strings(out)
	roleLog = nil
	return out
}

// implementers returns the named struct types of pkg whose pointer type
// implements the interface named iface in pkg ion, sorted by name.
func implementers(p *load.Program, pkg *ssa.Package, iface string) []*types.Named {
	it := p.Type(p.Ion, iface)
	if it == nil {
		return nil
	}
	ii, ok := it.Underlying().(*types.Interface)
	if !ok {
		return nil
	}
	var out []*types.Named
	for _, m := range pkg.Members {
		t, ok := m.(*ssa.Type)
		if !ok {
			continue
		}
		n, ok := t.Type().(*types.Named)
		if !ok {
			continue
		}
		if _, isStruct := n.Underlying().(*types.Struct); !isStruct {
			continue
		}
		if types.Implements(types.NewPointer(n), ii) {
			out = append(out, n)
		}
	}
	sort.Slice(out, func(i, j int) bool { return out[i].Obj().Name() < out[j].Obj().Name() })
	return out
}

// ifaceMethods lists the methods of interface iface (in ion), optionally only
// those whose last result is error.
func ifaceMethods(p *load.Program, iface string, onlyErr bool) []*types.Func {
	it := p.Type(p.Ion, iface)
	if it == nil {
		return nil
	}
	ii := it.Underlying().(*types.Interface)
	var out []*types.Func
	for i := 0; i < ii.NumMethods(); i++ {
		m := ii.Method(i)
		sig := m.Type().(*types.Signature)
		if onlyErr {
			if sig.Results().Len() == 0 || !ssau.IsErrorType(sig.Results().At(sig.Results().Len()-1).Type()) {
				continue
			}
		}
		out = append(out, m)
	}
	sort.Slice(out, func(i, j int) bool { return out[i].Name() < out[j].Name() })
	return out
}

// methodOf resolves method name on *T to its declared function (promotion
// wrappers unwrapped).
func methodOf(p *load.Program, T *types.Named, name string) *ssa.Function {
	ms := p.Prog.MethodSets.MethodSet(types.NewPointer(T))
	for i := 0; i < ms.Len(); i++ {
		if ms.At(i).Obj().Name() == name {
			return load.Unwrap(p.Prog.MethodValue(ms.At(i)))
		}
	}
	return nil
}

// recvTypeName returns the receiver's named type of a method ("" otherwise).
func recvTypeName(f *ssa.Function) string {
	if f == nil || f.Signature.Recv() == nil {
		return ""
	}
	return ssau.TypeName(f.Signature.Recv().Type())
}

// errResultIndex returns the index of the trailing error result or -1.
func errResultIndex(f *ssa.Function) int {
	rs := f.Signature.Results()
	if rs.Len() == 0 {
		return -1
	}
	if ssau.IsErrorType(rs.At(rs.Len() - 1).Type()) {
		return rs.Len() - 1
	}
	return -1
}

// returns lists the Return instructions of f.
func returns(f *ssa.Function) []*ssa.Return {
	var out []*ssa.Return
	for _, b := range f.Blocks {
		if len(b.Instrs) == 0 {
			continue
		}
		if r, ok := b.Instrs[len(b.Instrs)-1].(*ssa.Return); ok {
			out = append(out, r)
		}
	}
	return out
}

// instrPos returns a usable position for an instruction (falls back to the
// nearest preceding instruction with a position, then the function).
func instrPos(p *load.Program, in ssa.Instruction) string {
	if in.Pos().IsValid() {
		return p.Pos(in.Pos())
	}
	b := in.Block()
	idx := -1
	for i, x := range b.Instrs {
		if x == in {
			idx = i
		}
	}
	for i := idx - 1; i >= 0; i-- {
		if b.Instrs[i].Pos().IsValid() {
			return p.Pos(b.Instrs[i].Pos())
		}
	}
	// operands
	for _, op := range in.Operands(nil) {
		if *op != nil && (*op).Pos().IsValid() {
			return p.Pos((*op).Pos())
		}
	}
	return p.Pos(in.Parent().Pos())
}

// fieldPathSuffix: does path end with ".<field>" ?
func hasFieldSuffix(path, field string) bool { return strings.HasSuffix(path, "."+field) }

// freshErrorType reports the named error struct type a value freshly
// allocates (&UsageError{…} converted to error), or "".
func freshErrorType(v ssa.Value) string { return freshErrorTypeD(v, 0) }

func freshErrorTypeD(v ssa.Value, depth int) string {
	for i := 0; i < 4; i++ {
		switch x := v.(type) {
		case *ssa.MakeInterface:
			v = x.X
		case *ssa.ChangeInterface:
			v = x.X
		case *ssa.Alloc:
			return ssau.TypeName(x.Type())
		case *ssa.Call:
			// an error constructor: a function with one result all of whose returns are a fresh
			// value of one error type (func errNotAtTopLevel() *UsageError { return &UsageError{...} })
			f := x.Call.StaticCallee()
			if f == nil || len(f.Blocks) == 0 || f.Signature.Results().Len() != 1 || depth > 2 {
				return ""
			}
			tn := ""
			for _, ret := range returns(f) {
				t := freshErrorTypeD(ret.Results[0], depth+1)
				if t == "" || (tn != "" && t != tn) {
					return ""
				}
				tn = t
			}
			return tn
		default:
			return ""
		}
	}
	return ""
}

// calleeNames renders the possible callees of a call.
func calleeNames(p *load.Program, c ssa.CallInstruction) string {
	if cc := c.Common(); cc.IsInvoke() {
		return ssau.TypeName(cc.Value.Type()) + "." + cc.Method.Name() + " (interface call)"
	}
	var names []string
	for _, f := range p.Callees(c) {
		names = append(names, p.FuncName(f))
	}
	if len(names) == 0 {
		cc := c.Common()
		if cc.IsInvoke() {
			return cc.Method.FullName()
		}
		return cc.Value.Name()
	}
	return strings.Join(names, ",")
}

func sprintf(f string, a ...interface{}) string { return fmt.Sprintf(f, a...) }

func sortStrings(s []string) { sort.Strings(s) }

// ModuleIdents lists the identifiers of the analysed module that rules can
// depend on by name: functions, methods, named types, struct fields,
// constants and package-level variables of the non-test packages.
func ModuleIdents(p *load.Program) []string {
	set := map[string]bool{}
	for _, pk := range []*ssa.Package{p.Ion, p.Cmd} {
		if pk == nil {
			continue
		}
		for name, m := range pk.Members {
			if pos := m.Pos(); pos.IsValid() && p.IsTestFile(pos) {
				continue
			}
			set[name] = true
			if t, ok := m.(*ssa.Type); ok {
				// fields and interface methods are qualified by their type: the same field name in
				// another struct does not stand in for a renamed one
				if st, ok := t.Type().Underlying().(*types.Struct); ok {
					for i := 0; i < st.NumFields(); i++ {
						set[name+"."+st.Field(i).Name()] = true
					}
				}
				if it, ok := t.Type().Underlying().(*types.Interface); ok {
					for i := 0; i < it.NumMethods(); i++ {
						set[name+"."+it.Method(i).Name()] = true
					}
				}
			}
		}
	}
	for _, f := range p.Funcs {
		if !p.InTest(f) && p.InModule(f) && f.Parent() == nil && f.Synthetic == "" {
			if rt := recvTypeName(f); rt != "" {
				set[rt+"."+f.Name()] = true
			} else {
				set[f.Name()] = true
			}
		}
	}
	var out []string
	for k := range set {
		out = append(out, k)
	}
	sort.Strings(out)
	return out
}

// MissingAnchors returns the identifiers the rule's source file(s) mention as
// string literals (anchorsByFile, generated by tools/gen_anchors.py from the
// tree the rules were written for) that the analysed module no longer defines.
func MissingAnchors(p *load.Program, ruleID string) []string {
	have := map[string]bool{}
	for _, id := range ModuleIdents(p) {
		have[id] = true
	}
	var out []string
	seen := map[string]bool{}
	for _, file := range append([]string{"(shared)"}, anchorFilesOfRule[ruleID]...) {
		for _, id := range anchorsByFile[file] {
			if optionalAnchor[id] {
				continue
			}
			if !have[id] && !seen[id] {
				seen[id] = true
				out = append(out, id)
			}
		}
	}
	sort.Strings(out)
	return out
}

// optionalAnchor: names the rules mention but whose absence they handle (a
// one-result wrapper of a decoder that may be inlined, a single-use helper).
var optionalAnchor = map[string]bool{
	"bitstream.readVarUint": true, "bitstream.skipVarUint": true, "bitstream.readVarInt": true,
	"binaryWriter.writeTag": true, "binaryWriter.writeLen": true,
	"tokenizer.skipStructHelper": true, "tokenizer.skipListHelper": true, "tokenizer.skipSexpHelper": true,
	"tokenizer.skipWhitespaceHelper": true,
}
