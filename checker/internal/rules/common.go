// Package rules holds the rule engines (ERR, NIL, NUM, TAB, ORD, OWN).
package rules

import (
	"fmt"
	"go/types"
	"sort"
	"strings"

	"golang.org/x/tools/go/ssa"

	"verif/checker/internal/load"
	"verif/checker/internal/report"
	"verif/checker/internal/ssau"
)

func newResult(id, doc string, min int) *report.RuleResult {
	return &report.RuleResult{ID: id, Doc: doc, MinInstances: min}
}

// missing records an anchor the rule could not resolve. The construct that is
// meant to make the property hold is not where the rule expects it, so this is
// reported as a violation of the clause (never silently skipped).
func missing(r *report.RuleResult, anchor, why string) {
	r.Add(report.Obligation{Key: "anchor|" + anchor, Func: anchor, Pos: "-", What: "anchor " + anchor, Status: report.Violation,
		Detail: "anchor not found: " + why})
}

// implementers returns the named struct types of pkg whose pointer type
// implements the interface named iface in pkg ion, sorted by name.
func implementers(p *load.Program, pkg *ssa.Package, iface string) []*types.Named {
	it := p.Type(p.Ion, iface)
	if it == nil {
		return nil
	}
	ii, ok := it.Underlying().(*types.Interface)
	if !ok {
		return nil
	}
	var out []*types.Named
	for _, m := range pkg.Members {
		t, ok := m.(*ssa.Type)
		if !ok {
			continue
		}
		n, ok := t.Type().(*types.Named)
		if !ok {
			continue
		}
		if _, isStruct := n.Underlying().(*types.Struct); !isStruct {
			continue
		}
		if types.Implements(types.NewPointer(n), ii) {
			out = append(out, n)
		}
	}
	sort.Slice(out, func(i, j int) bool { return out[i].Obj().Name() < out[j].Obj().Name() })
	return out
}

// ifaceMethods lists the methods of interface iface (in ion), optionally only
// those whose last result is error.
func ifaceMethods(p *load.Program, iface string, onlyErr bool) []*types.Func {
	it := p.Type(p.Ion, iface)
	if it == nil {
		return nil
	}
	ii := it.Underlying().(*types.Interface)
	var out []*types.Func
	for i := 0; i < ii.NumMethods(); i++ {
		m := ii.Method(i)
		sig := m.Type().(*types.Signature)
		if onlyErr {
			if sig.Results().Len() == 0 || !ssau.IsErrorType(sig.Results().At(sig.Results().Len()-1).Type()) {
				continue
			}
		}
		out = append(out, m)
	}
	sort.Slice(out, func(i, j int) bool { return out[i].Name() < out[j].Name() })
	return out
}

// methodOf resolves method name on *T to its declared function (promotion
// wrappers unwrapped).
func methodOf(p *load.Program, T *types.Named, name string) *ssa.Function {
	ms := p.Prog.MethodSets.MethodSet(types.NewPointer(T))
	for i := 0; i < ms.Len(); i++ {
		if ms.At(i).Obj().Name() == name {
			return load.Unwrap(p.Prog.MethodValue(ms.At(i)))
		}
	}
	return nil
}

// recvTypeName returns the receiver's named type of a method ("" otherwise).
func recvTypeName(f *ssa.Function) string {
	if f == nil || f.Signature.Recv() == nil {
		return ""
	}
	return ssau.TypeName(f.Signature.Recv().Type())
}

// errResultIndex returns the index of the trailing error result or -1.
func errResultIndex(f *ssa.Function) int {
	rs := f.Signature.Results()
	if rs.Len() == 0 {
		return -1
	}
	if ssau.IsErrorType(rs.At(rs.Len() - 1).Type()) {
		return rs.Len() - 1
	}
	return -1
}

// returns lists the Return instructions of f.
func returns(f *ssa.Function) []*ssa.Return {
	var out []*ssa.Return
	for _, b := range f.Blocks {
		if len(b.Instrs) == 0 {
			continue
		}
		if r, ok := b.Instrs[len(b.Instrs)-1].(*ssa.Return); ok {
			out = append(out, r)
		}
	}
	return out
}

// instrPos returns a usable position for an instruction (falls back to the
// nearest preceding instruction with a position, then the function).
func instrPos(p *load.Program, in ssa.Instruction) string {
	if in.Pos().IsValid() {
		return p.Pos(in.Pos())
	}
	b := in.Block()
	idx := -1
	for i, x := range b.Instrs {
		if x == in {
			idx = i
		}
	}
	for i := idx - 1; i >= 0; i-- {
		if b.Instrs[i].Pos().IsValid() {
			return p.Pos(b.Instrs[i].Pos())
		}
	}
	// operands
	for _, op := range in.Operands(nil) {
		if *op != nil && (*op).Pos().IsValid() {
			return p.Pos((*op).Pos())
		}
	}
	return p.Pos(in.Parent().Pos())
}

// fieldPathSuffix: does path end with ".<field>" ?
func hasFieldSuffix(path, field string) bool { return strings.HasSuffix(path, "."+field) }

// freshErrorType reports the named error struct type a value freshly
// allocates (&UsageError{…} converted to error), or "".
func freshErrorType(v ssa.Value) string {
	for i := 0; i < 4; i++ {
		switch x := v.(type) {
		case *ssa.MakeInterface:
			v = x.X
		case *ssa.ChangeInterface:
			v = x.X
		case *ssa.Alloc:
			return ssau.TypeName(x.Type())
		default:
			return ""
		}
	}
	return ""
}

// calleeNames renders the possible callees of a call.
func calleeNames(p *load.Program, c ssa.CallInstruction) string {
	if cc := c.Common(); cc.IsInvoke() {
		return ssau.TypeName(cc.Value.Type()) + "." + cc.Method.Name() + " (interface call)"
	}
	var names []string
	for _, f := range p.Callees(c) {
		names = append(names, p.FuncName(f))
	}
	if len(names) == 0 {
		cc := c.Common()
		if cc.IsInvoke() {
			return cc.Method.FullName()
		}
		return cc.Value.Name()
	}
	return strings.Join(names, ",")
}

func sprintf(f string, a ...interface{}) string { return fmt.Sprintf(f, a...) }

func sortStrings(s []string) { sort.Strings(s) }
