package rules

import (
	"go/token"
	"math/big"
	"sort"
	"strings"

	"golang.org/x/tools/go/ssa"

	"verif/checker/internal/load"
	"verif/checker/internal/report"
	"verif/checker/internal/ssau"
)

// boundaryOf normalises a comparison `x op k` to the boundary b that splits
// the integers into (-inf, b-1] and [b, +inf): x >= 24, x > 23, x < 24 and
// x <= 23 all have boundary 24. ok=false for == / !=.
func boundaryOf(op token.Token, k *big.Int) (*big.Int, bool) {
	switch op {
	case token.GEQ, token.LSS:
		return k, true
	case token.GTR, token.LEQ:
		return new(big.Int).Add(k, bi(1)), true
	}
	return nil, false
}

// boundariesIn lists, for the comparisons in fn whose non-constant operand's
// path contains sub, the boundaries they draw.
func boundariesIn(fn *ssa.Function, sub string) map[string]ssa.Instruction {
	out := map[string]ssa.Instruction{}
	for _, b := range fn.Blocks {
		for _, in := range b.Instrs {
			bo, ok := in.(*ssa.BinOp)
			if !ok {
				continue
			}
			x, y, op := bo.X, bo.Y, bo.Op
			if _, isC := x.(*ssa.Const); isC {
				x, y = y, x
				op = map[token.Token]token.Token{token.LSS: token.GTR, token.GTR: token.LSS, token.LEQ: token.GEQ, token.GEQ: token.LEQ}[op]
			}
			c, isC := y.(*ssa.Const)
			if !isC || c.Value == nil {
				continue
			}
			k, okk := new(big.Int).SetString(c.Value.ExactString(), 10)
			if !okk {
				continue
			}
			inner := x
			for {
				if cv, ok := inner.(*ssa.Convert); ok {
					inner = cv.X
					continue
				}
				break
			}
			if !containsParts(stripConv(ssau.Path(x)), sub) && !containsParts(describeOperand(inner), sub) {
				continue
			}
			if bnd, ok := boundaryOf(op, k); ok {
				out[bnd.String()] = in
			}
		}
	}
	return out
}

// TabBounds implements TAB-BOUNDS: the constants at which the code separates
// valid from invalid (or one representation from the next) are the ones the
// Ion data model prescribes.
func TabBounds(p *load.Program) *report.RuleResult {
	r := newResult("TAB-BOUNDS", "the range tests that implement limits of the Ion data model draw their boundary where the specification does, however the comparison is spelled (x >= 24, x > 23, !(x < 24) are the same boundary): offset hours below 24 and minutes below 60, int32 limits of IntSize/IntValue, a declared max_id of 0 is a declaration, years 1..9999, at most 9 fraction digits kept, symbol IDs of at most 8 bytes", 10)
	type row struct {
		fn, operand string
		bounds      []string
		why         string
	}
	pow31 := new(big.Int).Lsh(bi(1), 31)
	rows := []row{
		{"computeTimezoneKind", "computeOffset(*#0", []string{"24"}, "an offset of 24 hours or more is not a valid Ion offset"},
		{"computeTimezoneKind", "computeOffset(*#1", []string{"60"}, "offset minutes run 0..59"},
		{"isIonYear", "p.year", []string{"1", "10000"}, "Ion years run 0001..9999"},
		{"reader.IntValue", "Int64Value()", []string{pow31.String(), new(big.Int).Neg(pow31).String()}, "IntValue returns the value exactly when it fits an int32: first rejected values 2^31 and -2^31-1"},
		{"reader.IntSize", "", []string{pow31.String(), new(big.Int).Neg(pow31).String()}, "Int32 is reported exactly for values that fit an int32"},
		{"readImport", "phi maxID", []string{"0"}, "a declared max_id of 0 is a valid declaration (reserve no IDs); only a negative or absent one means undeclared"},
		{"ParseTimestamp", "phi idx", []string{"21", "29"}, "a time with no fraction ends at index 20; 9 fraction digits (nanoseconds) end at index 28; more are rounded"},
		{"bitstream.ReadSymbolID", ".len", []string{"9"}, "a symbol ID value is a UInt of at most 8 bytes here"},
		{"bitstream.ReadTimestamp", "result #0 of bitstream.readVarUintLen", []string{"10001"}, "no calendar field exceeds the UTC year 10000"},
	}
	for _, rw := range rows {
		fn := p.Func(nil, rw.fn)
		if fn == nil {
			missing(r, rw.fn, "function not found")
			continue
		}
		found := boundariesIn(fn, rw.operand)
		var have []string
		for k := range found {
			have = append(have, k)
		}
		sort.Strings(have)
		for _, want := range rw.bounds {
			what := sprintf("boundary %s on %s", want, strings.TrimPrefix(strings.TrimPrefix(rw.operand, "."), "phi "))
			if in, ok := found[want]; ok {
				r.OK(p.FuncName(fn), instrPos(p, in), what, rw.why)
			} else {
				r.Bad(p.FuncName(fn), p.Pos(fn.Pos()), what, sprintf("%s; the comparisons of this operand found here draw their boundaries at {%s} instead", rw.why, strings.Join(have, ", ")))
			}
		}
	}
	return r
}

// containsParts: the parts of pat (separated by '*') occur in s in order.
func containsParts(s, pat string) bool {
	for _, part := range strings.Split(pat, "*") {
		i := strings.Index(s, part)
		if i < 0 {
			return false
		}
		s = s[i+len(part):]
	}
	return true
}

// OrdNegZero implements ORD-NEGZERO: bitstream.ReadInt rejects a negative
// integer whose magnitude is zero whatever representation (int64 or big.Int)
// the magnitude was decoded into.
func OrdNegZero(p *load.Program) *report.RuleResult {
	r := newResult("ORD-NEGZERO", "in bitstream.ReadInt the zero flag that the negative-zero rejection tests is, on every arm that decodes a magnitude, the result of a zero test of that magnitude (or the constant true of the empty encoding) — never a default left over from an arm that forgot it", 3)
	fn := p.Func(nil, "bitstream.ReadInt")
	if fn == nil {
		missing(r, "bitstream.ReadInt", "not found")
		return r
	}
	negInt, okc := constOf(p, "bitcodeNegInt")
	if !okc {
		missing(r, "bitcodeNegInt", "constant not found")
		return r
	}
	// the If that leads to the "cannot be negative" error: its condition chain tests a bool phi and code == bitcodeNegInt
	var flag *ssa.Phi
	for _, b := range fn.Blocks {
		if len(b.Instrs) == 0 {
			continue
		}
		ifi, ok := b.Instrs[len(b.Instrs)-1].(*ssa.If)
		if !ok {
			continue
		}
		ph, ok := ifi.Cond.(*ssa.Phi)
		if !ok || basicKind(ph.Type()) != 1 /* bool */ {
			continue
		}
		// the true successor compares the code with bitcodeNegInt
		for _, in := range b.Succs[0].Instrs {
			if bo, ok := in.(*ssa.BinOp); ok && bo.Op == token.EQL {
				if k, ok := ssau.ConstInt(bo.Y); ok && k == negInt && strings.HasSuffix(ssau.Path(bo.X), ".code") {
					flag = ph
				}
			}
		}
	}
	if flag == nil {
		r.Unknown(p.FuncName(fn), p.Pos(fn.Pos()), "negative-zero test", "no `zeroFlag && code == bitcodeNegInt` test found: the rejection may be spelled another way, which this rule cannot decide")
		return r
	}
	name := p.FuncName(fn)
	for i, e := range flag.Edges {
		pred := flag.Block().Preds[i]
		what := sprintf("zero flag coming from the arm ending at %s", p.Pos(lastPos(pred)))
		switch x := e.(type) {
		case *ssa.Const:
			if x.Value != nil && x.Value.ExactString() == "true" {
				r.OK(name, p.Pos(lastPos(pred)), what, "constant true (the empty encoding is zero)")
			} else {
				r.Bad(name, p.Pos(lastPos(pred)), what, "this arm leaves the zero flag at its default false: a negative integer with a zero magnitude decoded on this arm is accepted as 0")
			}
		case *ssa.BinOp:
			if x.Op == token.EQL {
				if k, ok := ssau.ConstInt(x.Y); ok && k == 0 {
					r.OK(name, p.Pos(lastPos(pred)), what, "result of a comparison of the decoded magnitude with 0")
					continue
				}
			}
			r.Bad(name, p.Pos(lastPos(pred)), what, "the flag is not a zero test of the magnitude")
		default:
			r.Bad(name, p.Pos(lastPos(pred)), what, "the flag is not a zero test of the magnitude")
		}
	}
	return r
}

func lastPos(b *ssa.BasicBlock) token.Pos {
	for i := len(b.Instrs) - 1; i >= 0; i-- {
		if b.Instrs[i].Pos().IsValid() {
			return b.Instrs[i].Pos()
		}
	}
	return b.Parent().Pos()
}
