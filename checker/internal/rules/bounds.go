package rules

import (
	"go/token"
	"math/big"
	"sort"
	"strings"

	"golang.org/x/tools/go/ssa"

	"verif/checker/internal/load"
	"verif/checker/internal/report"
	"verif/checker/internal/ssau"
)

// boundaryOf normalises a comparison `x op k` to the boundary b that splits
// the integers into (-inf, b-1] and [b, +inf): x >= 24, x > 23, x < 24 and
// x <= 23 all have boundary 24. ok=false for == / !=.
func boundaryOf(op token.Token, k *big.Int) (*big.Int, bool) {
	switch op {
	case token.GEQ, token.LSS:
		return k, true
	case token.GTR, token.LEQ:
		return new(big.Int).Add(k, bi(1)), true
	}
	return nil, false
}

// boundariesIn lists, for the comparisons in fn whose non-constant operand's
// path contains sub, the boundaries they draw.
func boundariesIn(fn *ssa.Function, sub string) map[string]ssa.Instruction {
	return boundariesOn(fn, sub, nil)
}

// boundariesOn: as boundariesIn; with a parameter given, the comparisons of exactly that parameter
// (the operand handed to a helper) are collected instead of those matching sub.
func boundariesOn(fn *ssa.Function, sub string, param *ssa.Parameter) map[string]ssa.Instruction {
	out := map[string]ssa.Instruction{}
	for _, b := range fn.Blocks {
		for _, in := range b.Instrs {
			bo, ok := in.(*ssa.BinOp)
			if !ok {
				continue
			}
			x, y, op := bo.X, bo.Y, bo.Op
			if _, isC := x.(*ssa.Const); isC {
				x, y = y, x
				op = map[token.Token]token.Token{token.LSS: token.GTR, token.GTR: token.LSS, token.LEQ: token.GEQ, token.GEQ: token.LEQ}[op]
			}
			c, isC := y.(*ssa.Const)
			if !isC || c.Value == nil {
				continue
			}
			k, okk := new(big.Int).SetString(c.Value.ExactString(), 10)
			if !okk {
				continue
			}
			inner := x
			for {
				if cv, ok := inner.(*ssa.Convert); ok {
					inner = cv.X
					continue
				}
				break
			}
			if param != nil {
				if inner != ssa.Value(param) {
					continue
				}
			} else if !containsParts(stripConv(ssau.Path(x)), sub) && !containsParts(describeOperand(inner), sub) {
				continue
			}
			if bnd, ok := boundaryOf(op, k); ok {
				out[bnd.String()] = in
			}
		}
	}
	return out
}

// TabBounds implements TAB-BOUNDS: the constants at which the code separates
// valid from invalid (or one representation from the next) are the ones the
// Ion data model prescribes.
func TabBounds(p *load.Program) *report.RuleResult {
	r := newResult("TAB-BOUNDS", "the range tests that implement limits of the Ion data model draw their boundary where the specification does, however the comparison is spelled (x >= 24, x > 23, !(x < 24) are the same boundary): offset hours below 24 and minutes below 60, int32 limits of IntSize/IntValue, a declared max_id of 0 is a declaration, years 1..9999, at most 9 fraction digits kept, symbol IDs of at most 8 bytes", 10)
	type row struct {
		fn, operand string
		bounds      []string
		why         string
	}
	pow31 := new(big.Int).Lsh(bi(1), 31)
	rows := []row{
		{"computeTimezoneKind", "computeOffset(*#0", []string{"24"}, "an offset of 24 hours or more is not a valid Ion offset"},
		{"computeTimezoneKind", "computeOffset(*#1", []string{"60"}, "offset minutes run 0..59"},
		{"isIonYear", "p.year", []string{"1", "10000"}, "Ion years run 0001..9999"},
		{"reader.IntValue", "Int64Value()", []string{pow31.String(), new(big.Int).Neg(pow31).String()}, "IntValue returns the value exactly when it fits an int32: first rejected values 2^31 and -2^31-1"},
		{"reader.IntSize", "", []string{pow31.String(), new(big.Int).Neg(pow31).String()}, "Int32 is reported exactly for values that fit an int32"},
		{"readImport", "maxID", []string{"0"}, "a declared max_id of 0 is a valid declaration (reserve no IDs); only a negative or absent one means undeclared"},
		{"ParseTimestamp", "phi idx", []string{"21", "29"}, "a time with no fraction ends at index 20; 9 fraction digits (nanoseconds) end at index 28; more are rounded"},
		{"bitstream.ReadSymbolID", ".len", []string{"9"}, "a symbol ID value is a UInt of at most 8 bytes here"},
		{"bitstream.ReadTimestamp", "result #0 of bitstream.readVarUintLen", []string{"10001"}, "no calendar field exceeds the UTC year 10000"},
	}
	for _, rw := range rows {
		fn := p.Func(nil, rw.fn)
		if fn == nil {
			missing(r, rw.fn, "function not found")
			continue
		}
		// the function and the unexported helpers it hands the operand to (a loop body or a branch
		// extracted into a helper keeps the same comparisons on a parameter of the same name)
		found := map[string]ssa.Instruction{}
		pat := strings.TrimPrefix(rw.operand, "phi ")
		closure := helperClosure(p, fn, func(f *ssa.Function) bool {
			return (f.Object() == nil || !f.Object().Exported()) && p.File(f.Pos()) == p.File(fn.Pos())
		}, 2)
		for _, g := range closure {
			for k, v := range boundariesIn(g, pat) {
				if _, dup := found[k]; !dup {
					found[k] = v
				}
			}
		}
		// a predicate helper given the operand as an argument (fits(x)) compares its parameter
		if pat != "" {
			for _, g := range closure {
				for _, b := range g.Blocks {
					for _, in := range b.Instrs {
						c, ok := in.(ssa.CallInstruction)
						if !ok {
							continue
						}
						callee := c.Common().StaticCallee()
						if callee == nil || callee == fn || len(callee.Blocks) == 0 {
							continue
						}
						inClosure := false
						for _, h := range closure {
							inClosure = inClosure || h == callee
						}
						if !inClosure {
							continue
						}
						for i, a := range c.Common().Args {
							inner := a
							for {
								if cv, ok := inner.(*ssa.Convert); ok {
									inner = cv.X
									continue
								}
								break
							}
							if i >= len(callee.Params) || (!containsParts(stripConv(ssau.Path(a)), pat) && !containsParts(describeOperand(inner), pat)) {
								continue
							}
							for k, v := range boundariesOn(callee, "", callee.Params[i]) {
								if _, dup := found[k]; !dup {
									found[k] = v
								}
							}
						}
					}
				}
			}
		}
		var have []string
		for k := range found {
			have = append(have, k)
		}
		sort.Strings(have)
		for _, want := range rw.bounds {
			what := sprintf("boundary %s on %s", want, strings.TrimPrefix(strings.TrimPrefix(rw.operand, "."), "phi "))
			if in, ok := found[want]; ok {
				r.OK(p.FuncName(fn), instrPos(p, in), what, rw.why)
			} else {
				r.Bad(p.FuncName(fn), p.Pos(fn.Pos()), what, sprintf("%s; the comparisons of this operand found here draw their boundaries at {%s} instead", rw.why, strings.Join(have, ", ")))
			}
		}
	}
	return r
}

// containsParts: the parts of pat (separated by '*') occur in s in order.
func containsParts(s, pat string) bool {
	// names of locals are matched loosely (idx / offsetIdx): lower case, substring
	s, pat = strings.ToLower(s), strings.ToLower(pat)
	for _, part := range strings.Split(pat, "*") {
		i := strings.Index(s, part)
		if i < 0 {
			return false
		}
		s = s[i+len(part):]
	}
	return true
}

// OrdNegZero implements ORD-NEGZERO: bitstream.ReadInt rejects a negative
// integer whose magnitude is zero whatever representation (int64 or big.Int)
// the magnitude was decoded into.
func OrdNegZero(p *load.Program) *report.RuleResult {
	r := newResult("ORD-NEGZERO", "in bitstream.ReadInt the zero flag that the negative-zero rejection tests is, on every arm that decodes a magnitude, the result of a zero test of that magnitude (or the constant true of the empty encoding) — never a default left over from an arm that forgot it", 3)
	fn := p.Func(nil, "bitstream.ReadInt")
	if fn == nil {
		missing(r, "bitstream.ReadInt", "not found")
		return r
	}
	negInt, okc := constOf(p, "bitcodeNegInt")
	if !okc {
		missing(r, "bitcodeNegInt", "constant not found")
		return r
	}
	// the If that leads to the "cannot be negative" error: its condition chain tests a bool phi and code == bitcodeNegInt
	var flag *ssa.Phi
	for _, b := range fn.Blocks {
		if len(b.Instrs) == 0 {
			continue
		}
		ifi, ok := b.Instrs[len(b.Instrs)-1].(*ssa.If)
		if !ok {
			continue
		}
		ph, ok := ifi.Cond.(*ssa.Phi)
		if !ok || basicKind(ph.Type()) != 1 /* bool */ {
			continue
		}
		// the true successor compares the code with bitcodeNegInt
		for _, in := range b.Succs[0].Instrs {
			if bo, ok := in.(*ssa.BinOp); ok && bo.Op == token.EQL {
				if k, ok := ssau.ConstInt(bo.Y); ok && k == negInt && strings.HasSuffix(ssau.Path(bo.X), ".code") {
					// ... and that comparison decides an error exit (the rejection), not the negation of
					// the magnitude, which tests the same code under another boolean
					s0 := b.Succs[0]
					if blockIfCond(s0) == ssa.Value(bo) && len(s0.Succs) == 2 {
						for _, x := range s0.Succs[0].Instrs {
							if ret, ok := x.(*ssa.Return); ok && len(ret.Results) > 0 && definitelyNonNilError(p, ret.Results[len(ret.Results)-1], 0) {
								flag = ph
							}
						}
					}
				}
			}
		}
	}
	if flag == nil {
		r.Unknown(p.FuncName(fn), p.Pos(fn.Pos()), "negative-zero test", "no `zeroFlag && code == bitcodeNegInt` test found: the rejection may be spelled another way, which this rule cannot decide")
		return r
	}
	name := p.FuncName(fn)
	for i, e := range flag.Edges {
		pred := flag.Block().Preds[i]
		what := sprintf("zero flag coming from the arm ending at %s", p.Pos(lastPos(pred)))
		switch x := e.(type) {
		case *ssa.Const:
			if x.Value != nil && x.Value.ExactString() == "true" {
				r.OK(name, p.Pos(lastPos(pred)), what, "constant true (the empty encoding is zero)")
			} else {
				r.Bad(name, p.Pos(lastPos(pred)), what, "this arm leaves the zero flag at its default false: a negative integer with a zero magnitude decoded on this arm is accepted as 0")
			}
		case *ssa.BinOp:
			if x.Op == token.EQL {
				if k, ok := ssau.ConstInt(x.Y); ok && k == 0 {
					r.OK(name, p.Pos(lastPos(pred)), what, "result of a comparison of the decoded magnitude with 0")
					continue
				}
			}
			r.Bad(name, p.Pos(lastPos(pred)), what, "the flag is not a zero test of the magnitude")
		default:
			r.Bad(name, p.Pos(lastPos(pred)), what, "the flag is not a zero test of the magnitude")
		}
	}
	return r
}

func lastPos(b *ssa.BasicBlock) token.Pos {
	for i := len(b.Instrs) - 1; i >= 0; i-- {
		if b.Instrs[i].Pos().IsValid() {
			return b.Instrs[i].Pos()
		}
	}
	return b.Parent().Pos()
}

// OrdTextIVM implements ORD-TEXTIVM: the text reader recognises the version
// marker $ion_1_0 and resets the symbol table context when it sees one.
func OrdTextIVM(p *load.Program) *report.RuleResult {
	r := newResult("ORD-TEXTIVM", "the text reader compares an unquoted top-level symbol with the version marker text \"$ion_1_0\"; on the edge where it matches, and only after the reader has found that no '::' follows the symbol, the current symbol table is reset to the system table and the marker is not surfaced as a value (done == false)", 3)
	found := 0
	for _, fn := range sortedFuncs(p) {
		if p.InTest(fn) || recvTypeName(fn) != "textReader" {
			continue
		}
		var ff *ssau.FactFlow
		// the value compared with "$ion_1_0"
		var vpaths []string
		for _, b := range fn.Blocks {
			for _, in := range b.Instrs {
				if c, ok := in.(*ssa.Call); ok {
					// a predicate helper that is true only for the marker text (isVersionMarker(val))
					if f := c.Call.StaticCallee(); f != nil {
						for _, fact := range predicateFacts(p, f) {
							for i, prm := range f.Params {
								if fact.Kind == "eq" && fact.Arg == `k:"$ion_1_0"` && fact.Path == "p."+prm.Name() && i < len(c.Call.Args) {
									vpaths = append(vpaths, ssau.Path(c.Call.Args[i]))
								}
							}
						}
					}
				}
				bo, ok := in.(*ssa.BinOp)
				if !ok || (bo.Op != token.EQL && bo.Op != token.NEQ) {
					continue
				}
				for _, pr := range [][2]ssa.Value{{bo.X, bo.Y}, {bo.Y, bo.X}} {
					if s, ok := ssau.ConstString(pr[1]); ok && s == "$ion_1_0" {
						vpaths = append(vpaths, ssau.Path(pr[0]))
					}
				}
			}
		}
		if len(vpaths) == 0 {
			continue
		}
		isPred := false
		for _, fact := range predicateFacts(p, fn) {
			isPred = isPred || (fact.Kind == "eq" && fact.Arg == `k:"$ion_1_0"`)
		}
		if isPred {
			// the comparison lives in a predicate helper: the obligations are its callers'
			continue
		}
		found++
		ff = ssau.ComputeFacts(fn, ssau.StoreKills)
		name := p.FuncName(fn)
		isMarker := func(fs ssau.FactSet) bool {
			for _, vp := range vpaths {
				if fs.Has("eq", vp, `k:"$ion_1_0"`) {
					return true
				}
			}
			return false
		}
		reset := false
		for _, b := range fn.Blocks {
			for _, in := range b.Instrs {
				st, ok := in.(*ssa.Store)
				if !ok {
					continue
				}
				if _, fl, ok := ssau.FieldOf(st.Addr); !ok || fl != "lst" {
					continue
				}
				if strings.Contains(ssau.Path(st.Val), "V1SystemSymbolTable") && isMarker(ff.At(st)) {
					reset = true
					r.OK(name, instrPos(p, st), "version marker resets the symbol table", "lst = V1SystemSymbolTable on the edge where the symbol text is $ion_1_0")
					// ... and only for a symbol that turned out not to be an annotation ($ion_1_0::x is an annotated value)
					what := "version marker recognised only when no '::' follows"
					var dc []ssa.Value
					for _, b2 := range fn.Blocks {
						for _, in2 := range b2.Instrs {
							if c2, ok := in2.(*ssa.Call); ok && calleeIs(c2, "tokenizer", "SkipDoubleColon") && c2.Referrers() != nil {
								for _, u := range *c2.Referrers() {
									if ex, ok := u.(*ssa.Extract); ok && ex.Index == 0 {
										dc = append(dc, ex)
									}
								}
							}
						}
					}
					switch {
					case len(dc) == 0:
						r.Unknown(name, instrPos(p, st), what, "this function does not look for '::' itself: the rule cannot tell whether the symbol was already found not to be an annotation")
					default:
						okDC := false
						for _, v := range dc {
							okDC = okDC || ff.At(st).Has("false", ssau.Path(v), "")
						}
						if okDC {
							r.OK(name, instrPos(p, st), what, "SkipDoubleColon returned false on every path to the reset")
						} else {
							r.Bad(name, instrPos(p, st), what, "the table is reset before the reader has looked for '::': the annotated value $ion_1_0::x resets the symbol table and then fails on the '::'")
						}
					}
				}
			}
		}
		if !reset {
			r.Bad(name, p.Pos(fn.Pos()), "version marker resets the symbol table", "the symbol is compared with $ion_1_0 but the matching edge does not store the system table into lst: symbols after a text version marker resolve against the previous segment's table")
		}
		for _, ret := range returns(fn) {
			if !isMarker(ff.At(ret)) || len(ret.Results) < 1 {
				continue
			}
			if c, ok := ret.Results[0].(*ssa.Const); ok && c.Value != nil && c.Value.ExactString() == "false" {
				r.OK(name, instrPos(p, ret), "version marker is not a value", "returns done == false")
			} else if ei := errResultIndex(fn); ei >= 0 && definitelyNonNilError(p, ret.Results[ei], 0) {
				continue
			} else {
				r.Bad(name, instrPos(p, ret), "version marker is not a value", "an exit reached with the symbol text equal to $ion_1_0 reports a value: the version marker surfaces as a user symbol")
			}
		}
	}
	if found == 0 {
		r.Bad("textReader", "-", "version marker recognised", "no method of the text reader compares a symbol with \"$ion_1_0\": the text form of the version marker is read as an ordinary symbol and never resets the symbol table")
	}
	return r
}

// TabNibbleNext implements the Next half of TAB-NIBBLE: once bitstream.Next has
// replaced the tag's low nibble by a length decoded from a VarUInt (sorted
// structs), it no longer compares that value with the nibble's special codes
// 14 (length follows) and 15 (null).
func TabNibbleNext(p *load.Program) *report.RuleResult {
	r := newResult("TAB-NIBBLE-NEXT", "in bitstream.Next every comparison of the length variable with the nibble codes 14 and 15 is unreachable on the paths where the variable already holds a length decoded by readVarUintLen (a sorted struct of 14 or 15 bytes is neither null nor long-form)", 2)
	fn := p.Func(nil, "bitstream.Next")
	if fn == nil {
		missing(r, "bitstream.Next", "not found")
		return r
	}
	ff := ssau.ComputeFacts(fn, ssau.StoreKills)
	fromVarUint := func(v ssa.Value) bool {
		ex, ok := v.(*ssa.Extract)
		if !ok {
			return false
		}
		c, ok := ex.Tuple.(*ssa.Call)
		return ok && c.Call.StaticCallee() != nil && c.Call.StaticCallee().Name() == "readVarUintLen" && ex.Index == 0
	}
	// entry phis: where a decoded length first replaces the nibble
	type entry struct {
		ph    *ssa.Phi
		edges []int
	}
	var entries []entry
	for _, b := range fn.Blocks {
		for _, in := range b.Instrs {
			if ph, ok := in.(*ssa.Phi); ok {
				var es []int
				for i, e := range ph.Edges {
					if fromVarUint(e) {
						es = append(es, i)
					}
				}
				if len(es) > 0 {
					entries = append(entries, entry{ph, es})
				}
			}
		}
	}
	var mayBeDecoded func(v ssa.Value, depth int) *entry
	mayBeDecoded = func(v ssa.Value, depth int) *entry {
		if depth > 6 {
			return nil
		}
		ph, ok := v.(*ssa.Phi)
		if !ok {
			return nil
		}
		for i := range entries {
			if entries[i].ph == ph {
				return &entries[i]
			}
		}
		for _, e := range ph.Edges {
			if en := mayBeDecoded(e, depth+1); en != nil {
				return en
			}
		}
		return nil
	}
	n := 0
	for _, b := range fn.Blocks {
		for _, in := range b.Instrs {
			bo, ok := in.(*ssa.BinOp)
			if !ok || bo.Op != token.EQL {
				continue
			}
			k, ok := ssau.ConstInt(bo.Y)
			if !ok || (k != 14 && k != 15) {
				continue
			}
			en := mayBeDecoded(bo.X, 0)
			if en == nil {
				continue
			}
			n++
			what := sprintf("length == %d after a decoded length may have replaced the nibble", k)
			facts := ff.At(bo)
			by := ""
			// (a) a bool phi next to the entry phi that is false exactly on the decoded-length edges, known true here
			for _, in2 := range en.ph.Block().Instrs {
				fl, ok := in2.(*ssa.Phi)
				if !ok || fl == en.ph || basicKind(fl.Type()) != 1 {
					continue
				}
				allFalse := true
				for _, i := range en.edges {
					c, ok := fl.Edges[i].(*ssa.Const)
					if !ok || c.Value == nil || c.Value.ExactString() != "false" {
						allFalse = false
					}
				}
				if allFalse && facts.Has("true", ssau.Path(fl), "") {
					by = "evaluated only where a flag that is false on the decoded-length paths is true"
				}
			}
			// (b) the decoded-length edges require a type code that the facts here exclude
			if by == "" {
				excluded := true
				for _, i := range en.edges {
					edgeOK := false
					for f := range ff.OnPhiEdge(en.ph, i) {
						if f.Kind != "eq" || !strings.HasPrefix(f.Arg, "k:") {
							continue
						}
						for g := range facts {
							if g.Path == f.Path && ((g.Kind == "eq" && g.Arg != f.Arg && strings.HasPrefix(g.Arg, "k:")) || (g.Kind == "ne" && g.Arg == f.Arg)) {
								edgeOK = true
							}
						}
					}
					if !edgeOK {
						excluded = false
					}
				}
				if excluded {
					by = "the type code required on the decoded-length paths is excluded here"
				}
			}
			if by != "" {
				r.OK(p.FuncName(fn), instrPos(p, bo), what, by)
			} else {
				r.Bad(p.FuncName(fn), instrPos(p, bo), what, sprintf("the variable may hold a length read by readVarUintLen here, and a real length of %d is taken for the nibble code (%s)", k, map[int64]string{14: "a second length field is read", 15: "the value becomes a null"}[k]))
			}
		}
	}
	if n < 2 {
		missing(r, "comparisons of the length with 14/15 in bitstream.Next", sprintf("found %d reached by a decoded length, expected 2", n))
	}
	return r
}

// OrdDecNegZero implements ORD-DECNEGZERO: the negative-zero flag of a binary
// decimal comes from the coefficient's sign bit.
func OrdDecNegZero(p *load.Program) *report.RuleResult {
	r := newResult("ORD-DECNEGZERO", "in bitstream.readDecimal the negative-zero argument handed to NewDecimal is true only where the sign bit reported by readBigInt is set (a coefficient of 0x00 is plain zero, 0x80 is negative zero)", 1)
	fn := p.Func(nil, "bitstream.readDecimal")
	if fn == nil {
		missing(r, "bitstream.readDecimal", "not found")
		return r
	}
	var signPath string
	for _, b := range fn.Blocks {
		for _, in := range b.Instrs {
			if c, ok := in.(*ssa.Call); ok && c.Call.StaticCallee() != nil && c.Call.StaticCallee().Name() == "readBigInt" {
				// the sign is the boolean result, whichever position it has
				rs := c.Call.StaticCallee().Signature.Results()
				for ri := 0; ri < rs.Len(); ri++ {
					if basicKind(rs.At(ri).Type()) == 1 {
						signPath = sprintf("%s#%d", ssau.Path(c), ri)
					}
				}
			}
		}
	}
	ff := ssau.ComputeFacts(fn, ssau.StoreKills)
	n := 0
	for _, b := range fn.Blocks {
		for _, in := range b.Instrs {
			c, ok := in.(*ssa.Call)
			if !ok || c.Call.StaticCallee() == nil || c.Call.StaticCallee().Name() != "NewDecimal" || len(c.Call.Args) < 3 {
				continue
			}
			n++
			what := "negative-zero argument of NewDecimal"
			if signPath == "" {
				r.Bad(p.FuncName(fn), instrPos(p, c), what, "readBigInt does not report the sign bit, so a zero coefficient cannot be told from negative zero")
				continue
			}
			ok2 := true
			var check func(v ssa.Value, fs ssau.FactSet, depth int)
			check = func(v ssa.Value, fs ssau.FactSet, depth int) {
				if depth > 4 {
					ok2 = false
					return
				}
				switch x := v.(type) {
				case *ssa.Const:
					if x.Value != nil && x.Value.ExactString() == "true" {
						ok2 = false
					}
				case *ssa.Phi:
					for i, e := range x.Edges {
						check(e, ff.OnPhiEdge(x, i), depth+1)
					}
				default:
					if !fs.Has("true", signPath, "") && ssau.Path(v) != signPath {
						ok2 = false
					}
				}
			}
			check(c.Call.Args[2], ff.At(c), 0)
			if ok2 {
				r.OK(p.FuncName(fn), instrPos(p, c), what, "can be true only where readBigInt reported the sign bit")
			} else {
				r.Bad(p.FuncName(fn), instrPos(p, c), what, "the flag can be true without the sign bit being set: 52 80 00 (coefficient 0x00) decodes as -0.")
			}
		}
	}
	if n == 0 {
		missing(r, "NewDecimal call in readDecimal", "not found")
	}
	return r
}
