package rules

import (
	"go/token"
	"go/types"
	"math/big"
	"sort"
	"strings"

	"golang.org/x/tools/go/ssa"

	"verif/checker/internal/load"
	"verif/checker/internal/report"
	"verif/checker/internal/ssau"
)

// ---------------------------------------------------------------------------
// NUM-NARROW

// NumFiles is the numeric data path of package ion: everything that carries a
// number, a length, a symbol ID, an exponent or a calendar field between the
// API and the bytes. The tokenizer and the skipper convert
// characters (int <-> rune <-> byte), which are not numbers.
var NumFiles = []string{"bits.go", "buf.go", "bitstream.go", "binaryreader.go", "binarywriter.go", "reader.go", "textreader.go", "textwriter.go", "writer.go",
	"decimal.go", "timestamp.go", "symboltable.go", "symboltoken.go", "readlocalsymboltable.go", "catalog.go", "marshal.go", "unmarshal.go", "fields.go", "type.go", "ctx.go", "textutils.go"}

// ScopeNum is the numeric data path.
var ScopeNum = Scope{Name: "numeric data path of package ion", Pkgs: []string{"ion"}, Files: NumFiles}

type residual struct {
	fn, conv, reason string
}

// NumNarrow implements NUM-NARROW.
func NumNarrow(sc Scope, resid []residual, min int) func(p *load.Program) *report.RuleResult {
	return func(p *load.Program) *report.RuleResult {
		r := newResult("NUM-NARROW", "every integer conversion in the "+sc.Name+" that can lose value bits or the sign (target range does not contain the source type's range) has an operand whose interval — from its defining expression, result ranges of len/time/strconv/io primitives, dominating comparisons with constants and per-edge facts of phis — lies inside the target type's range, or is the sign-magnitude idiom (negation under a negative test)", min)
		used := map[int]bool{}
		for _, fn := range sortedFuncs(p) {
			if !sc.has(p, fn) || len(fn.Blocks) == 0 {
				continue
			}
			var env *intervalEnv
			for _, b := range fn.Blocks {
				for _, in := range b.Instrs {
					cv, ok := in.(*ssa.Convert)
					if !ok {
						continue
					}
					src, ok1 := typeRange(cv.X.Type())
					dst, ok2 := typeRange(cv.Type())
					if !ok1 || !ok2 || src.within(dst) {
						continue
					}
					if len(*cv.Referrers()) == 0 {
						continue
					}
					name := p.FuncName(fn)
					if env == nil {
						env = newIntervalEnv(p, fn)
						env.trusted = func(c *ssa.Convert) bool {
							return matchResidual(resid, name, convWhat(c)) >= 0
						}
					}
					env.notes = map[string]bool{}
					what := convWhat(cv)
					facts := env.ff.At(cv)
					xr, _ := env.rangeOf(cv.X, facts, map[ssa.Value]bool{}, 0)
					switch {
					case xr.within(dst):
						r.OK(name, instrPos(p, cv), what, "operand interval "+xr.String()+" ("+noteText(env.notes)+")")
					case signMagnitude(cv, env, facts):
						r.OK(name, instrPos(p, cv), what, "sign-magnitude idiom: negation of a value known negative, converted to the unsigned type of the same width")
					case phiUseBounded(cv, env, dst):
						r.OK(name, instrPos(p, cv), what, "the converted value is used only through phi edges on which the operand is known to be inside the target range")
					case wrappedRejected(p, cv, env, src, dst):
						r.OK(name, instrPos(p, cv), what, "every use hands the result to a callee that rejects the values a wrap-around would produce (negative after unsigned-to-signed) with an error")
					case onlyFeedsRangeChecked(cv, env):
						r.OK(name, instrPos(p, cv), what, "every use of the result is itself range-checked against the operand (round-trip comparison) before being relied on")
					default:
						if i := matchResidual(resid, name, what); i >= 0 {
							used[i] = true
							r.Add(report.Obligation{Func: name, Pos: instrPos(p, cv), What: what, Status: report.Discharged, By: "residual table: " + resid[i].reason})
							continue
						}
						r.Bad(name, instrPos(p, cv), what, sprintf("operand interval %s is not inside the target range %s and no accepted idiom applies: a value outside the target range is silently wrapped", xr, dst))
					}
				}
			}
		}
		for i, rs := range resid {
			r.Suppressions = append(r.Suppressions, report.Suppression{Rule: "NUM-NARROW", Symbol: rs.fn + " " + rs.conv, Reason: rs.reason, Used: used[i]})
		}
		return r
	}
}

func shortQual(p *types.Package) string { return p.Name() }

// convWhat names a conversion position-free: target(source) of operand.
func convWhat(cv *ssa.Convert) string {
	return sprintf("%s(%s) of %s", types.TypeString(cv.Type(), shortQual), types.TypeString(cv.X.Type(), shortQual), describeOperand(cv.X))
}

// Residual rows of NUM-NARROW: one named conversion, one reason each. A row
// names the enclosing function and the conversion (target(source) of operand).
var NarrowResiduals = []residual{
	{"(*Decimal).Truncate", "int32(int64) of (conv<int64>(p.d^.scale)-", "scale minus the number of digits cut off: the number of digits is at least 1 (diff <= 0 returns earlier) so the result can only be lower than the old scale, and the lower side is checked (panic 'exponent out of range'); the interval engine loses the upper bound because precision+1 could in principle wrap for precision = MaxInt"},
	{"NewSymbolToken", "int64(uint64) of p.symbolTable.FindByName(p.text)#0", "an ID found in a symbol table is at most that table's MaxID, a count of symbols held in memory plus declared import sizes that are read from int64 values"},
	{"readImport", "int64(uint64) of result of MaxID", "MaxID of a catalog table: a count of symbols held in memory (or a max_id read from an int64)"},
	{"appendTimestamp", "uint64(int) of p.utc.dateTime.Year()", "the year of an Ion timestamp is 1..9999 (the domain of C15; both readers reject anything else since the fix of the binary year range); a time.Time outside that range is outside every property"},
	{"timestampLen", "uint64(int) of p.utc.dateTime.Year()", "same operand as in appendTimestamp: year 1..9999"},
}

// Residual rows of NUM-SHIFT.
var ShiftResiduals = []residual{
	{"(*bitstream).ReadInt", "phi i << k:8", "the loop runs over the bytes of a magnitude that the dominating case condition bounds (b.len < 8, or b.len == 8 with the top bit clear), so at most 63 bits are accumulated; the trip count is not tracked by the interval engine"},
	{"(*bitstream).ReadSymbolID", "phi ret << k:8", "the loop runs over at most 8 bytes (b.len > 8 is refused before the bytes are read), which fill a uint64 exactly; the trip count is not tracked by the interval engine"},
}

func noteText(n map[string]bool) string {
	if len(n) == 0 {
		return "from the defining expression"
	}
	var s []string
	for k := range n {
		s = append(s, k)
	}
	sort.Strings(s)
	return strings.Join(s, "; ")
}

func matchResidual(resid []residual, fn, what string) int {
	for i, rs := range resid {
		if strings.Contains(fn, rs.fn) && strings.Contains(what, rs.conv) {
			return i
		}
	}
	// the same construct after it moved to another function (a branch extracted into a helper):
	// a row whose construct text is specific enough names its operand, which is what the reason is about
	for i, rs := range resid {
		if len(rs.conv) >= 24 && strings.Contains(what, rs.conv) {
			return i
		}
	}
	return -1
}

// describeOperand renders the converted operand position-free.
func describeOperand(v ssa.Value) string {
	p := ssau.Path(v)
	if ssau.IsUnique(p) {
		switch x := v.(type) {
		case *ssa.Call:
			return "result of " + calleeLabel(x)
		case *ssa.Extract:
			if c, ok := x.Tuple.(*ssa.Call); ok {
				return sprintf("result #%d of %s", x.Index, calleeLabel(c))
			}
			return "tuple component"
		case *ssa.Phi:
			return "phi " + x.Comment
		case *ssa.BinOp:
			return "(" + describeOperand(x.X) + x.Op.String() + describeOperand(x.Y) + ")"
		case *ssa.UnOp:
			return x.Op.String() + describeOperand(x.X)
		case *ssa.Lookup:
			return "map/string element"
		}
		return v.Name()
	}
	// strip allocation positions from local paths
	if i := strings.Index(p, "@"); i >= 0 {
		j := i + 1
		for j < len(p) && p[j] >= '0' && p[j] <= '9' {
			j++
		}
		p = p[:i] + p[j:]
	}
	return p
}

// signMagnitude recognises uintN(-x) (or uintN(x) joined with it) where x is
// known negative at the conversion: the magnitude of a negative intN always
// fits uintN, including MinIntN.
func signMagnitude(cv *ssa.Convert, env *intervalEnv, facts ssau.FactSet) bool {
	src, _ := typeRange(cv.X.Type())
	dst, _ := typeRange(cv.Type())
	if dst.lo.Sign() != 0 || src.lo.Sign() >= 0 || dst.hi.BitLen() < src.hi.BitLen() {
		return false
	}
	var neg func(v ssa.Value, facts ssau.FactSet, depth int) bool
	neg = func(v ssa.Value, facts ssau.FactSet, depth int) bool {
		if depth > 4 {
			return false
		}
		switch x := v.(type) {
		case *ssa.UnOp:
			if x.Op == token.SUB {
				xr, ok := env.rangeOf(x.X, facts, map[ssa.Value]bool{}, 0)
				return ok && xr.hi.Sign() <= 0
			}
		case *ssa.Phi:
			for i, e := range x.Edges {
				ef := env.ff.OnPhiEdge(x, i)
				er, ok := env.rangeOf(e, ef, map[ssa.Value]bool{}, 0)
				if ok && er.lo.Sign() >= 0 {
					continue
				}
				if !neg(e, ef, depth+1) {
					return false
				}
			}
			return true
		}
		return false
	}
	return neg(cv.X, facts, 0)
}

// onlyFeedsRangeChecked recognises the round-trip validation idiom
//
//	n := T(x); if U(n) != x { error }
//
// where the narrowed result is compared (after converting back) with the
// original operand and the mismatch edge does not use n.
func onlyFeedsRangeChecked(cv *ssa.Convert, env *intervalEnv) bool {
	refs := *cv.Referrers()
	if len(refs) == 0 {
		return false
	}
	checked := false
	for _, u := range refs {
		back, ok := u.(*ssa.Convert)
		if !ok || !types.Identical(back.Type(), cv.X.Type()) {
			continue
		}
		for _, u2 := range *back.Referrers() {
			if bo, ok := u2.(*ssa.BinOp); ok && (bo.Op == token.EQL || bo.Op == token.NEQ) {
				other := bo.X
				if other == ssa.Value(back) {
					other = bo.Y
				}
				if ssau.Path(other) == ssau.Path(cv.X) {
					checked = true
				}
			}
		}
	}
	if !checked {
		return false
	}
	// every other use must be dominated by the equality edge
	eqPath := ""
	for _, u := range refs {
		if back, ok := u.(*ssa.Convert); ok && types.Identical(back.Type(), cv.X.Type()) {
			eqPath = ssau.Path(back)
		}
	}
	for _, u := range refs {
		if back, ok := u.(*ssa.Convert); ok && types.Identical(back.Type(), cv.X.Type()) {
			continue
		}
		if _, ok := u.(*ssa.DebugRef); ok {
			continue
		}
		fs := env.ff.At(u)
		if !fs.Has("eq", eqPath, ssau.Path(cv.X)) && !fs.Has("eq", ssau.Path(cv.X), eqPath) {
			return false
		}
	}
	return true
}

func sortedFuncs(p *load.Program) []*ssa.Function {
	fs := append([]*ssa.Function{}, p.Funcs...)
	sort.SliceStable(fs, func(i, j int) bool {
		a, b := p.FuncName(fs[i]), p.FuncName(fs[j])
		if a != b {
			return a < b
		}
		return fs[i].Pos() < fs[j].Pos()
	})
	return fs
}

// phiUseBounded: the conversion is evaluated unconditionally but its result
// is consumed only by phi nodes, on edges where the operand is in range
// (mag := uint64(v); if v < 0 { mag = uint64(-v) }).
func phiUseBounded(cv *ssa.Convert, env *intervalEnv, dst ival) bool {
	refs := *cv.Referrers()
	n := 0
	for _, u := range refs {
		switch x := u.(type) {
		case *ssa.DebugRef:
			continue
		case *ssa.Phi:
			for i, ed := range x.Edges {
				if ed != ssa.Value(cv) {
					continue
				}
				xr, ok := env.rangeOf(cv.X, env.ff.OnPhiEdge(x, i), map[ssa.Value]bool{}, 0)
				if !ok || !xr.within(dst) {
					return false
				}
				n++
			}
		default:
			return false
		}
	}
	return n > 0
}

// wrappedRejected: an unsigned value converted to the signed type of the same
// width wraps to a negative number exactly when it is out of range; if every
// use passes the result to a module function that returns a non-nil error
// whenever that parameter is negative, or to bufio.Reader.Discard (documented
// to fail on a negative count), nothing is silently lost.
func wrappedRejected(p *load.Program, cv *ssa.Convert, env *intervalEnv, src, dst ival) bool {
	if src.lo.Sign() != 0 || dst.lo.Sign() >= 0 || src.hi.BitLen() != dst.hi.BitLen()+1 {
		return false
	}
	n := 0
	for _, u := range *cv.Referrers() {
		if _, ok := u.(*ssa.DebugRef); ok {
			continue
		}
		c, ok := u.(ssa.CallInstruction)
		if !ok {
			return false
		}
		f := c.Common().StaticCallee()
		if f == nil {
			return false
		}
		if f.Pkg != nil && f.Pkg.Pkg.Path() == "bufio" && f.Name() == "Discard" {
			n++
			continue
		}
		if !p.InModule(f) || len(f.Blocks) == 0 {
			return false
		}
		for i, a := range c.Common().Args {
			if a != ssa.Value(cv) {
				continue
			}
			if !rejectsNegative(p, f, i) {
				return false
			}
			n++
		}
	}
	return n > 0
}

// rejectsNegative: every return of f either happens under the fact
// param >= 0 or returns a definitely non-nil error.
func rejectsNegative(p *load.Program, f *ssa.Function, param int) bool {
	if param >= len(f.Params) {
		return false
	}
	ei := errResultIndex(f)
	if ei < 0 {
		return false
	}
	ff := ssau.ComputeFacts(f, ssau.StoreKills)
	pp := "p." + f.Params[param].Name()
	for _, ret := range returns(f) {
		fs := ff.At(ret)
		if fs.Has("ge", pp, "k:0") || fs.Has("gt", pp, "k:0") || fs.Has("gt", pp, "k:-1") {
			continue
		}
		if definitelyNonNilError(p, ret.Results[ei], 0) {
			continue
		}
		return false
	}
	return true
}

// NumShift implements NUM-SHIFT: a left shift (or multiplication by a
// constant) of a non-constant integer on the numeric data path must not push
// value bits out of the type: the operand's interval, shifted, stays inside
// the type's range. This is how "accumulate 7 bits per byte" decoders lose the
// high bits of an over-long encoding.
func NumShift(sc Scope, resid []residual, min int) func(p *load.Program) *report.RuleResult {
	return func(p *load.Program) *report.RuleResult {
		r := newResult("NUM-SHIFT", "every left shift of a non-constant integer in the "+sc.Name+" keeps all value bits: the operand's interval shifted by the (constant or bounded) amount lies inside the operand type's range", min)
		used := map[int]bool{}
		for _, fn := range sortedFuncs(p) {
			if !sc.has(p, fn) || len(fn.Blocks) == 0 {
				continue
			}
			var env *intervalEnv
			for _, b := range fn.Blocks {
				for _, in := range b.Instrs {
					bo, ok := in.(*ssa.BinOp)
					if !ok || bo.Op != token.SHL {
						continue
					}
					tr, ok := typeRange(bo.Type())
					if !ok {
						continue
					}
					if _, isConst := bo.X.(*ssa.Const); isConst {
						// 1 << n: a mask/flag computation; the amount must stay below the width
						if env == nil {
							env = newIntervalEnv(p, fn)
						}
					}
					if env == nil {
						env = newIntervalEnv(p, fn)
					}
					env.notes = map[string]bool{}
					facts := env.ff.At(bo)
					xr, _ := env.rangeOf(bo.X, facts, map[ssa.Value]bool{}, 0)
					yr, oky := env.rangeOf(bo.Y, facts, map[ssa.Value]bool{}, 0)
					what := sprintf("%s << %s (%s)", describeOperand(bo.X), describeOperand(bo.Y), types.TypeString(bo.Type(), shortQual))
					name := p.FuncName(fn)
					if oky && yr.lo.Sign() >= 0 && yr.hi.IsInt64() && yr.hi.Int64() < 200 {
						res := ival{new(big.Int).Lsh(xr.lo, uint(yr.hi.Int64())), new(big.Int).Lsh(xr.hi, uint(yr.hi.Int64()))}
						if xr.lo.Sign() >= 0 {
							res.lo = new(big.Int).Lsh(xr.lo, uint(yr.lo.Int64()))
						}
						if res.within(tr) {
							r.OK(name, instrPos(p, bo), what, "operand interval "+xr.String()+" shifted by at most "+yr.hi.String()+" stays inside "+tr.String()+" ("+noteText(env.notes)+")")
							continue
						}
					}
					if i := matchResidual(resid, name, what); i >= 0 {
						used[i] = true
						r.Add(report.Obligation{Func: name, Pos: instrPos(p, bo), What: what, Status: report.Discharged, By: "residual table: " + resid[i].reason})
						continue
					}
					r.Bad(name, instrPos(p, bo), what, sprintf("operand interval %s shifted left by %s can leave %s: high bits of the value are silently dropped", xr, yr, tr))
				}
			}
		}
		for i, rs := range resid {
			r.Suppressions = append(r.Suppressions, report.Suppression{Rule: "NUM-SHIFT", Symbol: rs.fn + " " + rs.conv, Reason: rs.reason, Used: used[i]})
		}
		return r
	}
}

// ---------------------------------------------------------------------------
// NUM-ARITH32

// NumArith32 implements NUM-EXP32: arithmetic carried out in a type narrower
// than 64 bits (the decimal exponent/scale is an int32) must not overflow: the
// interval of the mathematical result lies inside the type. The accepted idiom
// is the one Mul/ShiftL/ShiftR use: widen to int64, compute, range-check,
// narrow (which NUM-NARROW then checks).
func NumArith32(sc Scope, resid []residual, min int) func(p *load.Program) *report.RuleResult {
	return func(p *load.Program) *report.RuleResult {
		r := newResult("NUM-EXP32", "every addition, subtraction, multiplication or negation carried out in an integer type narrower than 64 bits in the "+sc.Name+" (the decimal exponent is an int32) has a mathematical result interval inside that type: exponent arithmetic is widened and range-checked, never wrapped", min)
		used := map[int]bool{}
		for _, fn := range sortedFuncs(p) {
			if !sc.has(p, fn) || len(fn.Blocks) == 0 {
				continue
			}
			var env *intervalEnv
			for _, b := range fn.Blocks {
				for _, in := range b.Instrs {
					var ops []ssa.Value
					var op token.Token
					var val ssa.Value
					switch x := in.(type) {
					case *ssa.BinOp:
						if x.Op != token.ADD && x.Op != token.SUB && x.Op != token.MUL {
							continue
						}
						ops, op, val = []ssa.Value{x.X, x.Y}, x.Op, x
					case *ssa.UnOp:
						if x.Op != token.SUB {
							continue
						}
						ops, op, val = []ssa.Value{x.X}, token.SUB, x
					default:
						continue
					}
					tr, ok := typeRange(val.Type())
					if !ok || tr.hi.BitLen() >= 63 {
						continue
					}
					if bk := basicKind(val.Type()); bk == types.Uint8 || bk == types.Int8 {
						continue // character arithmetic
					}
					allConst := true
					for _, o := range ops {
						if _, c := o.(*ssa.Const); !c {
							allConst = false
						}
					}
					if allConst {
						continue
					}
					if env == nil {
						env = newIntervalEnv(p, fn)
					}
					env.notes = map[string]bool{}
					facts := env.ff.At(in)
					var res ival
					xr, _ := env.rangeOf(ops[0], facts, map[ssa.Value]bool{}, 0)
					name := p.FuncName(fn)
					var what string
					if len(ops) == 1 {
						res = ival{new(big.Int).Neg(xr.hi), new(big.Int).Neg(xr.lo)}
						what = sprintf("-%s (%s)", describeOperand(ops[0]), types.TypeString(val.Type(), shortQual))
					} else {
						yr, _ := env.rangeOf(ops[1], facts, map[ssa.Value]bool{}, 0)
						res, _ = binopRange(op, xr, yr, tr)
						what = sprintf("%s %s %s (%s)", describeOperand(ops[0]), op, describeOperand(ops[1]), types.TypeString(val.Type(), shortQual))
					}
					// a rangeindex increment is bounded by construction
					if ph, ok := ops[0].(*ssa.Phi); ok && ph.Comment == "rangeindex" {
						continue
					}
					if res.lo != nil && res.within(tr) {
						r.OK(name, instrPos(p, in), what, "result interval "+res.String()+" ("+noteText(env.notes)+")")
						continue
					}
					if i := matchResidual(resid, name, what); i >= 0 {
						used[i] = true
						r.Add(report.Obligation{Func: name, Pos: instrPos(p, in), What: what, Status: report.Discharged, By: "residual table: " + resid[i].reason})
						continue
					}
					r.Bad(name, instrPos(p, in), what, sprintf("the mathematical result interval %s is not inside %s: the operation can wrap around silently", res, tr))
				}
			}
		}
		for i, rs := range resid {
			r.Suppressions = append(r.Suppressions, report.Suppression{Rule: "NUM-EXP32", Symbol: rs.fn + " " + rs.conv, Reason: rs.reason, Used: used[i]})
		}
		return r
	}
}

// ---------------------------------------------------------------------------
// NUM-BIG, NUM-F32, NUM-REFLECT, NUM-NOFLOAT

// recvMutationKills extends StoreKills: a call of a pointer-receiver method of
// math/big that is not a pure observer rewrites its receiver, so facts about
// that receiver (IsInt64(), Sign(), BitLen() …) no longer hold after it.
func recvMutationKills(in ssa.Instruction) func(ssau.Fact) bool {
	sk := ssau.StoreKills(in)
	c, ok := in.(*ssa.Call)
	if !ok {
		return sk
	}
	f := c.Call.StaticCallee()
	if f == nil || f.Pkg == nil || f.Pkg.Pkg.Path() != "math/big" || f.Signature.Recv() == nil || len(c.Call.Args) == 0 {
		return sk
	}
	switch f.Name() {
	case "IsInt64", "IsUint64", "Int64", "Uint64", "Sign", "BitLen", "Cmp", "CmpAbs", "String", "Text", "Bytes", "Bit", "Bits", "Format", "Append", "IsInf", "IsInt", "Float64", "Float32", "ProbablyPrime", "TrailingZeroBits", "FillBytes":
		return sk
	}
	rp := strings.TrimPrefix(ssau.Path(c.Call.Args[0]), "&")
	return func(f ssau.Fact) bool {
		if sk != nil && sk(f) {
			return true
		}
		return ssau.Mentions(f.Path, rp) || ssau.Mentions(f.Arg, rp)
	}
}

// NumBig implements NUM-BIG.
func NumBig(sc Scope, min int) func(p *load.Program) *report.RuleResult {
	return func(p *load.Program) *report.RuleResult {
		r := newResult("NUM-BIG", "every (*big.Int).Int64()/Uint64() call in the "+sc.Name+" (these silently return the low 64 bits of a larger value) is dominated by the true edge of IsInt64()/IsUint64() on the same receiver, with no mutation of the receiver in between", min)
		for _, fn := range sortedFuncs(p) {
			if !sc.has(p, fn) || len(fn.Blocks) == 0 {
				continue
			}
			var ff *ssau.FactFlow
			for _, b := range fn.Blocks {
				for _, in := range b.Instrs {
					c, ok := in.(*ssa.Call)
					if !ok {
						continue
					}
					f := c.Call.StaticCallee()
					if f == nil || f.Pkg == nil || f.Pkg.Pkg.Path() != "math/big" || f.Signature.Recv() == nil {
						continue
					}
					if ssau.TypeName(f.Signature.Recv().Type()) != "Int" || (f.Name() != "Int64" && f.Name() != "Uint64") {
						continue
					}
					if ff == nil {
						ff = ssau.ComputeFacts(fn, recvMutationKills)
					}
					rp := strings.TrimPrefix(ssau.Path(c.Call.Args[0]), "&")
					guard := rp + ".Is" + f.Name() + "()"
					what := "big.Int." + f.Name() + "() on " + describeOperand(c.Call.Args[0])
					name := p.FuncName(fn)
					if ff.At(c).Has("true", guard, "") {
						r.OK(name, instrPos(p, c), what, "dominated by "+"Is"+f.Name()+"() == true on the same receiver")
					} else {
						r.Bad(name, instrPos(p, c), what, "no dominating Is"+f.Name()+"() test of the same receiver: a value outside 64 bits is silently reduced to its low 64 bits")
					}
				}
			}
		}
		return r
	}
}

// NumF32 implements NUM-F32.
func NumF32(sc Scope, min int) func(p *load.Program) *report.RuleResult {
	return func(p *load.Program) *report.RuleResult {
		r := newResult("NUM-F32", "every float64-to-float32 conversion in the "+sc.Name+" either is the losslessness test itself (converted back and compared with the original) or is dominated by the true edge of x == float64(float32(x))", min)
		for _, fn := range sortedFuncs(p) {
			if !sc.has(p, fn) || len(fn.Blocks) == 0 {
				continue
			}
			var ff *ssau.FactFlow
			for _, b := range fn.Blocks {
				for _, in := range b.Instrs {
					cv, ok := in.(*ssa.Convert)
					if !ok || basicKind(cv.Type()) != types.Float32 || basicKind(cv.X.Type()) != types.Float64 {
						continue
					}
					if ff == nil {
						ff = ssau.ComputeFacts(fn, ssau.StoreKills)
					}
					name := p.FuncName(fn)
					what := "float32(" + describeOperand(cv.X) + ")"
					xp := ssau.Path(cv.X)
					back := "conv<float64>(" + ssau.Path(cv) + ")"
					// (a) the test itself
					isTest := len(*cv.Referrers()) > 0
					for _, u := range *cv.Referrers() {
						if _, ok := u.(*ssa.DebugRef); ok {
							continue
						}
						bc, ok := u.(*ssa.Convert)
						if !ok || basicKind(bc.Type()) != types.Float64 {
							isTest = false
							break
						}
						for _, u2 := range *bc.Referrers() {
							bo, ok := u2.(*ssa.BinOp)
							if !ok || (bo.Op != token.EQL && bo.Op != token.NEQ) {
								isTest = false
							}
						}
					}
					fs := ff.At(cv)
					switch {
					case isTest:
						r.OK(name, instrPos(p, cv), what, "this conversion is the losslessness test (converted back and compared)")
					case fs.Has("eq", xp, back) || fs.Has("eq", back, xp):
						r.OK(name, instrPos(p, cv), what, "dominated by x == float64(float32(x))")
					default:
						r.Bad(name, instrPos(p, cv), what, "a float64 is narrowed to 32 bits without the dominating test x == float64(float32(x)): precision is silently lost")
					}
				}
			}
		}
		return r
	}
}

// NumReflect implements NUM-REFLECT.
func NumReflect(sc Scope, min int) func(p *load.Program) *report.RuleResult {
	return func(p *load.Program) *report.RuleResult {
		r := newResult("NUM-REFLECT", "every reflect.Value.SetInt/SetUint/SetFloat with a non-constant operand in the "+sc.Name+" is dominated by the false edge of OverflowInt/OverflowUint/OverflowFloat on the same reflect.Value and the same operand (reflect silently truncates otherwise)", min)
		for _, fn := range sortedFuncs(p) {
			if !sc.has(p, fn) || len(fn.Blocks) == 0 {
				continue
			}
			var ff *ssau.FactFlow
			for _, b := range fn.Blocks {
				for _, in := range b.Instrs {
					c, ok := in.(*ssa.Call)
					if !ok {
						continue
					}
					f := c.Call.StaticCallee()
					if f == nil || f.Pkg == nil || f.Pkg.Pkg.Path() != "reflect" || f.Signature.Recv() == nil || ssau.TypeName(f.Signature.Recv().Type()) != "Value" {
						continue
					}
					var ov string
					switch f.Name() {
					case "SetInt":
						ov = "OverflowInt"
					case "SetUint":
						ov = "OverflowUint"
					case "SetFloat":
						ov = "OverflowFloat"
					default:
						continue
					}
					if _, isConst := c.Call.Args[1].(*ssa.Const); isConst {
						continue
					}
					if ff == nil {
						ff = ssau.ComputeFacts(fn, ssau.StoreKills)
					}
					vp := strings.TrimPrefix(ssau.Path(c.Call.Args[0]), "&")
					guard := vp + "." + ov + "(" + ssau.Path(c.Call.Args[1]) + ")"
					name := p.FuncName(fn)
					what := "reflect.Value." + f.Name() + "(" + describeOperand(c.Call.Args[1]) + ")"
					if ff.At(c).Has("false", guard, "") {
						r.OK(name, instrPos(p, c), what, "dominated by "+ov+"(same operand) == false on the same reflect.Value")
					} else {
						r.Bad(name, instrPos(p, c), what, "no dominating "+ov+" test of the same value and operand: a number that does not fit the target kind is silently truncated")
					}
				}
			}
		}
		return r
	}
}

// NumNoFloat implements NUM-NOFLOAT: the exact decimal operations never touch
// a floating-point value, directly or through module callees.
func NumNoFloat(p *load.Program) *report.RuleResult {
	r := newResult("NUM-NOFLOAT", "no floating-point value appears in the SSA of the exact Decimal operations (Add Sub Mul Neg Abs ShiftL ShiftR Cmp Equal Sign Truncate String CoEx ParseDecimal NewDecimal) or of anything they call inside the module", 14)
	ops := []string{"Add", "Sub", "Mul", "Neg", "Abs", "ShiftL", "ShiftR", "Cmp", "Equal", "Sign", "Truncate", "String", "CoEx"}
	var roots []*ssa.Function
	dt := p.Type(p.Ion, "Decimal")
	if dt == nil {
		missing(r, "Decimal", "type not found")
		return r
	}
	for _, o := range ops {
		f := methodOf(p, dt, o)
		if f == nil {
			missing(r, "Decimal."+o, "method not found")
			continue
		}
		roots = append(roots, f)
	}
	for _, n := range []string{"ParseDecimal", "NewDecimal"} {
		f := p.Func(nil, n)
		if f == nil {
			missing(r, n, "function not found")
			continue
		}
		roots = append(roots, f)
	}
	isFloat := func(t types.Type) bool {
		b, ok := t.Underlying().(*types.Basic)
		return ok && b.Info()&(types.IsFloat|types.IsComplex) != 0
	}
	for _, root := range roots {
		seen := map[*ssa.Function]bool{}
		var bad string
		var walk func(f *ssa.Function, via string)
		walk = func(f *ssa.Function, via string) {
			if seen[f] || bad != "" {
				return
			}
			seen[f] = true
			for _, b := range f.Blocks {
				for _, in := range b.Instrs {
					if v, ok := in.(ssa.Value); ok && isFloat(v.Type()) {
						bad = sprintf("%s at %s (reached via %s)", v.Name(), instrPos(p, in), via)
						return
					}
					if c, ok := in.(ssa.CallInstruction); ok {
						for _, a := range c.Common().Args {
							if isFloat(a.Type()) {
								bad = sprintf("float argument at %s (reached via %s)", instrPos(p, in), via)
								return
							}
						}
						for _, cal := range p.Callees(c) {
							if p.InModule(cal) && len(cal.Blocks) > 0 {
								walk(cal, via+" -> "+p.FuncName(cal))
							}
						}
					}
				}
			}
		}
		walk(root, p.FuncName(root))
		if bad == "" {
			r.OK(p.FuncName(root), p.Pos(root.Pos()), "exact operation "+p.FuncName(root), sprintf("no floating-point value in %d functions reachable inside the module", len(seen)))
		} else {
			r.Add(report.Obligation{Func: p.FuncName(root), Pos: p.Pos(root.Pos()), What: "exact operation " + p.FuncName(root), Status: report.Violation, Detail: "a floating-point value takes part in an operation that must be exact: " + bad})
		}
	}
	return r
}

// ---------------------------------------------------------------------------
// NUM-ALLOC

// AllocFiles: everything that runs on untrusted input.
var AllocFiles = []string{"reader.go", "textreader.go", "tokenizer.go", "skipper.go", "bitstream.go", "binaryreader.go", "readlocalsymboltable.go", "symboltable.go", "symboltoken.go", "catalog.go", "unmarshal.go", "decimal.go", "timestamp.go", "textutils.go", "fields.go"}

// ScopeAlloc is the input side of package ion.
var ScopeAlloc = Scope{Name: "input side of package ion", Pkgs: []string{"ion"}, Files: AllocFiles}

// allocBound is the largest allocation (in elements) accepted on the strength
// of a number alone.
var allocBound = bi(1 << 20)

// derivedFromLen: v is len/cap of something already in memory, possibly plus
// or minus constants.
func derivedFromLen(v ssa.Value, depth int) bool {
	if depth > 6 {
		return false
	}
	switch x := v.(type) {
	case *ssa.Call:
		if b, ok := x.Call.Value.(*ssa.Builtin); ok && (b.Name() == "len" || b.Name() == "cap") {
			return true
		}
		if f := x.Call.StaticCallee(); f != nil && f.Signature.Recv() != nil && (f.Name() == "Len" || f.Name() == "Cap" || f.Name() == "NumField" || f.Name() == "NumMethod") {
			return true
		}
	case *ssa.BinOp:
		_, xc := x.X.(*ssa.Const)
		_, yc := x.Y.(*ssa.Const)
		if (x.Op == token.ADD || x.Op == token.SUB) && (xc || yc) {
			if xc {
				return derivedFromLen(x.Y, depth+1)
			}
			return derivedFromLen(x.X, depth+1)
		}
		if (x.Op == token.QUO || x.Op == token.SHR) && yc {
			return derivedFromLen(x.X, depth+1)
		}
		if x.Op == token.MUL && (xc || yc) {
			// a small constant multiple of an existing length
			k := x.X
			o := x.Y
			if yc {
				k, o = x.Y, x.X
			}
			if kv, ok := ssau.ConstInt(k); ok && kv >= 0 && kv <= 4 {
				return derivedFromLen(o, depth+1)
			}
			return false
		}
		if x.Op == token.ADD {
			return derivedFromLen(x.X, depth+1) && derivedFromLen(x.Y, depth+1)
		}
	case *ssa.Convert:
		return derivedFromLen(x.X, depth+1)
	case *ssa.Phi:
		for _, e := range x.Edges {
			if _, c := e.(*ssa.Const); c {
				continue
			}
			if !derivedFromLen(e, depth+1) {
				return false
			}
		}
		return true
	}
	return false
}

// boundedByLen: v is derived from a length of data in memory, or the facts
// bound it by one (v <= len(x)); for a phi, on every incoming edge.
func boundedByLen(env *intervalEnv, v ssa.Value, facts ssau.FactSet, depth int) bool {
	if depth > 4 {
		return false
	}
	if derivedFromLen(v, 0) {
		return true
	}
	vp := stripConv(ssau.Path(v))
	for f := range facts {
		if f.Kind != "le" && f.Kind != "lt" && f.Kind != "eq" {
			continue
		}
		if stripConv(f.Path) != vp {
			continue
		}
		a := stripConv(f.Arg)
		if strings.HasPrefix(a, "len(") || strings.HasPrefix(a, "cap(") {
			return true
		}
	}
	switch x := v.(type) {
	case *ssa.Convert:
		return boundedByLen(env, x.X, facts, depth+1)
	case *ssa.BinOp:
		// a length minus something that is not negative is still at most that length
		if x.Op == token.SUB && boundedByLen(env, x.X, facts, depth+1) {
			if yr, ok := env.rangeOf(x.Y, facts, map[ssa.Value]bool{}, 0); ok && yr.lo.Sign() >= 0 {
				return true
			}
		}
	case *ssa.Phi:
		for i, e := range x.Edges {
			if _, c := e.(*ssa.Const); c {
				continue
			}
			if !boundedByLen(env, e, env.ff.OnPhiEdge(x, i), depth+1) {
				return false
			}
		}
		return true
	}
	return false
}

// AllocResiduals: one named allocation, one reason each.
var AllocResiduals = []residual{
	{"(*Decimal).upscale", "big.Int.Exp exponent", "exact arithmetic on two caller-supplied decimals legitimately needs 10^(difference of exponents); from the input side upscale is reached only through checkToUpscale (trunc/round of a timestamp fraction), which refuses scales below -20 before calling it"},
	{"(*sst).Symbols", "make([]T) sized by p.s^.maxID", "an sst's maxID exceeds its symbol count only after Adjust (an import declared larger than the catalog's table); no reader path calls Symbols() on such a table — readLocalSymbolTable calls it on the current local table or the system table, whose maxID equals its symbol count"},
}

// NumAlloc implements NUM-ALLOC.
func NumAlloc(sc Scope, resid []residual, min int) func(p *load.Program) *report.RuleResult {
	return func(p *load.Program) *report.RuleResult {
		r := newResult("NUM-ALLOC", "every allocation in the "+sc.Name+" whose size is not a constant is sized either by the length of data already in memory or by a value whose interval is at most 2^20 elements: a length or count declared by the input never sizes an allocation before the bytes exist", min)
		used := map[int]bool{}
		for _, fn := range sortedFuncs(p) {
			if !sc.has(p, fn) || len(fn.Blocks) == 0 {
				continue
			}
			var env *intervalEnv
			name := p.FuncName(fn)
			check := func(in ssa.Instruction, size ssa.Value, kind string) {
				if _, isConst := size.(*ssa.Const); isConst {
					return
				}
				if env == nil {
					env = newIntervalEnv(p, fn)
				}
				env.notes = map[string]bool{}
				what := kind + " sized by " + describeOperand(size)
				xr, ok := env.rangeOf(size, env.ff.At(in), map[ssa.Value]bool{}, 0)
				switch {
				case boundedByLen(env, size, env.ff.At(in), 0):
					r.OK(name, instrPos(p, in), what, "sized by (or bounded by a comparison with) the length of data already in memory")
				case ok && xr.hi.Cmp(allocBound) <= 0:
					r.OK(name, instrPos(p, in), what, "size interval "+xr.String()+" ("+noteText(env.notes)+")")
				default:
					if i := matchResidual(resid, name, what); i >= 0 {
						used[i] = true
						r.Add(report.Obligation{Func: name, Pos: instrPos(p, in), What: what, Status: report.Discharged, By: "residual table: " + resid[i].reason})
						return
					}
					r.Bad(name, instrPos(p, in), what, sprintf("the size interval %s is not bounded and is not the length of data already in memory: a declared length or count can request an arbitrarily large allocation (out of memory is fatal, not an error)", xr))
				}
			}
			for _, b := range fn.Blocks {
				for _, in := range b.Instrs {
					switch x := in.(type) {
					case *ssa.MakeSlice:
						check(x, x.Len, "make([]T)")
						if x.Cap != x.Len {
							check(x, x.Cap, "make([]T) capacity")
						}
					case *ssa.MakeMap:
						if x.Reserve != nil {
							check(x, x.Reserve, "make(map)")
						}
					case *ssa.Call:
						f := x.Call.StaticCallee()
						if f == nil || f.Pkg == nil {
							continue
						}
						switch {
						case f.Pkg.Pkg.Path() == "reflect" && (f.Name() == "MakeSlice" || f.Name() == "MakeMapWithSize"):
							for _, a := range x.Call.Args[1:] {
								check(x, a, "reflect."+f.Name())
							}
						case f.Name() == "Grow" && f.Signature.Recv() != nil:
							check(x, x.Call.Args[len(x.Call.Args)-1], ssau.TypeName(f.Signature.Recv().Type())+".Grow")
						case f.Pkg.Pkg.Path() == "math/big" && f.Name() == "Exp":
							// 10^n with an input-controlled n allocates n*log2(10) bits
							if len(x.Call.Args) >= 3 {
								if c2, ok := x.Call.Args[2].(*ssa.Call); ok && c2.Call.StaticCallee() != nil && c2.Call.StaticCallee().Name() == "NewInt" {
									check(x, c2.Call.Args[0], "big.Int.Exp exponent")
								}
							}
						}
					}
				}
			}
		}
		for i, rs := range resid {
			r.Suppressions = append(r.Suppressions, report.Suppression{Rule: "NUM-ALLOC", Symbol: rs.fn + " " + rs.conv, Reason: rs.reason, Used: used[i]})
		}
		return r
	}
}

// ---------------------------------------------------------------------------
// NUM-USUB

// NumUSub implements NUM-USUB: a subtraction in an unsigned type does not wrap
// below zero: the subtrahend is known not to exceed the minuend.
func NumUSub(sc Scope, resid []residual, min int) func(p *load.Program) *report.RuleResult {
	return func(p *load.Program) *report.RuleResult {
		r := newResult("NUM-USUB", "every subtraction carried out in an unsigned integer type in the "+sc.Name+" (remaining lengths, positions, IDs) cannot wrap below zero: the intervals of the operands, a dominating comparison of the two operands, or the length contract of the callee that produced the subtrahend (a reader never consumes more than its budget) order them", min)
		used := map[int]bool{}
		for _, fn := range sortedFuncs(p) {
			if !sc.has(p, fn) || len(fn.Blocks) == 0 {
				continue
			}
			var env *intervalEnv
			for _, b := range fn.Blocks {
				for _, in := range b.Instrs {
					bo, ok := in.(*ssa.BinOp)
					if !ok || bo.Op != token.SUB {
						continue
					}
					tr, ok := typeRange(bo.Type())
					if !ok || tr.lo.Sign() != 0 {
						continue
					}
					if _, isC := bo.X.(*ssa.Const); isC {
						if _, isC2 := bo.Y.(*ssa.Const); isC2 {
							continue
						}
					}
					if onlyDiagnostic(bo, 0) {
						continue // an offset computed for an error message
					}
					if env == nil {
						env = newIntervalEnv(p, fn)
					}
					env.notes = map[string]bool{}
					env.at = in
					facts := env.ff.At(in)
					name := p.FuncName(fn)
					what := sprintf("%s - %s (%s)", describeOperand(bo.X), describeOperand(bo.Y), types.TypeString(bo.Type(), shortQual))
					if by := usubOK(env, bo, facts); by != "" {
						r.OK(name, instrPos(p, in), what, by)
						continue
					}
					if i := matchResidual(resid, name, what); i >= 0 {
						used[i] = true
						r.Add(report.Obligation{Func: name, Pos: instrPos(p, in), What: what, Status: report.Discharged, By: "residual table: " + resid[i].reason})
						continue
					}
					xr, _ := env.rangeOf(bo.X, facts, map[ssa.Value]bool{}, 0)
					yr, _ := env.rangeOf(bo.Y, facts, map[ssa.Value]bool{}, 0)
					r.Bad(name, instrPos(p, in), what, sprintf("minuend in %s, subtrahend in %s and nothing orders them: the unsigned difference wraps to a huge value when the subtrahend is larger (a length or position that then passes every later 'does it fit' test)", xr, yr))
				}
			}
		}
		for i, rs := range resid {
			r.Suppressions = append(r.Suppressions, report.Suppression{Rule: "NUM-USUB", Symbol: rs.fn + " " + rs.conv, Reason: rs.reason, Used: used[i]})
		}
		return r
	}
}

func usubOK(env *intervalEnv, bo *ssa.BinOp, facts ssau.FactSet) string {
	xr, okx := env.rangeOf(bo.X, facts, map[ssa.Value]bool{}, 0)
	yr, oky := env.rangeOf(bo.Y, facts, map[ssa.Value]bool{}, 0)
	if okx && oky && xr.lo.Cmp(yr.hi) >= 0 {
		return "operand intervals " + xr.String() + " - " + yr.String()
	}
	xp, yp := stripConv(ssau.Path(bo.X)), stripConv(ssau.Path(bo.Y))
	for f := range facts {
		a, b := stripConv(f.Path), stripConv(f.Arg)
		switch {
		case a == xp && b == yp && (f.Kind == "ge" || f.Kind == "gt" || f.Kind == "eq"),
			a == yp && b == xp && (f.Kind == "le" || f.Kind == "lt" || f.Kind == "eq"):
			return "dominated by a comparison of the two operands"
		}
	}
	// x - consumed where consumed is the second result of a budgeted reader called with budget x:
	// readVarUintLen(max) / readVarIntLen(max) never consume more than max bytes
	if ex, ok := bo.Y.(*ssa.Extract); ok {
		if c, ok := ex.Tuple.(*ssa.Call); ok {
			if f := c.Call.StaticCallee(); f != nil && env.p != nil && env.p.InModule(f) && len(c.Call.Args) >= 2 {
				if bi2 := consumedAtMostBudget(env.p, f, ex.Index); bi2 >= 0 && bi2 < len(c.Call.Args) {
					budget := c.Call.Args[bi2]
					if budget == bo.X || stripConv(ssau.Path(budget)) == xp {
						if _, isLoad := bo.X.(*ssa.UnOp); !isLoad || noKillBetween(env, c, bo, ssau.Path(bo.X)) {
							return "the subtrahend is what " + env.p.FuncName(f) + " consumed of exactly this budget, which it never exceeds"
						}
					}
				}
			}
		}
	}
	return ""
}

var consumedCache = map[*ssa.Function]map[int]int{}

// consumedAtMostBudget: result #ri of f is a byte count that, on every return
// with a nil error, is at most parameter #pi (established by a dominating
// comparison in f); returns pi or -1.
func consumedAtMostBudget(p *load.Program, f *ssa.Function, ri int) int {
	if m, ok := consumedCache[f]; ok {
		if v, ok := m[ri]; ok {
			return v
		}
	} else {
		consumedCache[f] = map[int]int{}
	}
	consumedCache[f][ri] = -1
	if len(f.Blocks) == 0 {
		return -1
	}
	res := f.Signature.Results()
	ei := res.Len() - 1
	if ei < 1 || ri >= ei || !ssau.IsErrorType(res.At(ei).Type()) {
		return -1
	}
	env := newIntervalEnv(p, f)
	for pi, prm := range f.Params {
		if _, ok := typeRange(prm.Type()); !ok {
			continue
		}
		okAll, any := true, false
		for _, ret := range returns(f) {
			if !ssau.IsNilConst(ret.Results[ei]) {
				continue
			}
			any = true
			fs := env.ff.At(ret)
			rv := ret.Results[ri]
			rr, okr := env.rangeOf(rv, fs, map[ssa.Value]bool{}, 0)
			pr, okp := env.rangeOf(prm, fs, map[ssa.Value]bool{}, 0)
			if okr && okp && rr.hi.Cmp(pr.lo) <= 0 {
				continue
			}
			rp, pp := stripConv(ssau.Path(rv)), "p."+prm.Name()
			found := false
			// rv = base + 1 with base < bound, bound <= the parameter
			if bo, isB := rv.(*ssa.BinOp); isB && bo.Op == token.ADD {
				if k, isK := ssau.ConstInt(bo.Y); isK && k == 1 {
					bp := stripConv(ssau.Path(bo.X))
					for fct := range fs {
						a := stripConv(fct.Path)
						if a != bp || fct.Kind != "lt" {
							continue
						}
						if boundAtMostParam(env, f, fct.Arg, prm) {
							found = true
						}
					}
				}
			}
			// rv is a phi/constant bounded the same way on each edge
			if !found {
				for fct := range fs {
					a := stripConv(fct.Path)
					if a == rp && (fct.Kind == "le" || fct.Kind == "lt") && boundAtMostParam(env, f, fct.Arg, prm) {
						found = true
					}
				}
			}
			if !found {
				if k, isK := ssau.ConstInt(rv); isK {
					if pr2, okp2 := env.rangeOf(prm, fs, map[ssa.Value]bool{}, 0); okp2 && bi(k).Cmp(pr2.lo) <= 0 {
						found = true
					}
				}
			}
			for fct := range fs {
				a, b := stripConv(fct.Path), stripConv(fct.Arg)
				if (a == rp && b == pp && (fct.Kind == "le" || fct.Kind == "lt" || fct.Kind == "eq")) || (a == pp && b == rp && (fct.Kind == "ge" || fct.Kind == "gt" || fct.Kind == "eq")) {
					found = true
				}
			}
			if !found {
				okAll = false
			}
		}
		if okAll && any {
			consumedCache[f][ri] = pi
			return pi
		}
	}
	return -1
}

// onlyDiagnostic: every use of v ends in an error value (a field of a struct
// that implements error, or an argument of a fmt formatting call).
func onlyDiagnostic(v ssa.Value, depth int) bool {
	refs := v.Referrers()
	if refs == nil || depth > 4 {
		return false
	}
	n := 0
	for _, u := range *refs {
		switch x := u.(type) {
		case *ssa.DebugRef:
			continue
		case *ssa.Store:
			if x.Val != v {
				return false
			}
			fa, ok := x.Addr.(*ssa.FieldAddr)
			if ok {
				if implementsError(fa.X.Type()) {
					n++
					continue
				}
				return false
			}
			// element of the []interface{} built for a variadic fmt call
			if ia, ok := x.Addr.(*ssa.IndexAddr); ok {
				if al, ok := ia.X.(*ssa.Alloc); ok && al.Comment == "varargs" {
					n++
					continue
				}
			}
			return false
		case *ssa.MakeInterface:
			if !onlyDiagnostic(x, depth+1) {
				return false
			}
			n++
		case *ssa.Convert:
			if !onlyDiagnostic(x, depth+1) {
				return false
			}
			n++
		case *ssa.BinOp:
			// offset arithmetic that itself only ends in an error value
			if (x.Op != token.ADD && x.Op != token.SUB) || !onlyDiagnostic(x, depth+1) {
				return false
			}
			n++
		case *ssa.Call:
			// handed to an error constructor (errVarUintTooLarge(b.pos - length)): the parameter
			// it arrives in only ends in an error value there
			f := x.Call.StaticCallee()
			if f == nil || len(f.Blocks) == 0 {
				return false
			}
			okArg := false
			for k, a := range x.Call.Args {
				if a == v && k < len(f.Params) {
					if !onlyDiagnostic(f.Params[k], depth+1) {
						return false
					}
					okArg = true
				}
			}
			if !okArg {
				return false
			}
			n++
		default:
			return false
		}
	}
	return n > 0
}

// USubResiduals: one named subtraction, one reason each.
var USubResiduals = []residual{
	{"(*bitstream).readN", "p.n - conv<uint64>(len(", "len(bs) never exceeds n: bs starts with min(n, 64 KiB) elements and each round appends min(n - len(bs), len(bs)); the loop returns when they are equal (a loop invariant between a phi and a parameter)"},
	{"(*tokenizer).unread", "p.t^.pos - k:1", "unread follows a read of the same character (pos >= 1); pos is only ever used as the offset in error messages"},
}

func implementsError(t types.Type) bool {
	errT := types.Universe.Lookup("error").Type().Underlying().(*types.Interface)
	return types.Implements(t, errT) || types.Implements(types.NewPointer(ssau.Deref(t)), errT)
}

// boundAtMostParam: the value with path bpath is the parameter itself, or a
// phi of the parameter and constants that the parameter exceeds on their edge
// (if max > 10 { max = 10 }).
func boundAtMostParam(env *intervalEnv, f *ssa.Function, bpath string, prm *ssa.Parameter) bool {
	bpath = stripConv(bpath)
	if bpath == "p."+prm.Name() {
		return true
	}
	// bound = g(prm) where the module function g returns at most its argument on every path
	// (func clampVarLen(max uint64) uint64 { if max > 10 { return 10 }; return max })
	for _, b := range f.Blocks {
		for _, in := range b.Instrs {
			c, ok := in.(*ssa.Call)
			if !ok || stripConv(ssau.Path(c)) != bpath || len(c.Call.Args) != 1 || c.Call.Args[0] != ssa.Value(prm) {
				continue
			}
			g := c.Call.StaticCallee()
			if g == nil || env.p == nil || !env.p.InModule(g) || len(g.Blocks) == 0 || len(g.Params) != 1 {
				continue
			}
			genv := newIntervalEnv(env.p, g)
			okAll := true
			for _, ret := range returns(g) {
				if len(ret.Results) != 1 {
					okAll = false
					break
				}
				rv := ret.Results[0]
				if rv == ssa.Value(g.Params[0]) {
					continue
				}
				k, isK := ssau.ConstInt(rv)
				pr, okp := genv.rangeOf(g.Params[0], genv.ff.At(ret), map[ssa.Value]bool{}, 0)
				if !isK || !okp || pr.lo.Cmp(bi(k)) < 0 {
					okAll = false
				}
			}
			if okAll {
				return true
			}
		}
	}
	for _, b := range f.Blocks {
		for _, in := range b.Instrs {
			ph, ok := in.(*ssa.Phi)
			if !ok || stripConv(ssau.Path(ph)) != bpath {
				continue
			}
			for i, e := range ph.Edges {
				if e == ssa.Value(prm) {
					continue
				}
				k, isK := ssau.ConstInt(e)
				if !isK {
					return false
				}
				pr, okp := env.rangeOf(prm, env.ff.OnPhiEdge(ph, i), map[ssa.Value]bool{}, 0)
				if !okp || pr.lo.Cmp(bi(k)) < 0 {
					return false
				}
			}
			return true
		}
	}
	return false
}
