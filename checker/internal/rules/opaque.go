package rules

import (
	"go/token"
	"go/types"
	"sort"
	"strings"

	"golang.org/x/tools/go/ssa"

	"verif/checker/internal/load"
	"verif/checker/internal/report"
	"verif/checker/internal/ssau"
)

// reflectTypeGlobals maps package-level variables initialised as
// reflect.TypeOf(T{}) to T.
func reflectTypeGlobals(p *load.Program) map[*ssa.Global]types.Type {
	out := map[*ssa.Global]types.Type{}
	init := p.Ion.Func("init")
	if init == nil {
		return out
	}
	for _, b := range init.Blocks {
		for _, in := range b.Instrs {
			st, ok := in.(*ssa.Store)
			if !ok {
				continue
			}
			g, ok := st.Addr.(*ssa.Global)
			if !ok {
				continue
			}
			c, ok := st.Val.(*ssa.Call)
			if !ok {
				continue
			}
			f := c.Call.StaticCallee()
			if f == nil || f.Pkg == nil || f.Pkg.Pkg.Path() != "reflect" || f.Name() != "TypeOf" || len(c.Call.Args) != 1 {
				continue
			}
			if mi, ok := c.Call.Args[0].(*ssa.MakeInterface); ok {
				out[g] = mi.X.Type()
			}
		}
	}
	return out
}

// globalsComparedIn lists the globals (of the given set) whose loaded value is
// compared with == / != in functions of the file.
func globalsComparedIn(p *load.Program, file string, set map[*ssa.Global]types.Type) map[*ssa.Global][]string {
	out := map[*ssa.Global][]string{}
	for _, fn := range p.Funcs {
		if p.InTest(fn) || !strings.HasSuffix(p.File(fn.Pos()), "/"+file) {
			continue
		}
		for _, b := range fn.Blocks {
			for _, in := range b.Instrs {
				bo, ok := in.(*ssa.BinOp)
				if !ok || (bo.Op != token.EQL && bo.Op != token.NEQ) {
					continue
				}
				for _, side := range []ssa.Value{bo.X, bo.Y} {
					if u, ok := side.(*ssa.UnOp); ok && u.Op == token.MUL {
						if g, ok := u.X.(*ssa.Global); ok {
							if _, in := set[g]; in {
								out[g] = append(out[g], p.FuncName(fn))
							}
						}
					}
				}
			}
		}
	}
	return out
}

func hasExportedField(t types.Type) bool {
	st, ok := t.Underlying().(*types.Struct)
	if !ok {
		return true
	}
	for i := 0; i < st.NumFields(); i++ {
		if st.Field(i).Exported() {
			return true
		}
	}
	return false
}

// TabOpaque implements TAB-OPAQUE: a struct type the decoder recognises by
// identity and that has no exported field must be recognised by the encoder
// too — the generic field walk would marshal it as an empty struct.
func TabOpaque(p *load.Program) *report.RuleResult {
	r := newResult("TAB-OPAQUE", "every struct type without exported fields that the decoder recognises by identity (v.Type() == <type variable> in unmarshal.go: big.Int, Decimal, Timestamp, time.Time) is also recognised by identity on the encode path (marshal.go) before the generic field walk, which would emit {} for it", 4)
	gl := reflectTypeGlobals(p)
	if len(gl) < 4 {
		missing(r, "reflect.TypeOf(T{}) type variables", sprintf("found %d", len(gl)))
		return r
	}
	dec := globalsComparedIn(p, "unmarshal.go", gl)
	enc := globalsComparedIn(p, "marshal.go", gl)
	var gs []*ssa.Global
	for g := range dec {
		gs = append(gs, g)
	}
	sort.Slice(gs, func(i, j int) bool { return gs[i].Name() < gs[j].Name() })
	for _, g := range gs {
		t := gl[g]
		what := "type " + types.TypeString(t, shortQual) + " (variable " + g.Name() + ")"
		if hasExportedField(t) {
			r.OK("Encoder", p.Pos(g.Pos()), what, "has exported fields: the generic struct walk encodes it")
			continue
		}
		if fns := enc[g]; len(fns) > 0 {
			sort.Strings(fns)
			r.OK("Encoder", p.Pos(g.Pos()), what, "recognised by identity in "+fns[0])
		} else {
			r.Bad("Encoder", p.Pos(g.Pos()), what, "the decoder accepts this type by identity but the encoder has no case for it: with no exported fields it is marshalled as {} and the value is lost")
		}
	}
	return r
}

// TabKind implements TAB-KIND: every reflect.Kind the decoder accepts as a
// target is a kind the encoder dispatches on.
func TabKind(p *load.Program) *report.RuleResult {
	r := newResult("TAB-KIND", "every reflect.Kind constant that the decode*To family of unmarshal.go accepts as a target kind is dispatched on by Encoder.encodeValue (anything else ends in 'unsupported type'), so a Go value that can be filled from Ion can also be written", 10)
	enc := methodByName(p, "Encoder", "encodeValue")
	if enc == nil {
		missing(r, "Encoder.encodeValue", "not found")
		return r
	}
	kindConst := func(c *ssa.Const) bool {
		n := ssau.NamedOf(c.Type())
		return n != nil && n.Obj().Name() == "Kind" && n.Obj().Pkg() != nil && n.Obj().Pkg().Path() == "reflect"
	}
	encKinds := constsComparedIn(enc, kindConst)
	if len(encKinds) < 10 {
		missing(r, "kind dispatch of encodeValue", sprintf("found %d kinds", len(encKinds)))
		return r
	}
	decKinds := map[string][]string{}
	for _, fn := range p.Funcs {
		if p.InTest(fn) || !strings.HasSuffix(p.File(fn.Pos()), "/unmarshal.go") || !strings.HasPrefix(fn.Name(), "decode") {
			continue
		}
		for k := range constsComparedIn(fn, kindConst) {
			decKinds[k] = append(decKinds[k], p.FuncName(fn))
		}
	}
	for _, k := range sortedKeysOf(decKinds) {
		n, _ := atoi64(k)
		what := "reflect." + reflectKindNameFull(n) + " accepted as a decode target"
		fns := decKinds[k]
		sort.Strings(fns)
		if encKinds[k] {
			r.OK(fns[0], p.Pos(enc.Pos()), what, "dispatched on by encodeValue")
		} else {
			r.Bad(fns[0], p.Pos(enc.Pos()), what, "the decoder fills targets of this kind but encodeValue has no case for it: Marshal of such a value fails with 'unsupported type'")
		}
	}
	return r
}

func sortedKeysOf(m map[string][]string) []string {
	var ks []string
	for k := range m {
		ks = append(ks, k)
	}
	sort.Slice(ks, func(i, j int) bool {
		a, _ := atoi64(ks[i])
		b, _ := atoi64(ks[j])
		return a < b
	})
	return ks
}

func reflectKindNameFull(n int64) string {
	names := []string{"Invalid", "Bool", "Int", "Int8", "Int16", "Int32", "Int64", "Uint", "Uint8", "Uint16", "Uint32", "Uint64", "Uintptr", "Float32", "Float64", "Complex64", "Complex128", "Array", "Chan", "Func", "Interface", "Map", "Pointer", "Slice", "String", "Struct", "UnsafePointer"}
	if n >= 0 && int(n) < len(names) {
		return names[n]
	}
	return sprintf("Kind(%d)", n)
}
