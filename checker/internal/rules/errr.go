package rules

import (
	"go/types"
	"strings"

	"golang.org/x/tools/go/ssa"

	"verif/checker/internal/effects"
	"verif/checker/internal/load"
	"verif/checker/internal/report"
	"verif/checker/internal/ssau"
)

// readerMethods enumerates all ion.Reader methods on every struct type of
// package ion that implements ion.Reader.
func readerMethods(p *load.Program, r *report.RuleResult) []wmethod {
	var out []wmethod
	impls := implementers(p, p.Ion, "Reader")
	if len(impls) < 2 {
		missing(r, "ion.Reader implementations", sprintf("found %d, expected binaryReader and textReader", len(impls)))
	}
	for _, T := range impls {
		for _, m := range ifaceMethods(p, "Reader", false) {
			fn := methodOf(p, T, m.Name())
			if fn == nil || len(fn.Blocks) == 0 {
				missing(r, T.Obj().Name()+"."+m.Name(), "method has no body")
				continue
			}
			out = append(out, wmethod{T, m.Name(), fn})
		}
	}
	return out
}

// constOf returns the integer value of a package-level constant of ion.
func constOf(p *load.Program, name string) (int64, bool) {
	c, ok := p.Ion.Members[name].(*ssa.NamedConst)
	if !ok {
		return 0, false
	}
	return ssau.ConstInt(c.Value)
}

// readerNoErrorYet: facts establish that the reader is not in its error state:
// the sticky err field is nil, or (text reader) state != trsDone, which
// ERR-ABSORB-R(b) ties to err by requiring every err store to be paired with a
// store of trsDone.
func readerNoErrorYet(p *load.Program) func(fn *ssa.Function, facts ssau.FactSet) bool {
	done, _ := constOf(p, "trsDone")
	return func(fn *ssa.Function, facts ssau.FactSet) bool {
		if stickyNil(fn, facts) {
			return true
		}
		if len(fn.Params) == 0 {
			return false
		}
		sp := "p." + fn.Params[0].Name() + "^.state"
		return facts.Has("ne", sp, sprintf("k:%d", done))
	}
}

// ErrAbsorbR implements ERR-ABSORB-R (a): entry guard of Reader methods,
// (b) pairing of err stores with the terminal state, (d) Err() returns the field.
func ErrAbsorbR(p *load.Program) *report.RuleResult {
	r := newResult("ERR-ABSORB-R", "the Reader error state is absorbing: every effect of a Reader method on the reader happens after 'no error yet' was established; the sticky err field is stored only together with the terminal state; Err() returns the field", 44)
	g := &guardW{p: p, eff: effects.Of(p), memo: map[*ssa.Function]int{}, bad: map[*ssa.Function][]guardSite{}, okAt: readerNoErrorYet(p)}
	seen := map[*ssa.Function]bool{}
	for _, m := range readerMethods(p, r) {
		name := p.FuncName(m.Fn)
		key := m.T.Obj().Name() + "." + m.Name
		n := len(g.effects(m.Fn))
		if g.guardFirst(m.Fn) {
			r.Add(report.Obligation{Key: key, Func: name, Pos: p.Pos(m.Fn.Pos()), What: sprintf("%d effect(s) on receiver", n), Status: report.Discharged, By: byGuardR(n)})
		} else {
			for _, s := range g.bad[m.Fn] {
				r.Add(report.Obligation{Key: key + "|" + s.what, Func: name, Pos: instrPos(p, s.instr), What: s.what, Status: report.Violation,
					Detail: "effect on the reader not preceded on every path by a test that no error has been recorded (entry " + name + ")"})
			}
		}
		// (d) Err returns the sticky field and nothing else
		if m.Name == "Err" && !seen[m.Fn] {
			seen[m.Fn] = true
			ep := errPathOf(m.Fn, "err")
			for _, ret := range returns(m.Fn) {
				if ep != "" && ssau.Path(ret.Results[0]) == ep {
					r.Add(report.Obligation{Key: "Err|" + name, Func: name, Pos: instrPos(p, ret), What: "Err() result", Status: report.Discharged, By: "returns the sticky field"})
				} else {
					r.Add(report.Obligation{Key: "Err|" + name, Func: name, Pos: instrPos(p, ret), What: "Err() result", Status: report.Violation, Detail: "Err() returns something other than a load of the sticky err field"})
				}
			}
		}
	}
	// (b) every store to reader.err outside a constructor: if the receiver type has a
	// 'state' field, the terminal state constant is stored in the same block.
	done, okDone := constOf(p, "trsDone")
	if !okDone {
		missing(r, "trsDone", "constant not found")
	}
	nStores := 0
	for _, fn := range p.Funcs {
		if p.InTest(fn) || fn.Pkg != p.Ion {
			continue
		}
		for _, b := range fn.Blocks {
			for _, in := range b.Instrs {
				st, ok := in.(*ssa.Store)
				if !ok {
					continue
				}
				tn, fl, ok := ssau.FieldOf(st.Addr)
				if !ok || tn != "reader" || fl != "err" {
					continue
				}
				nStores++
				name := p.FuncName(fn)
				rt := recvStruct(fn)
				if rt == nil || !hasField(rt, "state") {
					// binary reader: no separate terminal state; Next tests err itself
					r.Add(report.Obligation{Key: "errstore|" + name, Func: name, Pos: instrPos(p, in), What: "store to reader.err", Status: report.Discharged, By: "receiver has no separate terminal state"})
					continue
				}
				paired := false
				for _, in2 := range b.Instrs {
					if st2, ok := in2.(*ssa.Store); ok {
						if _, fl2, ok := ssau.FieldOf(st2.Addr); ok && fl2 == "state" {
							if v, ok := ssau.ConstInt(st2.Val); ok && v == done {
								paired = true
							}
						}
					}
				}
				if paired {
					r.Add(report.Obligation{Key: "errstore|" + name, Func: name, Pos: instrPos(p, in), What: "store to reader.err", Status: report.Discharged, By: "paired with state = trsDone"})
				} else {
					r.Add(report.Obligation{Key: "errstore|" + name, Func: name, Pos: instrPos(p, in), What: "store to reader.err", Status: report.Violation, Detail: "err is stored without also storing the terminal state trsDone, so the text reader's entry guard (state != trsDone) no longer implies err == nil"})
				}
			}
		}
	}
	if nStores < 2 {
		missing(r, "stores to reader.err", sprintf("found %d, expected >= 2 (binaryReader.Next, textReader.explode)", nStores))
	}
	return r
}

func byGuardR(n int) string {
	if n == 0 {
		return "no effect on the reader (pure accessor)"
	}
	return "no-error-yet established before every effect"
}

func recvStruct(fn *ssa.Function) *types.Struct {
	if fn.Signature.Recv() == nil {
		return nil
	}
	st, _ := ssau.Deref(fn.Signature.Recv().Type()).Underlying().(*types.Struct)
	return st
}

func hasField(st *types.Struct, name string) bool {
	for i := 0; i < st.NumFields(); i++ {
		if st.Field(i).Name() == name {
			return true
		}
	}
	return false
}

// ---------------------------------------------------------------------------
// ERR-STICKY-R

// errOrigins lists the error-typed values produced in fn by calls (or
// extracts of call tuples) whose callee may consume input.
func inputErrors(p *load.Program, eff *effects.Info, fn *ssa.Function) []ssa.Value {
	var out []ssa.Value
	for _, b := range fn.Blocks {
		for _, in := range b.Instrs {
			c, ok := in.(*ssa.Call)
			if !ok {
				continue
			}
			if _, isB := c.Common().Value.(*ssa.Builtin); isB {
				continue
			}
			if !eff.CallSummary(c).Input {
				continue
			}
			if ssau.IsErrorType(c.Type()) {
				out = append(out, c)
				continue
			}
			if tup, ok := c.Type().(*types.Tuple); ok && tup.Len() > 0 && ssau.IsErrorType(tup.At(tup.Len()-1).Type()) {
				for _, ref := range *c.Referrers() {
					if ex, ok := ref.(*ssa.Extract); ok && ex.Index == tup.Len()-1 {
						out = append(out, ex)
					}
				}
			}
		}
	}
	return out
}

// aliasClosure returns e plus every phi that (transitively) has a member as operand.
func aliasClosure(e ssa.Value) map[ssa.Value]bool {
	set := map[ssa.Value]bool{e: true}
	work := []ssa.Value{e}
	for len(work) > 0 {
		v := work[0]
		work = work[1:]
		refs := v.Referrers()
		if refs == nil {
			continue
		}
		for _, r := range *refs {
			switch x := r.(type) {
			case *ssa.Phi:
				if !set[x] {
					set[x] = true
					work = append(work, x)
				}
			case *ssa.ChangeInterface:
				if !set[x] {
					set[x] = true
					work = append(work, x)
				}
			}
		}
	}
	return set
}

// stickyConsume reports whether instr makes one of the aliased error values
// sticky on the receiver: a store into the sticky field, or a call of a
// receiver method (explode) that stores that parameter into reader.err.
func stickyConsume(p *load.Program, fn *ssa.Function, in ssa.Instruction, al map[ssa.Value]bool) bool {
	switch x := in.(type) {
	case *ssa.Store:
		if _, fl, ok := ssau.FieldOf(x.Addr); ok && fl == "err" && al[x.Val] && effects.HasRoot(x.Addr, effects.RParam, 0) {
			return true
		}
	case ssa.CallInstruction:
		cc := x.Common()
		callee := load.Unwrap(cc.StaticCallee())
		if callee == nil || !sameReceiver(fn, cc) {
			return false
		}
		for i, a := range cc.Args {
			if i == 0 || !al[a] || i >= len(callee.Params) {
				continue
			}
			// callee stores parameter i into its receiver's err field
			for _, b := range callee.Blocks {
				for _, ci := range b.Instrs {
					if st, ok := ci.(*ssa.Store); ok && st.Val == callee.Params[i] {
						if _, fl, ok := ssau.FieldOf(st.Addr); ok && fl == "err" {
							return true
						}
					}
				}
			}
		}
	}
	return false
}

// ErrStickyR implements ERR-STICKY-R (which subsumes ERR-ABSORB-R (c)).
func ErrStickyR(p *load.Program) *report.RuleResult {
	r := newResult("ERR-STICKY-R", "a Reader method that obtains an error from the input layer makes it sticky before it returns (stored into reader.err directly or through explode)", 8)
	eff := effects.Of(p)
	seen := map[*ssa.Function]bool{}
	for _, m := range readerMethods(p, r) {
		if seen[m.Fn] {
			continue
		}
		seen[m.Fn] = true
		name := p.FuncName(m.Fn)
		ep := errPathOf(m.Fn, "err")
		for _, e := range inputErrors(p, eff, m.Fn) {
			what := "error from " + describe(e)
			key := recvTypeName(m.Fn) + "." + m.Fn.Name() + "|" + what
			// a value that is itself stored to the sticky field at its definition
			// (done, r.err = r.next()) is consumed at once
			al := aliasClosure(e)
			start := e.(ssa.Instruction)
			cut := func(b *ssa.BasicBlock, si int) bool {
				ifi, ok := b.Instrs[len(b.Instrs)-1].(*ssa.If)
				if !ok {
					return false
				}
				for _, f := range ssau.CondFacts(ifi.Cond, si == 0) {
					if f.Kind != "nil" {
						continue
					}
					for v := range al {
						if ssau.Path(v) == f.Path {
							return true
						}
					}
					// testing the sticky field after the value was stored into it
					if ep != "" && f.Path == ep {
						return true
					}
				}
				return false
			}
			esc := ssau.EscapesWithout(start, func(in ssa.Instruction) bool { return stickyConsume(p, m.Fn, in, al) }, cut)
			if esc == nil {
				r.Add(report.Obligation{Key: key, Func: name, Pos: instrPos(p, start), What: what, Status: report.Discharged, By: "every exit passes a sticky store / explode, or the nil edge of its test"})
			} else {
				r.Add(report.Obligation{Key: key, Func: name, Pos: instrPos(p, start), What: what, Status: report.Violation,
					Detail: "entry " + name + ": the exit at " + instrPos(p, esc) + " is reachable with this error possibly non-nil and not recorded in the reader's sticky err"})
			}
		}
	}
	return r
}

// ---------------------------------------------------------------------------
// REFUSE-PURE

// RefusePure implements REFUSE-PURE: a Reader method exit that refuses the
// call with a fresh *UsageError is not reachable from any effect on the reader.
func RefusePure(p *load.Program) *report.RuleResult {
	r := newResult("REFUSE-PURE", "every Reader method exit that returns a fresh *UsageError (a refused call) is free of side effects on the reader", 15)
	g := &guardW{p: p, eff: effects.Of(p)}
	seen := map[*ssa.Function]bool{}
	for _, m := range readerMethods(p, r) {
		if seen[m.Fn] {
			continue
		}
		seen[m.Fn] = true
		ei := errResultIndex(m.Fn)
		if ei < 0 {
			continue
		}
		name := p.FuncName(m.Fn)
		effs := g.effects(m.Fn)
		for _, ret := range returns(m.Fn) {
			if !mayBeFreshUsageError(ret.Results[ei], 0) {
				continue
			}
			key := recvTypeName(m.Fn) + "." + m.Fn.Name() + "|refusal"
			var hit *guardSite
			for i := range effs {
				if ssau.Reaches(effs[i].instr.Block(), ret.Block()) {
					hit = &effs[i]
					break
				}
			}
			if hit == nil {
				r.Add(report.Obligation{Key: key, Func: name, Pos: instrPos(p, ret), What: "refusal exit", Status: report.Discharged, By: "no effect on the reader reaches this exit"})
			} else {
				r.Add(report.Obligation{Key: key, Func: name, Pos: instrPos(p, ret), What: "refusal exit", Status: report.Violation,
					Detail: "the refusal at " + instrPos(p, ret) + " is reachable after " + hit.what + " at " + instrPos(p, hit.instr)})
			}
		}
	}
	return r
}

func mayBeFreshUsageError(v ssa.Value, depth int) bool {
	if depth > 4 {
		return false
	}
	if freshErrorType(v) == "UsageError" {
		return true
	}
	if ph, ok := v.(*ssa.Phi); ok {
		for _, e := range ph.Edges {
			if mayBeFreshUsageError(e, depth+1) {
				return true
			}
		}
	}
	return false
}

var _ = strings.HasPrefix

// RefusePureW implements REFUSE-PURE-W: a Writer method exit that refuses the
// call with a fresh, unrecorded *UsageError (the one case the property allows:
// Finish away from the top level) leaves the writer untouched, so the caller
// can carry on.
func RefusePureW(p *load.Program) *report.RuleResult {
	r := newResult("REFUSE-PURE-W", "every Writer method exit that returns a fresh *UsageError without recording it in the sticky error (a refused call the caller may recover from, e.g. Finish inside a container) is free of side effects on the writer", 2)
	g := &guardW{p: p, eff: effects.Of(p)}
	seen := map[*ssa.Function]bool{}
	for _, m := range writerMethods(p, r) {
		if seen[m.Fn] {
			continue
		}
		seen[m.Fn] = true
		ei := errResultIndex(m.Fn)
		if ei < 0 {
			continue
		}
		name := p.FuncName(m.Fn)
		effs := g.effects(m.Fn)
		for _, ret := range returns(m.Fn) {
			if !mayBeFreshUsageError(ret.Results[ei], 0) {
				continue
			}
			key := recvTypeName(m.Fn) + "." + m.Fn.Name() + "|refusal"
			var hit *guardSite
			for i := range effs {
				if ssau.Reaches(effs[i].instr.Block(), ret.Block()) {
					hit = &effs[i]
					break
				}
			}
			if hit == nil {
				r.Add(report.Obligation{Key: key, Func: name, Pos: instrPos(p, ret), What: "unrecorded refusal exit", Status: report.Discharged, By: "no effect on the writer reaches this exit"})
			} else {
				r.Add(report.Obligation{Key: key, Func: name, Pos: instrPos(p, ret), What: "unrecorded refusal exit", Status: report.Violation,
					Detail: "the refusal at " + instrPos(p, ret) + " is not sticky, yet it is reachable after " + hit.what + " at " + instrPos(p, hit.instr) + ": the writer the caller continues with is no longer in the state it was in before the refused call"})
			}
		}
	}
	return r
}
