package rules

import (
	"go/types"
	"strings"

	"golang.org/x/tools/go/ssa"

	"verif/checker/internal/effects"
	"verif/checker/internal/load"
	"verif/checker/internal/report"
	"verif/checker/internal/ssau"
)

// writerMethods enumerates the error-returning ion.Writer methods on every
// struct type of package ion that implements ion.Writer.
type wmethod struct {
	T    *types.Named
	Name string
	Fn   *ssa.Function
}

func writerMethods(p *load.Program, r *report.RuleResult) []wmethod {
	var out []wmethod
	impls := implementers(p, p.Ion, "Writer")
	if len(impls) < 2 {
		missing(r, "ion.Writer implementations", sprintf("found %d, expected binaryWriter and textWriter", len(impls)))
	}
	for _, T := range impls {
		for _, m := range ifaceMethods(p, "Writer", true) {
			fn := methodOf(p, T, m.Name())
			if fn == nil || len(fn.Blocks) == 0 {
				missing(r, T.Obj().Name()+"."+m.Name(), "method has no body")
				continue
			}
			out = append(out, wmethod{T, m.Name(), fn})
		}
	}
	return out
}

// errPathOf finds the access path of the receiver's sticky error field as it
// is spelled inside fn ("" when fn never touches it).
func errPathOf(fn *ssa.Function, field string) string {
	if len(fn.Params) == 0 || fn.Signature.Recv() == nil {
		return ""
	}
	prefix := "&p." + fn.Params[0].Name() + "^."
	for _, b := range fn.Blocks {
		for _, in := range b.Instrs {
			fa, ok := in.(*ssa.FieldAddr)
			if !ok {
				continue
			}
			_, f, _ := ssau.FieldOf(fa)
			if f != field {
				continue
			}
			pt, ok := fa.Type().Underlying().(*types.Pointer)
			if !ok || !ssau.IsErrorType(pt.Elem()) {
				continue
			}
			if pa := ssau.Path(fa); strings.HasPrefix(pa, prefix) {
				return pa[1:]
			}
		}
	}
	return ""
}

// sameReceiver reports whether the call passes the caller's own receiver
// (possibly the embedded base) as the callee's receiver.
func sameReceiver(fn *ssa.Function, cc *ssa.CallCommon) bool {
	if cc.IsInvoke() || len(cc.Args) == 0 || len(fn.Params) == 0 {
		return false
	}
	callee := cc.StaticCallee()
	if callee == nil || callee.Signature.Recv() == nil {
		return false
	}
	pa := ssau.Path(cc.Args[0])
	w := "p." + fn.Params[0].Name()
	// w itself, or the address of an embedded struct inside *w
	return pa == w || strings.HasPrefix(pa, "&"+w+"^.") && isEmbeddedPath(fn, cc.Args[0])
}

func isEmbeddedPath(fn *ssa.Function, v ssa.Value) bool {
	fa, ok := v.(*ssa.FieldAddr)
	if !ok {
		return false
	}
	st, ok := ssau.Deref(fa.X.Type()).Underlying().(*types.Struct)
	if !ok {
		return false
	}
	return st.Field(fa.Field).Embedded() && fa.X == fn.Params[0]
}

// ---------------------------------------------------------------------------
// ERR-GUARD-W

type guardW struct {
	p    *load.Program
	eff  *effects.Info
	memo map[*ssa.Function]int // 0 unknown, 1 in progress, 2 yes, 3 no
	bad  map[*ssa.Function][]guardSite
	// okAt decides whether the facts at an effect establish "no error yet"
	// (default: the sticky field "err" of the receiver is known nil).
	okAt func(fn *ssa.Function, facts ssau.FactSet) bool
}

func stickyNil(fn *ssa.Function, facts ssau.FactSet) bool {
	ep := errPathOf(fn, "err")
	return ep != "" && facts.Has("nil", ep, "")
}

type guardSite struct {
	instr ssa.Instruction
	what  string
}

// guardFirst: every effect of fn on its receiver happens after the sticky
// error was tested to be nil.
func (g *guardW) guardFirst(fn *ssa.Function) bool {
	switch g.memo[fn] {
	case 1:
		return false
	case 2:
		return true
	case 3:
		return false
	}
	g.memo[fn] = 1
	sites := g.check(fn)
	g.bad[fn] = sites
	if len(sites) == 0 {
		g.memo[fn] = 2
		return true
	}
	g.memo[fn] = 3
	return false
}

func (g *guardW) effects(fn *ssa.Function) []guardSite {
	var out []guardSite
	for _, b := range fn.Blocks {
		for _, in := range b.Instrs {
			switch i := in.(type) {
			case *ssa.Store:
				if effects.HasRoot(i.Addr, effects.RParam, 0) {
					out = append(out, guardSite{in, "store to " + strings.TrimPrefix(ssau.Path(i.Addr), "&")})
				}
			case *ssa.MapUpdate:
				if effects.HasRoot(i.Map, effects.RParam, 0) {
					out = append(out, guardSite{in, "map update " + ssau.Path(i.Map)})
				}
			case ssa.CallInstruction:
				if _, isB := i.Common().Value.(*ssa.Builtin); isB {
					if ssau.IsBuiltinCall(in, "copy") && effects.HasRoot(i.Common().Args[0], effects.RParam, 0) {
						out = append(out, guardSite{in, "copy into receiver state"})
					}
					continue
				}
				if ok, who := g.eff.CallMutates(i, 0); ok {
					out = append(out, guardSite{in, "call " + who})
				}
			}
		}
	}
	return out
}

func (g *guardW) check(fn *ssa.Function) []guardSite {
	ff := ssau.ComputeFacts(fn, nil)
	okAt := g.okAt
	if okAt == nil {
		okAt = stickyNil
	}
	var bad []guardSite
	for _, s := range g.effects(fn) {
		if okAt(fn, ff.At(s.instr)) {
			continue
		}
		if ci, ok := s.instr.(ssa.CallInstruction); ok && sameReceiver(fn, ci.Common()) {
			if callee := load.Unwrap(ci.Common().StaticCallee()); callee != nil && g.guardFirst(callee) {
				continue
			}
		}
		bad = append(bad, s)
	}
	return bad
}

// ErrGuardW implements ERR-GUARD-W.
func ErrGuardW(p *load.Program) *report.RuleResult {
	r := newResult("ERR-GUARD-W", "every effect of a Writer method on the writer happens after the sticky error was found nil (or inside a callee that is itself guard-first)", 48)
	g := &guardW{p: p, eff: effects.Of(p), memo: map[*ssa.Function]int{}, bad: map[*ssa.Function][]guardSite{}}
	for _, m := range writerMethods(p, r) {
		name := p.FuncName(m.Fn)
		key := m.T.Obj().Name() + "." + m.Name
		n := len(g.effects(m.Fn))
		if g.guardFirst(m.Fn) {
			r.Add(report.Obligation{Key: key, Func: name, Pos: p.Pos(m.Fn.Pos()), What: sprintf("%d effect(s) on receiver", n), Status: report.Discharged, By: byGuard(n)})
			continue
		}
		for _, s := range g.bad[m.Fn] {
			r.Add(report.Obligation{Key: key + "|" + s.what, Func: name, Pos: instrPos(p, s.instr), What: s.what, Status: report.Violation,
				Detail: "effect on the writer not preceded on every path by a test that the sticky error is nil (entry " + name + ")"})
		}
	}
	return r
}

func byGuard(n int) string {
	if n == 0 {
		return "no direct effect (delegates / pure)"
	}
	return "sticky error tested nil before every effect"
}

// ---------------------------------------------------------------------------
// ERR-STICKY-W

type stickyW struct {
	p    *load.Program
	eff  *effects.Info
	memo map[*ssa.Function]int
	bad  map[*ssa.Function][]stickySite
	ok   map[*ssa.Function]map[string]int
}

type stickySite struct {
	ret  *ssa.Return
	what string
}

func (s *stickyW) sticky(fn *ssa.Function) bool {
	switch s.memo[fn] {
	case 1:
		return true // coinductive: a cycle of sticky callees is sticky
	case 2:
		return true
	case 3:
		return false
	}
	s.memo[fn] = 1
	bad := s.check(fn)
	s.bad[fn] = bad
	if len(bad) == 0 {
		s.memo[fn] = 2
		return true
	}
	s.memo[fn] = 3
	return false
}

func (s *stickyW) check(fn *ssa.Function) []stickySite {
	ei := errResultIndex(fn)
	if ei < 0 {
		return nil
	}
	ep := errPathOf(fn, "err")
	errField := "writer.err"
	kill := func(in ssa.Instruction) func(ssau.Fact) bool {
		if k := ssau.StoreKills(in); k != nil {
			return k
		}
		if ci, ok := in.(ssa.CallInstruction); ok && ep != "" {
			if s.eff.CallSummary(ci).MutFields[errField] {
				return func(f ssau.Fact) bool { return ssau.Mentions(f.Path, ep) }
			}
		}
		return nil
	}
	ff := ssau.ComputeFacts(fn, kill)
	s.ok[fn] = map[string]int{}
	var bad []stickySite
	for _, ret := range returns(fn) {
		v := ret.Results[ei]
		why, good := s.classify(fn, ret, v, ep, ff.At(ret), ff, 0)
		if good {
			s.ok[fn][why]++
		} else {
			bad = append(bad, stickySite{ret, why})
		}
	}
	return bad
}

func (s *stickyW) classify(fn *ssa.Function, ret *ssa.Return, v ssa.Value, ep string, facts ssau.FactSet, ff *ssau.FactFlow, depth int) (string, bool) {
	if depth > 6 {
		return "value too deep to classify", false
	}
	if ssau.IsNilConst(v) {
		if ep == "" {
			// a function that never touches the sticky field and returns nil: fine for helpers
			// without effects, decided by the guard rule; here it carries no error to lose.
			return "returns nil (no sticky field in scope)", true
		}
		if facts.Has("nil", ep, "") {
			return "returns nil with sticky error known nil", true
		}
		return "returns nil on a path where the sticky error was not (re)tested nil", false
	}
	if ep != "" && ssau.Path(v) == ep {
		return "returns the sticky field", true
	}
	// a dominating store of the same value into the sticky field
	if ep != "" {
		for _, b := range fn.Blocks {
			for _, in := range b.Instrs {
				st, ok := in.(*ssa.Store)
				if !ok || st.Val != v || ssau.Path(st.Addr) != "&"+ep {
					continue
				}
				if b == ret.Block() || b.Dominates(ret.Block()) {
					return "stored into the sticky field before returning", true
				}
			}
		}
	}
	switch x := v.(type) {
	case *ssa.Call:
		if sameReceiver(fn, x.Common()) {
			callee := load.Unwrap(x.Common().StaticCallee())
			if callee != nil && len(callee.Blocks) > 0 && s.sticky(callee) {
				return "returns result of sticky callee " + s.p.FuncName(callee), true
			}
			return "returns result of non-sticky callee " + s.p.FuncName(callee), false
		}
	case *ssa.Phi:
		for i, e := range x.Edges {
			why, ok := s.classify(fn, ret, e, ep, ff.OnPhiEdge(x, i), ff, depth+1)
			if !ok {
				return why, false
			}
		}
		return "all phi inputs sticky", true
	}
	if t := freshErrorType(v); t == "UsageError" && fn.Name() == "Finish" {
		return "Finish usage-error exemption (property text)", true
	}
	if t := freshErrorType(v); t != "" {
		return "returns a fresh *" + t + " without storing it in the sticky field", false
	}
	return "returns an error (" + describe(v) + ") that was not stored in the sticky field", false
}

func describe(v ssa.Value) string {
	switch x := v.(type) {
	case *ssa.Call:
		if c := x.Common().StaticCallee(); c != nil {
			return "result of " + c.Name()
		}
		if x.Common().IsInvoke() {
			return "result of " + x.Common().Method.Name()
		}
	case *ssa.Extract:
		return describe(x.Tuple)
	}
	return v.Name()
}

// ErrStickyW implements ERR-STICKY-W.
func ErrStickyW(p *load.Program) *report.RuleResult {
	r := newResult("ERR-STICKY-W", "every error a Writer method returns is the sticky error (stored before / loaded from the sticky field, or produced by a sticky callee); nil is returned only while the sticky error is known nil", 48)
	s := &stickyW{p: p, eff: effects.Of(p), memo: map[*ssa.Function]int{}, bad: map[*ssa.Function][]stickySite{}, ok: map[*ssa.Function]map[string]int{}}
	reported := map[*ssa.Function]bool{}
	for _, m := range writerMethods(p, r) {
		name := p.FuncName(m.Fn)
		key := m.T.Obj().Name() + "." + m.Name
		if s.sticky(m.Fn) {
			r.Add(report.Obligation{Key: key, Func: name, Pos: p.Pos(m.Fn.Pos()), What: sprintf("%d return(s)", len(returns(m.Fn))), Status: report.Discharged, By: "all returns sticky"})
			continue
		}
		// report the offending returns, in this method or in the non-sticky callee it relies on
		s.reportBad(r, m.Fn, key, reported, 0)
	}
	return r
}

func (s *stickyW) reportBad(r *report.RuleResult, fn *ssa.Function, entryKey string, reported map[*ssa.Function]bool, depth int) {
	for _, b := range s.bad[fn] {
		detail := "entry point " + entryKey + "; offending exit at " + instrPos(s.p, b.ret)
		v := b.ret.Results[errResultIndex(fn)]
		if c, ok := v.(*ssa.Call); ok && strings.HasPrefix(b.what, "returns result of non-sticky callee") {
			if callee := load.Unwrap(c.Common().StaticCallee()); callee != nil {
				for _, cb := range s.bad[callee] {
					detail += "; callee exit " + instrPos(s.p, cb.ret) + " " + cb.what
				}
			}
		}
		r.Add(report.Obligation{Key: entryKey + "|" + b.what, Func: s.p.FuncName(fn), Pos: instrPos(s.p, b.ret), What: b.what, Status: report.Violation, Detail: detail})
	}
}
