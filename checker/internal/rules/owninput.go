package rules

import (
	"go/types"
	"strings"

	"golang.org/x/tools/go/ssa"

	"verif/checker/internal/load"
	"verif/checker/internal/report"
	"verif/checker/internal/ssau"
)

func isBufioReader(t types.Type) bool {
	n := ssau.NamedOf(t)
	return n != nil && n.Obj().Pkg() != nil && n.Obj().Pkg().Path() == "bufio" && n.Obj().Name() == "Reader"
}

func isIOReaderIface(t types.Type) bool {
	n := ssau.NamedOf(t)
	if n == nil || n.Obj().Pkg() == nil {
		return false
	}
	return n.Obj().Pkg().Path() == "io" && n.Obj().Name() == "Reader"
}

// OwnInput implements OWN-INPUT: the only operations the readers apply to
// their input are complete-or-error primitives of one bufio.Reader.
func OwnInput(p *load.Program) *report.RuleResult {
	r := newResult("OWN-INPUT", "in the reader files the caller's io.Reader is only wrapped in a bufio.Reader (never read directly, so no result depends on how a Read call happened to be chunked); the bufio.Reader is used only through the complete-or-error primitives ReadByte, UnreadByte, Peek, Discard and io.ReadFull; a slice returned by Peek (an alias of the read buffer) is only inspected, never returned, stored or appended", 8)
	allowed := map[string]bool{"ReadByte": true, "UnreadByte": true, "Peek": true, "Discard": true}
	for _, fn := range sortedFuncs(p) {
		if !ScopeReader.has(p, fn) || len(fn.Blocks) == 0 {
			continue
		}
		name := p.FuncName(fn)
		for _, b := range fn.Blocks {
			for _, in := range b.Instrs {
				c, ok := in.(ssa.CallInstruction)
				if !ok {
					continue
				}
				cc := c.Common()
				// (b) direct use of an io.Reader interface value
				if cc.IsInvoke() && isIOReaderIface(cc.Value.Type()) {
					r.Bad(name, instrPos(p, in), "direct "+cc.Method.Name()+" on the caller's io.Reader", "the input is read without the buffering layer: how many bytes one Read returns is up to the source, so results depend on chunking and a short read is mistaken for the end of data")
					continue
				}
				callee := cc.StaticCallee()
				if callee == nil {
					continue
				}
				pkg := ""
				if callee.Pkg != nil {
					pkg = callee.Pkg.Pkg.Path()
				}
				// (a) methods of *bufio.Reader
				if callee.Signature.Recv() != nil && isBufioReader(callee.Signature.Recv().Type()) {
					what := "bufio.Reader." + callee.Name()
					if allowed[callee.Name()] {
						r.OK(name, instrPos(p, in), what, "complete-or-error primitive")
					} else {
						r.Bad(name, instrPos(p, in), what, "not a complete-or-error primitive: its result depends on how much the source delivered so far")
					}
					if callee.Name() == "Peek" {
						if call, ok := in.(*ssa.Call); ok {
							if esc := peekEscapes(call); esc != "" {
								r.Bad(name, instrPos(p, in), "slice returned by Peek", "the slice aliases the read buffer and "+esc+": its contents change when the buffer is refilled")
							} else {
								r.OK(name, instrPos(p, in), "slice returned by Peek", "only inspected (indexed, measured, compared, copied)")
							}
						}
					}
					continue
				}
				// io.Reader arguments handed to anything
				for ai, a := range cc.Args {
					if !isIOReaderIface(a.Type()) {
						continue
					}
					src := a
					if mi, ok := a.(*ssa.MakeInterface); ok {
						src = mi.X
					}
					what := sprintf("io.Reader passed to %s (argument %d)", calleeNames(p, c), ai)
					switch {
					case pkg == "bufio" && (callee.Name() == "NewReader" || callee.Name() == "NewReaderSize"):
						r.OK(name, instrPos(p, in), what, "wrapped in the buffering layer")
					case pkg == "io" && callee.Name() == "ReadFull" && isBufioReader(src.Type()):
						r.OK(name, instrPos(p, in), what, "io.ReadFull on the bufio.Reader: complete or error")
					case p.InModule(callee):
						r.OK(name, instrPos(p, in), what, "forwarded to a module function (checked there)")
					case isBufioReader(src.Type()) || strings.HasPrefix(pkg, "bytes") || strings.HasPrefix(pkg, "strings"):
						r.OK(name, instrPos(p, in), what, "not the caller's reader")
					default:
						r.Bad(name, instrPos(p, in), what, "the caller's io.Reader is consumed outside the buffering layer")
					}
				}
			}
		}
	}
	return r
}

// peekEscapes reports how the slice result of a Peek call leaves the function
// or outlives the buffer state ("" = it does not).
func peekEscapes(c *ssa.Call) string {
	var slices []ssa.Value
	for _, u := range *c.Referrers() {
		if ex, ok := u.(*ssa.Extract); ok && ex.Index == 0 {
			slices = append(slices, ex)
		}
	}
	seen := map[ssa.Value]bool{}
	for len(slices) > 0 {
		v := slices[0]
		slices = slices[1:]
		if seen[v] {
			continue
		}
		seen[v] = true
		for _, u := range *v.Referrers() {
			switch x := u.(type) {
			case *ssa.DebugRef, *ssa.IndexAddr, *ssa.Index, *ssa.BinOp:
			case *ssa.Slice:
				slices = append(slices, x)
			case *ssa.Phi:
				slices = append(slices, x)
			case *ssa.Convert:
				// string(bs) copies
			case *ssa.Return:
				return "is returned"
			case *ssa.Store:
				if x.Val == v {
					return "is stored"
				}
			case *ssa.MakeInterface:
				return "is boxed into an interface"
			case ssa.CallInstruction:
				cc := x.Common()
				if b, ok := cc.Value.(*ssa.Builtin); ok {
					switch b.Name() {
					case "len", "cap":
						continue
					case "copy":
						if len(cc.Args) > 0 && cc.Args[0] == v {
							return "is written to"
						}
						continue
					case "append":
						if len(cc.Args) > 0 && cc.Args[0] == v {
							return "is appended to"
						}
						continue // appended FROM: copies
					}
				}
				if f := cc.StaticCallee(); f != nil && f.Pkg != nil {
					switch f.Pkg.Pkg.Path() {
					case "bytes", "unicode/utf8", "strings":
						continue
					}
				}
				return "is passed to " + cc.Value.Name()
			default:
				return "is used by " + u.String()
			}
		}
	}
	return ""
}
