package rules

import (
	"go/token"
	"go/types"
	"sort"
	"strings"

	"golang.org/x/tools/go/ssa"

	"verif/checker/internal/effects"
	"verif/checker/internal/load"
	"verif/checker/internal/report"
	"verif/checker/internal/ssau"
)

// nilEngine holds the shared analysis state of the NIL rules.
type nilEngine struct {
	p       *load.Program
	eff     *effects.Info
	mayNil  map[*ssa.Function]bool // returns (nil, nil) on some path
	pre     map[*ssa.Function]ssau.FactSet
	flows   map[*ssa.Function]*ssau.FactFlow
	derefP  map[*ssa.Function]map[int]bool // parameter i dereferenced without guard
	nullInt int64
}

var nilCache = map[*load.Program]*nilEngine{}

func nilEngineOf(p *load.Program) *nilEngine {
	if e, ok := nilCache[p]; ok {
		return e
	}
	e := &nilEngine{p: p, eff: effects.Of(p), mayNil: map[*ssa.Function]bool{}, pre: map[*ssa.Function]ssau.FactSet{}, flows: map[*ssa.Function]*ssau.FactFlow{}, derefP: map[*ssa.Function]map[int]bool{}}
	e.nullInt, _ = constOf(p, "NullInt")
	e.computeMayNil()
	e.computePre()
	e.computeDerefParams()
	nilCache[p] = e
	return e
}

// resultNilable: (pointer|interface, error) signature.
func resultNilable(sig *types.Signature) bool {
	rs := sig.Results()
	if rs.Len() != 2 || !ssau.IsErrorType(rs.At(1).Type()) {
		return false
	}
	switch rs.At(0).Type().Underlying().(type) {
	case *types.Pointer:
		return true
	case *types.Interface:
		return !ssau.IsErrorType(rs.At(0).Type())
	}
	return false
}

// computeMayNil: functions with a (nil, nil) return, or that return the
// result tuple of such a function.
func (e *nilEngine) computeMayNil() {
	for changed := true; changed; {
		changed = false
		for _, fn := range e.p.Funcs {
			if e.mayNil[fn] || !resultNilable(fn.Signature) {
				continue
			}
			for _, ret := range returns(fn) {
				if e.retMayBeNilNil(ret) {
					e.mayNil[fn] = true
					changed = true
					break
				}
			}
		}
	}
}

func (e *nilEngine) retMayBeNilNil(ret *ssa.Return) bool {
	v0, v1 := ret.Results[0], ret.Results[1]
	if ssau.IsNilConst(v0) && ssau.IsNilConst(v1) {
		return true
	}
	// return f() where f may return (nil, nil)
	if x0, ok := v0.(*ssa.Extract); ok {
		if c, ok := x0.Tuple.(*ssa.Call); ok && x0.Index == 0 {
			if x1, ok := v1.(*ssa.Extract); ok && x1.Tuple == x0.Tuple {
				return e.callMayNil(c)
			}
		}
	}
	// return v, nil / return v, err where v is a possibly-nil source passed through
	// unguarded: "val, err := f(); if err != nil {…}; return val, nil"
	if src := e.sourceOf(v0); src != nil && (ssau.IsNilConst(v1)) {
		ff := e.flow(ret.Parent())
		if !ff.At(ret).Has("nonnil", ssau.Path(v0), "") {
			return true
		}
	}
	return false
}

// callMayNil: some possible callee may return (nil, nil).
func (e *nilEngine) callMayNil(c *ssa.Call) bool {
	for _, f := range e.p.Callees(c) {
		if e.mayNil[f] {
			return true
		}
	}
	return false
}

// sourceOf: v is the first result of a call that may return (nil, nil).
func (e *nilEngine) sourceOf(v ssa.Value) *ssa.Call {
	ex, ok := v.(*ssa.Extract)
	if !ok || ex.Index != 0 {
		return nil
	}
	c, ok := ex.Tuple.(*ssa.Call)
	if !ok {
		return nil
	}
	var sig *types.Signature
	if c.Common().IsInvoke() {
		sig = c.Common().Method.Type().(*types.Signature)
	} else {
		sig, _ = c.Common().Value.Type().Underlying().(*types.Signature)
	}
	if sig == nil || !resultNilable(sig) {
		return nil
	}
	if e.callMayNil(c) {
		return c
	}
	return nil
}

// readerKill: a call that may change the reader's current value invalidates
// facts about IsNull()/Type()/IntSize() of any reader.
func (e *nilEngine) kill(in ssa.Instruction) func(ssau.Fact) bool {
	if k := ssau.StoreKills(in); k != nil {
		return k
	}
	ci, ok := in.(ssa.CallInstruction)
	if !ok {
		return nil
	}
	if _, isB := ci.Common().Value.(*ssa.Builtin); isB {
		return nil
	}
	s := e.eff.CallSummary(ci)
	if s.MutFields["reader.value"] || s.MutFields["reader.valueType"] {
		return func(f ssau.Fact) bool {
			return strings.Contains(f.Path, ".IsNull()") || strings.Contains(f.Path, ".Type()") || strings.Contains(f.Path, ".IntSize()")
		}
	}
	return nil
}

func (e *nilEngine) flow(fn *ssa.Function) *ssau.FactFlow {
	if ff, ok := e.flows[fn]; ok {
		return ff
	}
	ff := ssau.ComputeFactsInit(fn, e.kill, e.pre[fn])
	e.flows[fn] = ff
	return ff
}

// computePre infers, for unexported functions, the facts of the form
// false(<param-rooted reader>.IsNull()) that hold at every call site in the
// module (fixed point). Exported functions get no precondition.
func (e *nilEngine) computePre() {
	type site struct {
		caller *ssa.Function
		call   ssa.CallInstruction
	}
	sites := map[*ssa.Function][]site{}
	for _, fn := range e.p.Funcs {
		if e.p.InTest(fn) {
			continue
		}
		for _, b := range fn.Blocks {
			for _, in := range b.Instrs {
				ci, ok := in.(ssa.CallInstruction)
				if !ok {
					continue
				}
				for _, callee := range e.p.Callees(ci) {
					if e.p.InModule(callee) && len(callee.Blocks) > 0 {
						sites[callee] = append(sites[callee], site{fn, ci})
					}
				}
			}
		}
	}
	// candidates: unexported, not address-taken (every use is a direct call), with call sites
	cand := []*ssa.Function{}
	for _, fn := range e.p.Funcs {
		if fn.Parent() != nil || e.p.InTest(fn) {
			continue
		}
		if o := fn.Object(); o == nil || o.Exported() {
			continue
		}
		if len(sites[fn]) == 0 || e.addressTaken(fn) {
			continue
		}
		cand = append(cand, fn)
	}
	// optimistic start: top (all facts) is represented by nil; iterate downwards
	top := map[*ssa.Function]bool{}
	for _, fn := range cand {
		top[fn] = true
	}
	for iter := 0; iter < 12; iter++ {
		changed := false
		e.flows = map[*ssa.Function]*ssau.FactFlow{}
		for _, fn := range cand {
			var acc ssau.FactSet
			first := true
			for _, s := range sites[fn] {
				if top[s.caller] {
					continue // caller's own precondition still unknown (optimistic)
				}
				facts := e.flow(s.caller).At(s.call)
				tr := e.translate(facts, s.call, fn)
				if first {
					acc = tr
					first = false
				} else {
					for f := range acc {
						if !tr[f] {
							delete(acc, f)
						}
					}
				}
			}
			if first {
				continue // only called from still-top callers
			}
			old := e.pre[fn]
			if top[fn] || len(old) != len(acc) {
				top[fn] = false
				e.pre[fn] = acc
				changed = true
			}
		}
		if !changed {
			break
		}
	}
	for _, fn := range cand {
		if top[fn] {
			e.pre[fn] = nil
		}
	}
	e.flows = map[*ssa.Function]*ssau.FactFlow{}
}

func (e *nilEngine) addressTaken(fn *ssa.Function) bool {
	refs := fn.Referrers()
	if refs == nil {
		return false
	}
	for _, r := range *refs {
		ci, ok := r.(ssa.CallInstruction)
		if !ok || ci.Common().Value != fn {
			return true
		}
	}
	return false
}

// translate rewrites caller facts rooted at an argument into the callee's
// parameter names; only reader-state facts are kept.
func (e *nilEngine) translate(facts ssau.FactSet, call ssa.CallInstruction, callee *ssa.Function) ssau.FactSet {
	out := ssau.FactSet{}
	args := call.Common().Args
	if call.Common().IsInvoke() {
		args = append([]ssa.Value{call.Common().Value}, args...)
	}
	for f := range facts {
		if !(strings.Contains(f.Path, ".IsNull()") || strings.Contains(f.Path, ".IntSize()")) {
			continue
		}
		for i, a := range args {
			if i >= len(callee.Params) {
				break
			}
			ap := ssau.Path(a)
			if ssau.IsUnique(ap) || strings.HasPrefix(ap, "k:") {
				continue
			}
			if strings.HasPrefix(f.Path, ap+"^") || strings.HasPrefix(f.Path, ap+".") {
				np := "p." + callee.Params[i].Name() + f.Path[len(ap):]
				out[ssau.Fact{Kind: f.Kind, Path: np, Arg: f.Arg}] = true
			}
		}
	}
	return out
}

// guarded: is a dereference of source value v (from accessor call c) safe at instr?
func (e *nilEngine) guarded(fn *ssa.Function, v ssa.Value, c *ssa.Call, at ssa.Instruction) (string, bool) {
	facts := e.flow(fn).At(at)
	if facts.Has("nonnil", ssau.Path(v), "") {
		return "g1: value tested non-nil", true
	}
	rp := receiverPath(c)
	if rp != "" {
		if facts.Has("false", rp+".IsNull()", "") {
			if e.pre[fn].Has("false", rp+".IsNull()", "") {
				return "g3: reader known non-null at every call site of " + e.p.FuncName(fn), true
			}
			return "g2: reader.IsNull() tested false, no reader step in between", true
		}
		for f := range facts {
			if f.Kind == "eq" && f.Path == rp+".IntSize()#0" && strings.HasPrefix(f.Arg, "k:") && f.Arg != sprintf("k:%d", e.nullInt) {
				return "g4: IntSize() equals a non-null size", true
			}
		}
	}
	return "", false
}

func receiverPath(c *ssa.Call) string {
	cc := c.Common()
	if cc.IsInvoke() {
		p := ssau.Path(cc.Value)
		if ssau.IsUnique(p) {
			return ""
		}
		return p
	}
	if cc.StaticCallee() != nil && cc.StaticCallee().Signature.Recv() != nil && len(cc.Args) > 0 {
		p := strings.TrimPrefix(ssau.Path(cc.Args[0]), "&")
		if ssau.IsUnique(p) {
			return ""
		}
		return p
	}
	return ""
}

// derefs lists the instructions that dereference pointer/interface value v
// (directly or through phis): loads, field addresses, stores through it,
// method invokes on it.
func derefsOf(v ssa.Value) []ssa.Instruction {
	var out []ssa.Instruction
	seen := map[ssa.Value]bool{}
	var walk func(x ssa.Value)
	walk = func(x ssa.Value) {
		if seen[x] {
			return
		}
		seen[x] = true
		refs := x.Referrers()
		if refs == nil {
			return
		}
		for _, r := range *refs {
			switch i := r.(type) {
			case *ssa.UnOp:
				if i.Op == token.MUL && i.X == x {
					out = append(out, i)
				}
			case *ssa.FieldAddr:
				if i.X == x {
					out = append(out, i)
				}
			case *ssa.IndexAddr:
				if i.X == x {
					out = append(out, i)
				}
			case *ssa.Store:
				if i.Addr == x {
					out = append(out, i)
				}
			case ssa.CallInstruction:
				if i.Common().IsInvoke() && i.Common().Value == x {
					out = append(out, i)
				}
			case *ssa.Phi:
				walk(i)
			}
		}
	}
	walk(v)
	sort.SliceStable(out, func(a, b int) bool { return out[a].Pos() < out[b].Pos() })
	return out
}

// computeDerefParams: parameter i of fn is dereferenced without a nil test.
func (e *nilEngine) computeDerefParams() {
	for _, fn := range e.p.Funcs {
		for i, par := range fn.Params {
			switch par.Type().Underlying().(type) {
			case *types.Pointer, *types.Interface:
			default:
				continue
			}
			ff := (*ssau.FactFlow)(nil)
			for _, d := range derefsOf(par) {
				if ff == nil {
					ff = ssau.ComputeFacts(fn, ssau.StoreKills)
				}
				if !ff.At(d).Has("nonnil", ssau.Path(par), "") {
					if e.derefP[fn] == nil {
						e.derefP[fn] = map[int]bool{}
					}
					e.derefP[fn][i] = true
					break
				}
			}
		}
	}
}

// NilAcc implements NIL-ACC.
func NilAcc(sc Scope, min int) func(p *load.Program) *report.RuleResult {
	return func(p *load.Program) *report.RuleResult {
		r := newResult("NIL-ACC", "a pointer obtained from an accessor that returns (nil, nil) for a typed null is dereferenced only where it is known non-nil ("+sc.Name+")", min)
		e := nilEngineOf(p)
		var srcNames []string
		for f := range e.mayNil {
			srcNames = append(srcNames, p.FuncName(f))
		}
		sort.Strings(srcNames)
		r.Infof("sources (functions with a (nil, nil) return path, computed): %s", strings.Join(srcNames, ", "))
		var preNames []string
		for f, fs := range e.pre {
			if len(fs) > 0 {
				preNames = append(preNames, p.FuncName(f))
			}
		}
		sort.Strings(preNames)
		r.Infof("functions with inferred non-null-reader precondition: %s", strings.Join(preNames, ", "))
		for _, fn := range p.Funcs {
			if !sc.has(p, fn) {
				continue
			}
			name := p.FuncName(fn)
			for _, b := range fn.Blocks {
				for _, in := range b.Instrs {
					ex, ok := in.(*ssa.Extract)
					if !ok {
						continue
					}
					c := e.sourceOf(ex)
					if c == nil {
						continue
					}
					src := calleeShort(p, c)
					for _, d := range derefsOf(ex) {
						what := "dereference of " + src + " result"
						key := name + "|" + what
						if by, ok := e.guarded(fn, ex, c, d); ok {
							r.Add(report.Obligation{Key: key, Func: name, Pos: instrPos(p, d), What: what, Status: report.Discharged, By: by})
						} else {
							r.Add(report.Obligation{Key: key, Func: name, Pos: instrPos(p, d), What: what, Status: report.Violation,
								Detail: src + " returns (nil, nil) for a typed null; this dereference is not dominated by a nil test of the value, by reader.IsNull()==false, by an inferred non-null precondition, or by IntSize()!=NullInt"})
						}
					}
				}
			}
		}
		return r
	}
}

func calleeShort(p *load.Program, c *ssa.Call) string {
	cc := c.Common()
	if cc.IsInvoke() {
		return ssau.TypeName(cc.Value.Type()) + "." + cc.Method.Name()
	}
	if sc := cc.StaticCallee(); sc != nil {
		return p.FuncName(load.Unwrap(sc))
	}
	return cc.Value.Name()
}

// NilArg implements NIL-ARG.
func NilArg(sc Scope, min int) func(p *load.Program) *report.RuleResult {
	return func(p *load.Program) *report.RuleResult {
		r := newResult("NIL-ARG", "a possibly-nil accessor result is not passed to a callee that dereferences that parameter unguarded ("+sc.Name+")", min)
		e := nilEngineOf(p)
		for _, fn := range p.Funcs {
			if !sc.has(p, fn) {
				continue
			}
			name := p.FuncName(fn)
			for _, b := range fn.Blocks {
				for _, in := range b.Instrs {
					ex, ok := in.(*ssa.Extract)
					if !ok {
						continue
					}
					c := e.sourceOf(ex)
					if c == nil || ex.Referrers() == nil {
						continue
					}
					src := calleeShort(p, c)
					for _, ref := range *ex.Referrers() {
						ci, ok := ref.(ssa.CallInstruction)
						if !ok {
							continue
						}
						cc := ci.Common()
						args := cc.Args
						if cc.IsInvoke() {
							args = append([]ssa.Value{cc.Value}, args...)
						}
						for ai, a := range args {
							if a != ex {
								continue
							}
							if cc.IsInvoke() && ai == 0 {
								continue // a method invoke on the value is a NIL-ACC dereference
							}
							bad := ""
							callees := p.Callees(ci)
							for _, cf := range callees {
								if e.derefP[cf][ai] {
									bad = p.FuncName(cf)
									break
								}
								if !p.InModule(cf) && cf.Signature.Recv() != nil && ai == 0 {
									// pointer-receiver method of an external type (big.Int, …)
									bad = cf.String()
									break
								}
							}
							if bad == "" {
								continue
							}
							what := "passes " + src + " result to " + calleeNames(p, ci)
							key := name + "|" + what
							if by, ok := e.guarded(fn, ex, c, ci); ok {
								r.Add(report.Obligation{Key: key, Func: name, Pos: instrPos(p, ci), What: what, Status: report.Discharged, By: by})
							} else {
								r.Add(report.Obligation{Key: key, Func: name, Pos: instrPos(p, ci), What: what, Status: report.Violation,
									Detail: "the callee " + bad + " dereferences that parameter without a nil test, and " + src + " returns nil for a typed null"})
							}
						}
					}
				}
			}
		}
		return r
	}
}

// NilField implements NIL-FIELD: SymbolToken.Text / SymbolToken.Source.
func NilField(sc Scope, min int) func(p *load.Program) *report.RuleResult {
	return func(p *load.Program) *report.RuleResult {
		r := newResult("NIL-FIELD", "the pointer fields documented as nil-if-unknown (SymbolToken.Text, SymbolToken.Source, ImportSource fields) are dereferenced only under a nil test of the same access path ("+sc.Name+")", min)
		e := nilEngineOf(p)
		for _, fn := range p.Funcs {
			if !sc.has(p, fn) {
				continue
			}
			name := p.FuncName(fn)
			var ff *ssau.FactFlow
			for _, b := range fn.Blocks {
				for _, in := range b.Instrs {
					var v ssa.Value
					switch x := in.(type) {
					case *ssa.UnOp:
						if x.Op != token.MUL {
							continue
						}
						if tn, fl, ok := ssau.FieldOf(x.X); ok && tn == "SymbolToken" && (fl == "Text" || fl == "Source") {
							v = x
						}
					case *ssa.Field:
						if tn, fl, ok := ssau.FieldOf(x); ok && tn == "SymbolToken" && (fl == "Text" || fl == "Source") {
							v = x
						}
					}
					if v == nil {
						continue
					}
					_, fl, _ := fieldOfValue(v)
					for _, d := range derefsOf(v) {
						if ff == nil {
							ff = ssau.ComputeFacts(fn, e.kill)
						}
						what := "dereference of SymbolToken." + fl
						key := name + "|" + what
						if ff.At(d).Has("nonnil", ssau.Path(v), "") {
							r.Add(report.Obligation{Key: key, Func: name, Pos: instrPos(p, d), What: what, Status: report.Discharged, By: "same access path tested non-nil"})
						} else {
							r.Add(report.Obligation{Key: key, Func: name, Pos: instrPos(p, d), What: what, Status: report.Violation,
								Detail: "SymbolToken." + fl + " is nil when the text/source is unknown; this dereference of " + ssau.Path(v) + " is not dominated by a nil test of that path"})
						}
					}
				}
			}
		}
		return r
	}
}

func fieldOfValue(v ssa.Value) (string, string, bool) {
	switch x := v.(type) {
	case *ssa.UnOp:
		return ssau.FieldOf(x.X)
	case *ssa.Field:
		return ssau.FieldOf(x)
	}
	return "", "", false
}
