package rules

import (
	"go/token"
	"go/types"
	"math/big"
	"strings"

	"golang.org/x/tools/go/ssa"

	"verif/checker/internal/load"
	"verif/checker/internal/report"
	"verif/checker/internal/ssau"
)

// A panicReq is one range requirement of a function: it panics unless the
// integer expression expr satisfies `kind k` (ge/gt/le/lt a constant).
type panicReq struct {
	expr ssa.Value
	kind string
	k    *big.Int
	pos  token.Pos
}

var panicReqCache = map[*ssa.Function][]panicReq{}

// panicReqs extracts, from `if cond { panic(...) }` shapes, the comparisons
// with constants that must hold for f not to panic.
func panicReqs(f *ssa.Function) []panicReq {
	if r, ok := panicReqCache[f]; ok {
		return r
	}
	var out []panicReq
	endsInPanic := func(b *ssa.BasicBlock) bool {
		if len(b.Instrs) == 0 {
			return false
		}
		_, ok := b.Instrs[len(b.Instrs)-1].(*ssa.Panic)
		return ok
	}
	for _, b := range f.Blocks {
		if len(b.Instrs) == 0 || len(b.Succs) != 2 {
			continue
		}
		ifi, ok := b.Instrs[len(b.Instrs)-1].(*ssa.If)
		if !ok {
			continue
		}
		for si := 0; si < 2; si++ {
			if !endsInPanic(b.Succs[si]) || endsInPanic(b.Succs[1-si]) {
				continue
			}
			// the facts of the other edge are what a non-panicking run satisfies
			bo, ok := ifi.Cond.(*ssa.BinOp)
			if !ok {
				continue
			}
			for _, fct := range ssau.CondFacts(ifi.Cond, si != 0) {
				if !strings.HasPrefix(fct.Arg, "k:") || fct.Path != ssau.Path(bo.X) {
					continue
				}
				k, okk := new(big.Int).SetString(strings.TrimPrefix(fct.Arg, "k:"), 10)
				if !okk {
					continue
				}
				switch fct.Kind {
				case "ge", "gt", "le", "lt":
					if _, isInt := typeRange(bo.X.Type()); isInt {
						out = append(out, panicReq{bo.X, fct.Kind, k, b.Succs[si].Instrs[len(b.Succs[si].Instrs)-1].Pos()})
					}
				}
			}
		}
	}
	panicReqCache[f] = out
	return out
}

// evalInCaller computes the interval of a callee expression as seen at a call
// site: parameters are replaced by the arguments, fields of (pointer)
// parameters by what the caller's facts say about the same field of the
// argument, and every sub-expression is also refined by caller facts on the
// substituted path. Returns the interval and the substituted (conversion-free) path.
func evalInCaller(env *intervalEnv, callee *ssa.Function, args []ssa.Value, v ssa.Value, facts ssau.FactSet, depth int) (ival, string, bool) {
	tr, ok := typeRange(v.Type())
	if !ok || depth > 8 {
		return ival{}, "", false
	}
	paramIndex := func(p *ssa.Parameter) int {
		for i, q := range callee.Params {
			if q == p {
				return i
			}
		}
		return -1
	}
	r, path := tr, ""
	switch x := v.(type) {
	case *ssa.Const:
		cr, _ := env.rangeOf(x, nil, map[ssa.Value]bool{}, 0)
		return cr, ssau.Path(x), true
	case *ssa.Parameter:
		i := paramIndex(x)
		if i < 0 || i >= len(args) {
			return ival{}, "", false
		}
		ar, ok := env.rangeOf(args[i], facts, map[ssa.Value]bool{}, 0)
		if !ok {
			return ival{}, "", false
		}
		return ar, stripConv(ssau.Path(args[i])), true
	case *ssa.Convert:
		xr, xp, ok := evalInCaller(env, callee, args, x.X, facts, depth+1)
		if !ok {
			return ival{}, "", false
		}
		if xr.within(tr) {
			r = xr
		}
		path = xp
	case *ssa.UnOp:
		if x.Op == token.MUL {
			// load of a field of a parameter
			if fa, isFA := x.X.(*ssa.FieldAddr); isFA {
				if prm, isP := fa.X.(*ssa.Parameter); isP {
					i := paramIndex(prm)
					if i >= 0 && i < len(args) {
						_, fname, _ := ssau.FieldOf(fa)
						ap := stripConv(ssau.Path(args[i]))
						if strings.HasPrefix(ap, "&") {
							path = ap[1:] + "." + fname
						} else {
							path = ap + "^." + fname
						}
						break
					}
				}
			}
			return ival{}, "", false
		}
		if x.Op == token.SUB {
			xr, xp, ok := evalInCaller(env, callee, args, x.X, facts, depth+1)
			if !ok {
				return ival{}, "", false
			}
			n := ival{new(big.Int).Neg(xr.hi), new(big.Int).Neg(xr.lo)}
			if n.within(tr) {
				r = n
			}
			path = "-" + xp
			break
		}
		return ival{}, "", false
	case *ssa.BinOp:
		xr, xp, okx := evalInCaller(env, callee, args, x.X, facts, depth+1)
		yr, yp, oky := evalInCaller(env, callee, args, x.Y, facts, depth+1)
		if !okx || !oky {
			return ival{}, "", false
		}
		if br, ok := binopRange(x.Op, xr, yr, tr); ok && br.within(tr) {
			r = br
		}
		path = "(" + xp + x.Op.String() + yp + ")"
		if x.Op == token.SUB {
			// a dominating comparison of the two operands orders the difference
			for f := range facts {
				a, b := stripConv(f.Path), stripConv(f.Arg)
				lo := int64(-1)
				switch {
				case a == yp && b == xp && f.Kind == "lt", a == xp && b == yp && f.Kind == "gt":
					lo = 1
				case a == yp && b == xp && f.Kind == "le", a == xp && b == yp && f.Kind == "ge":
					lo = 0
				}
				if lo >= 0 && r.lo.Cmp(bi(lo)) < 0 {
					r = ival{bi(lo), r.hi}
				}
			}
		}
	default:
		return ival{}, "", false
	}
	if path != "" {
		r = env.refinePath(path, r, facts)
	}
	return r, path, true
}

// OwnPanicAPI implements OWN-PANICAPI.
func OwnPanicAPI(sc Scope, min int) func(p *load.Program) *report.RuleResult {
	return func(p *load.Program) *report.RuleResult {
		r := newResult("OWN-PANICAPI", "every call made in the "+sc.Name+" to a module function that panics when an integer expression over its parameters leaves a range (Decimal.Mul/ShiftL/ShiftR/Truncate/upscale: exponent out of bounds, negative rescale) establishes that range first: the expression, evaluated with the arguments and with what the caller knows at the call, lies inside it", min)
		for _, fn := range sortedFuncs(p) {
			if !sc.has(p, fn) || len(fn.Blocks) == 0 {
				continue
			}
			var env *intervalEnv
			for _, b := range fn.Blocks {
				for _, in := range b.Instrs {
					c, ok := in.(ssa.CallInstruction)
					if !ok {
						continue
					}
					callee := c.Common().StaticCallee()
					if callee == nil || !p.InModule(callee) || len(callee.Blocks) == 0 || callee == fn {
						continue
					}
					reqs := panicReqs(callee)
					if len(reqs) == 0 {
						continue
					}
					if env == nil {
						env = newIntervalEnv(p, fn)
					}
					facts := env.ff.At(in)
					name := p.FuncName(fn)
					for _, rq := range reqs {
						what := sprintf("call of %s: %s %s %s", p.FuncName(callee), cleanPath(stripConv(ssau.Path(rq.expr))), rq.kind, rq.k)
						er, _, ok := evalInCaller(env, callee, c.Common().Args, rq.expr, facts, 0)
						if !ok {
							r.Bad(name, instrPos(p, in), what, "the callee panics outside this range and the expression cannot be evaluated at this call site")
							continue
						}
						holds := false
						switch rq.kind {
						case "ge":
							holds = er.lo.Cmp(rq.k) >= 0
						case "gt":
							holds = er.lo.Cmp(rq.k) > 0
						case "le":
							holds = er.hi.Cmp(rq.k) <= 0
						case "lt":
							holds = er.hi.Cmp(rq.k) < 0
						}
						// an exported function of the value types that hands its documented range
						// panic to an unexported helper (func boundedScale(int64) int32) still panics
						// by its own contract: the obligation lies with the callers of the exported
						// function, not with the delegation
						delegated := false
						if o, ok := fn.Object().(*types.Func); ok && o.Exported() && (callee.Object() == nil || !callee.Object().Exported()) {
							file := p.File(fn.Pos())
							delegated = strings.HasSuffix(file, "decimal.go") || strings.HasSuffix(file, "timestamp.go")
						}
						if holds {
							r.OK(name, instrPos(p, in), what, "the expression is within "+er.String()+" at this call")
						} else if delegated {
							r.OK(name, instrPos(p, in), what, "the range panic is this exported function's own contract, delegated to an unexported helper")
						} else {
							r.Bad(name, instrPos(p, in), what, sprintf("the callee panics (%s) unless this holds, and at this call the expression can be anywhere in %s: input that reaches this call with an extreme value crashes the reader", p.Pos(rq.pos), er))
						}
					}
				}
			}
		}
		return r
	}
}
