package rules

import (
	"go/types"
	"strings"

	"golang.org/x/tools/go/ssa"

	"verif/checker/internal/load"
	"verif/checker/internal/report"
	"verif/checker/internal/ssau"
)

// TabBudget implements TAB-BUDGET: every value decoder of the bitstream, and
// the value skipper, consumes exactly the declared length of the current
// value: the byte budget handed to the primitive readers is the load of b.len.
func TabBudget(p *load.Program) *report.RuleResult {
	r := newResult("TAB-BUDGET", "in the exported Read*/SkipValue methods of the bitstream every byte budget handed to a primitive reader (readN, readDecimal, readVarUintLen, readVarIntLen, readBigInt, skip) is the declared length of the current value (b.len, or what is left of it after the parts already read), so reading a value and skipping it end at the same byte", 8)
	prim := map[string]bool{"readN": true, "readDecimal": true, "readVarUintLen": true, "readVarIntLen": true, "readBigInt": true, "skip": true, "readNsecs": true}
	n := 0
	for _, fn := range sortedFuncs(p) {
		if p.InTest(fn) || recvTypeName(fn) != "bitstream" || fn.Object() == nil || !fn.Object().Exported() {
			continue
		}
		if !strings.HasPrefix(fn.Name(), "Read") && fn.Name() != "SkipValue" {
			continue
		}
		name := p.FuncName(fn)
		for _, b := range fn.Blocks {
			for _, in := range b.Instrs {
				c, ok := in.(*ssa.Call)
				if !ok {
					continue
				}
				f := c.Call.StaticCallee()
				if f == nil || recvTypeName(f) != "bitstream" || !prim[f.Name()] || len(c.Call.Args) < 2 {
					continue
				}
				arg := c.Call.Args[1]
				if bt, isB := arg.Type().Underlying().(*types.Basic); !isB || bt.Kind() != types.Uint64 {
					continue
				}
				n++
				what := "budget of " + f.Name()
				if derivesFromLen(arg, 0) {
					r.OK(name, instrPos(p, c), what, "the declared length b.len (minus what was already consumed)")
				} else {
					r.Bad(name, instrPos(p, c), what, "the budget "+cleanPath(ssau.Path(arg))+" is not derived from the declared length of the current value: the decoder can stop short of, or run past, the end of the value that SkipValue and the container accounting assume")
				}
			}
		}
	}
	if n < 8 {
		missing(r, "primitive reads in bitstream.Read*/SkipValue", sprintf("found %d, expected at least 8", n))
	}
	return r
}

// derivesFromLen: v is b.len, or b.len (or such a value) minus lengths already consumed.
func derivesFromLen(v ssa.Value, depth int) bool {
	return derivesFromLenSeen(v, depth, map[ssa.Value]bool{})
}

func derivesFromLenSeen(v ssa.Value, depth int, seen map[ssa.Value]bool) bool {
	if depth > 12 {
		return false
	}
	if seen[v] {
		return true // a loop-carried remainder: decided by its other edges
	}
	if strings.HasSuffix(ssau.Path(v), "^.len") || strings.HasSuffix(ssau.Path(v), ".len") {
		return true
	}
	switch x := v.(type) {
	case *ssa.BinOp:
		if x.Op.String() == "-" {
			return derivesFromLenSeen(x.X, depth+1, seen)
		}
	case *ssa.Phi:
		seen[v] = true
		for _, e := range x.Edges {
			if !derivesFromLenSeen(e, depth+1, seen) {
				return false
			}
		}
		return true
	case *ssa.Extract:
		// a declared sub-length read with a budget that itself derives from the declared length
		if c, ok := x.Tuple.(*ssa.Call); ok && x.Index == 0 {
			if f := c.Call.StaticCallee(); f != nil && f.Name() == "readVarUintLen" && len(c.Call.Args) >= 2 {
				return derivesFromLenSeen(c.Call.Args[1], depth+1, seen)
			}
		}
	case *ssa.Call:
		// remaining(): what is left of the enclosing container
		if f := x.Call.StaticCallee(); f != nil && f.Name() == "remaining" {
			return true
		}
	}
	return false
}

// OwnFixedLST implements OWN-FIXEDLST: with a fixed symbol table the binary
// writer refuses text the table does not define.
func OwnFixedLST(p *load.Program) *report.RuleResult {
	r := newResult("OWN-FIXEDLST", "binaryWriter.resolveFromSymbolTable: on the path where the writer has a fixed symbol table (w.lst != nil) and the text is not found in it, a non-nil error is returned — the ID of an undefined symbol is never invented", 1)
	fn := methodByName(p, "binaryWriter", "resolveFromSymbolTable")
	if fn == nil {
		missing(r, "binaryWriter.resolveFromSymbolTable", "not found")
		return r
	}
	ff := ssau.ComputeFacts(fn, ssau.StoreKills)
	ei := errResultIndex(fn)
	// the comma-ok results of FindByName lookups in this function
	okPaths := map[string]bool{}
	for _, b := range fn.Blocks {
		for _, in := range b.Instrs {
			if c, ok := in.(*ssa.Call); ok && c.Call.IsInvoke() && c.Call.Method.Name() == "FindByName" {
				okPaths[ssau.Path(c)+"#1"] = true
			}
		}
	}
	n := 0
	for _, ret := range returns(fn) {
		fs := ff.At(ret)
		fixed, notFound := false, false
		for f := range fs {
			if f.Kind == "nonnil" && strings.HasSuffix(f.Path, ".lst") {
				fixed = true
			}
			if f.Kind == "false" && (strings.Contains(f.Path, "FindByName") || okPaths[f.Path]) {
				notFound = true
			}
		}
		if !fixed || !notFound {
			continue
		}
		n++
		if definitelyNonNilError(p, ret.Results[ei], 0) {
			r.OK(p.FuncName(fn), instrPos(p, ret), "text not defined by the fixed table", "returns a non-nil error")
		} else {
			r.Bad(p.FuncName(fn), instrPos(p, ret), "text not defined by the fixed table", "this exit can return a nil error: an ID is written for text that the writer's fixed symbol table does not define, and no reader of the stream can resolve it")
		}
	}
	if n == 0 {
		missing(r, "exit of resolveFromSymbolTable for text missing from a fixed table", "no return is dominated by w.lst != nil and FindByName == false")
	}
	return r
}

// TabReflectSet implements TAB-REFLECTSET: under v.Type() == <type variable
// for T> a reflective Set stores a value of exactly type T.
func TabReflectSet(p *load.Program) *report.RuleResult {
	r := newResult("TAB-REFLECTSET", "in unmarshal.go every v.Set(reflect.ValueOf(e)) that is dominated by v.Type() == <type variable initialised as reflect.TypeOf(T{})> stores an e whose static type is exactly T (reflect panics on any other type)", 2)
	gl := reflectTypeGlobals(p)
	byPath := map[string]types.Type{}
	for g, t := range gl {
		byPath[strings.TrimPrefix(ssau.Path(g), "&")] = t
	}
	n := 0
	for _, fn := range sortedFuncs(p) {
		if p.InTest(fn) || !strings.HasSuffix(p.File(fn.Pos()), "/unmarshal.go") {
			continue
		}
		var ff *ssau.FactFlow
		for _, b := range fn.Blocks {
			for _, in := range b.Instrs {
				c, ok := in.(*ssa.Call)
				if !ok {
					continue
				}
				f := c.Call.StaticCallee()
				if f == nil || f.Pkg == nil || f.Pkg.Pkg.Path() != "reflect" || f.Name() != "Set" || len(c.Call.Args) != 2 {
					continue
				}
				vo, ok := c.Call.Args[1].(*ssa.Call)
				if !ok || vo.Call.StaticCallee() == nil || vo.Call.StaticCallee().Name() != "ValueOf" {
					continue
				}
				mi, ok := vo.Call.Args[0].(*ssa.MakeInterface)
				if !ok {
					continue
				}
				if ff == nil {
					ff = ssau.ComputeFacts(fn, ssau.StoreKills)
				}
				vp := strings.TrimPrefix(ssau.Path(c.Call.Args[0]), "&")
				var want types.Type
				for fct := range ff.At(c) {
					if fct.Kind != "eq" {
						continue
					}
					for _, pr := range [][2]string{{fct.Path, fct.Arg}, {fct.Arg, fct.Path}} {
						if pr[0] == vp+".Type()" {
							if t, ok := byPath[pr[1]]; ok {
								want = t
							}
						}
					}
				}
				if want == nil {
					continue
				}
				n++
				what := "Set under Type() == " + types.TypeString(want, shortQual)
				if types.Identical(mi.X.Type(), want) {
					r.OK(p.FuncName(fn), instrPos(p, c), what, "the stored value has exactly that type")
				} else {
					r.Bad(p.FuncName(fn), instrPos(p, c), what, "the stored value has type "+types.TypeString(mi.X.Type(), shortQual)+": reflect.Value.Set panics (value of that type is not assignable to the target)")
				}
			}
		}
	}
	if n < 2 {
		missing(r, "identity-guarded reflective Set calls in unmarshal.go", sprintf("found %d", n))
	}
	return r
}
