package rules

import (
	"go/constant"
	"go/token"
	"go/types"
	"math/big"
	"sort"
	"strings"

	"golang.org/x/tools/go/ssa"

	"verif/checker/internal/load"
	"verif/checker/internal/report"
	"verif/checker/internal/ssau"
)

// Rules written after the second round of seeded changes. Each is phrased over
// roles (a flag constant ORed onto a payload, a float compared with zero on
// the output side, the coefficient of a Decimal that carries a negative-zero
// flag, ...), not over the seeded edit that showed the clause to be checkable.

// ---------------------------------------------------------------------------
// NUM-FLAGOR

// NumFlagOr implements NUM-FLAGOR: a constant with the top bit of a byte set
// (the end bit of VarUInt/VarInt, the sign+end bits of a one-byte VarInt) that
// is ORed onto a computed value never overlaps that value's bits.
func NumFlagOr(sc Scope, min int) func(p *load.Program) *report.RuleResult {
	return func(p *load.Program) *report.RuleResult {
		r := newResult("NUM-FLAGOR", "in the "+sc.Name+", wherever a constant with bit 7 set (the end bit of a VarUInt/VarInt octet, alone or with a sign bit) is ORed onto a computed byte, the interval of that byte lies below the constant's lowest set bit: the flag never collides with payload bits, so a one-octet field is written only for values that fit beside the flag", min)
		for _, fn := range sortedFuncs(p) {
			if !sc.has(p, fn) || len(fn.Blocks) == 0 {
				continue
			}
			var env *intervalEnv
			for _, b := range fn.Blocks {
				for _, in := range b.Instrs {
					bo, ok := in.(*ssa.BinOp)
					if !ok || bo.Op != token.OR {
						continue
					}
					var k int64
					var x ssa.Value
					if c, ok := ssau.ConstInt(bo.X); ok {
						k, x = c, bo.Y
					} else if c, ok := ssau.ConstInt(bo.Y); ok {
						k, x = c, bo.X
					} else {
						continue
					}
					if _, isC := x.(*ssa.Const); isC || k&0x80 == 0 || k > 0xff {
						continue
					}
					if env == nil {
						env = newIntervalEnv(p, fn)
					}
					env.notes = map[string]bool{}
					low := k & -k
					xr, okx := env.rangeOf(x, env.ff.At(bo), map[ssa.Value]bool{}, 0)
					what := sprintf("%#x | %s", k, describeOperand(x))
					name := p.FuncName(fn)
					if okx && xr.lo.Sign() >= 0 && xr.hi.Cmp(big.NewInt(low)) < 0 {
						r.OK(name, instrPos(p, bo), what, sprintf("payload interval %s lies below the flag's lowest bit %#x (%s)", xr, low, noteText(env.notes)))
						continue
					}
					r.Bad(name, instrPos(p, bo), what, sprintf("payload interval %s can reach the flag's lowest bit %#x: the flag and the value share a bit, so a value that does not fit beside the flag is written as a different one", xr, low))
				}
			}
		}
		return r
	}
}

// ---------------------------------------------------------------------------
// NUM-ZEROSIGN

// isSignbitOf reports whether v is (a negation chain over) math.Signbit(x).
func isSignbitOf(v ssa.Value, x ssa.Value) bool {
	for {
		u, ok := v.(*ssa.UnOp)
		if !ok || u.Op != token.NOT {
			break
		}
		v = u.X
	}
	c, ok := v.(*ssa.Call)
	if !ok {
		return false
	}
	f := c.Call.StaticCallee()
	if f == nil || f.Pkg == nil || f.Pkg.Pkg.Path() != "math" || f.Name() != "Signbit" || len(c.Call.Args) != 1 {
		return false
	}
	return ssau.Path(c.Call.Args[0]) == ssau.Path(x)
}

// branchDecidedBy: the block whose If is decided by v, and the successor index taken when v has the
// value pol, following v through negations, comparisons with a boolean constant and phis (where v is
// one incoming value). (nil, -1) when v does not reach exactly one such branch.
func branchDecidedBy(v ssa.Value, pol bool, depth int) (*ssa.BasicBlock, int) {
	if depth == 0 || v.Referrers() == nil {
		return nil, -1
	}
	var blk *ssa.BasicBlock
	succ := -1
	n := 0
	for _, r := range *v.Referrers() {
		var b2 *ssa.BasicBlock
		s2 := -1
		switch x := r.(type) {
		case *ssa.If:
			b2, s2 = x.Block(), map[bool]int{true: 0, false: 1}[pol]
		case *ssa.UnOp:
			if x.Op == token.NOT {
				b2, s2 = branchDecidedBy(x, !pol, depth-1)
			}
		case *ssa.Phi:
			b2, s2 = branchDecidedBy(x, pol, depth-1)
		case *ssa.BinOp:
			o, k := x.X, x.Y
			if _, isC := o.(*ssa.Const); isC {
				o, k = k, o
			}
			kc, isC := k.(*ssa.Const)
			if o == v && isC && kc.Value != nil && kc.Value.Kind() == constant.Bool && (x.Op == token.EQL || x.Op == token.NEQ) {
				np := pol
				if (x.Op == token.EQL) != constant.BoolVal(kc.Value) {
					np = !pol
				}
				b2, s2 = branchDecidedBy(x, np, depth-1)
			}
		}
		if b2 != nil {
			n++
			blk, succ = b2, s2
		}
	}
	if n != 1 {
		return nil, -1
	}
	return blk, succ
}

// feedsBranch: v reaches the condition of an If through negations, phis and
// comparisons with a boolean constant only.
func feedsBranch(v ssa.Value, depth int) bool {
	if depth == 0 || v.Referrers() == nil {
		return false
	}
	for _, r := range *v.Referrers() {
		switch x := r.(type) {
		case *ssa.If:
			return true
		case *ssa.UnOp:
			if x.Op == token.NOT && feedsBranch(x, depth-1) {
				return true
			}
		case *ssa.Phi:
			if feedsBranch(x, depth-1) {
				return true
			}
		case *ssa.BinOp:
			_, cx := x.X.(*ssa.Const)
			_, cy := x.Y.(*ssa.Const)
			if (x.Op == token.EQL || x.Op == token.NEQ) && (cx || cy) && feedsBranch(x, depth-1) {
				return true
			}
		}
	}
	return false
}

// blockTestsOnly: the block computes nothing with an effect and ends in an If
// whose condition satisfies pred.
func blockIfCond(b *ssa.BasicBlock) ssa.Value {
	if len(b.Instrs) == 0 {
		return nil
	}
	if i, ok := b.Instrs[len(b.Instrs)-1].(*ssa.If); ok {
		return i.Cond
	}
	return nil
}

// NumZeroSign implements NUM-ZEROSIGN: on the output side a float is never
// classified as "zero" by == alone, because -0.0 == 0 is true in Go and the
// two zeros are different Ion values.
func NumZeroSign(sc Scope, min int) func(p *load.Program) *report.RuleResult {
	return func(p *load.Program) *report.RuleResult {
		r := newResult("NUM-ZEROSIGN", "in the "+sc.Name+", wherever a float64 is compared with the constant 0, the outcome \"equal\" is taken together with a math.Signbit test of the same value (either the comparison is reached only after such a test or the equal edge leads straight to one): -0.0 == 0 holds in Go, so == alone would give negative zero the encoding of positive zero", min)
		for _, fn := range sortedFuncs(p) {
			if !sc.has(p, fn) || len(fn.Blocks) == 0 {
				continue
			}
			for _, b := range fn.Blocks {
				for _, in := range b.Instrs {
					bo, ok := in.(*ssa.BinOp)
					if !ok || (bo.Op != token.EQL && bo.Op != token.NEQ) {
						continue
					}
					bt, ok := bo.X.Type().Underlying().(*types.Basic)
					if !ok || bt.Info()&types.IsFloat == 0 {
						continue
					}
					var x ssa.Value
					isZero := func(v ssa.Value) bool {
						c, ok := v.(*ssa.Const)
						return ok && c.Value != nil && (c.Value.Kind() == constant.Float || c.Value.Kind() == constant.Int) && constant.Sign(c.Value) == 0
					}
					switch {
					case isZero(bo.Y):
						x = bo.X
					case isZero(bo.X):
						x = bo.Y
					default:
						continue
					}
					name := p.FuncName(fn)
					what := sprintf("%s %s 0 (float)", describeOperand(x), bo.Op)
					// (i) the comparison is dominated by a Signbit test of the same value
					ok1 := false
					for d := b.Idom(); d != nil && !ok1; d = d.Idom() {
						if c := blockIfCond(d); c != nil && isSignbitOf(c, x) {
							ok1 = true
						}
					}
					if c := blockIfCond(b); c != nil && !ok1 {
						// (ii) the equal edge leads straight to a Signbit test
						if c == ssa.Value(bo) {
							si := 0
							if bo.Op == token.NEQ {
								si = 1
							}
							t := b.Succs[si]
							if tc := blockIfCond(t); tc != nil && isSignbitOf(tc, x) {
								ok1 = true
							}
							// (iii) the value form of "x == 0 && Signbit(x)" (a case of a tagless
							// switch, an assignment to a bool): the equal edge computes Signbit(x)
							// and the merged value decides a branch
							for _, ti := range t.Instrs {
								if v, isV := ti.(ssa.Value); isV && isSignbitOf(v, x) && feedsBranch(v, 4) {
									ok1 = true
								}
							}
						}
					}
					if ok1 {
						r.OK(name, instrPos(p, bo), what, "the equal outcome is combined with math.Signbit of the same value")
					} else {
						r.Bad(name, instrPos(p, bo), what, "no math.Signbit test of this value accompanies the comparison: -0.0 takes the branch of +0.0 and is written as positive zero")
					}
				}
			}
		}
		return r
	}
}

// ---------------------------------------------------------------------------
// ORD-DECSIGN

// decimalOfCoef returns the access path of the Decimal whose coefficient v is
// (a load of its field n, or result #0 of its CoEx()), or "".
func decimalOfCoef(v ssa.Value) string {
	switch x := v.(type) {
	case *ssa.UnOp:
		if x.Op == token.MUL {
			if fa, ok := x.X.(*ssa.FieldAddr); ok && fieldName2(fa) == "n" && ssau.TypeName(fa.X.Type()) == "Decimal" {
				return ssau.Path(fa.X)
			}
		}
	case *ssa.Extract:
		if c, ok := x.Tuple.(*ssa.Call); ok && x.Index == 0 {
			if f := c.Call.StaticCallee(); f != nil && f.Name() == "CoEx" && recvTypeName(f) == "Decimal" && len(c.Call.Args) > 0 {
				return ssau.Path(c.Call.Args[0])
			}
		}
	}
	return ""
}

func fieldName2(fa *ssa.FieldAddr) string {
	st, ok := ssau.Deref(fa.X.Type()).Underlying().(*types.Struct)
	if !ok || fa.Field >= st.NumFields() {
		return ""
	}
	return st.Field(fa.Field).Name()
}

// OrdDecSign implements ORD-DECSIGN.
func OrdDecSign(p *load.Program) *report.RuleResult {
	r := newResult("ORD-DECSIGN", "a function that distinguishes negative zero (it reads Decimal.isNegZero) never decides the sign of that Decimal from an order test of its coefficient (n.Sign() < 0, > 0, >= 0, <= 0, == -1, == 1) at a point where isNegZero may still be true: the coefficient of -0 is 0, so such a test gives negative zero the layout of a non-negative number", 2)
	for _, fn := range sortedFuncs(p) {
		if !ScopeIon.has(p, fn) || len(fn.Blocks) == 0 {
			continue
		}
		reads := false
		for _, b := range fn.Blocks {
			for _, in := range b.Instrs {
				if fa, ok := in.(*ssa.FieldAddr); ok && fieldName2(fa) == "isNegZero" {
					for _, ref := range *fa.Referrers() {
						if u, ok := ref.(*ssa.UnOp); ok && u.Op == token.MUL {
							reads = true
						}
					}
				}
			}
		}
		if !reads {
			continue
		}
		name := p.FuncName(fn)
		var ff *ssau.FactFlow
		bad := ""
		n := 0
		for _, b := range fn.Blocks {
			for _, in := range b.Instrs {
				bo, ok := in.(*ssa.BinOp)
				if !ok {
					continue
				}
				var call *ssa.Call
				var k int64
				if c, ok := bo.X.(*ssa.Call); ok {
					if kk, ok := ssau.ConstInt(bo.Y); ok {
						call, k = c, kk
					}
				}
				if call == nil {
					continue
				}
				f := call.Call.StaticCallee()
				if f == nil || f.Name() != "Sign" || f.Pkg == nil || f.Pkg.Pkg.Path() != "math/big" || len(call.Call.Args) == 0 {
					continue
				}
				dec := decimalOfCoef(call.Call.Args[0])
				if dec == "" {
					continue
				}
				n++
				order := bo.Op == token.LSS || bo.Op == token.GTR || bo.Op == token.LEQ || bo.Op == token.GEQ || ((bo.Op == token.EQL || bo.Op == token.NEQ) && k != 0)
				if !order {
					continue
				}
				if ff == nil {
					ff = ssau.ComputeFacts(fn, ssau.StoreKills)
				}
				if _, ok := ff.At(bo).Any("false", func(f ssau.Fact) bool {
					return strings.HasPrefix(f.Path, dec) && strings.HasSuffix(f.Path, ".isNegZero")
				}); ok {
					continue
				}
				bad = sprintf("%s: the sign of %s is decided from its coefficient (Sign() %s %d) where isNegZero may be true", instrPos(p, bo), dec, bo.Op, k)
			}
		}
		what := "sign decisions from the coefficient where negative zero is distinguished"
		if bad == "" {
			r.OK(name, p.Pos(fn.Pos()), what, sprintf("%d test(s) of the coefficient's sign, none an order test reachable with isNegZero possibly true", n))
		} else {
			r.Bad(name, p.Pos(fn.Pos()), what, bad+": for -0 the coefficient is 0, so the text or encoding of negative zero is laid out as for a non-negative value")
		}
	}
	return r
}

// ---------------------------------------------------------------------------
// NUM-BIGDIV

// NumBigDiv implements NUM-BIGDIV: the exact decimal operations divide with
// truncation toward zero (Quo/Rem/QuoRem); Euclidean division (Div/Mod/DivMod)
// differs from it for negative dividends.
func NumBigDiv(sc Scope, min int) func(p *load.Program) *report.RuleResult {
	return func(p *load.Program) *report.RuleResult {
		r := newResult("NUM-BIGDIV", "every big.Int division in the "+sc.Name+" is the truncating kind (Quo, Rem, QuoRem) or has a dividend that is the result of Abs: Euclidean Div/Mod/DivMod round a negative quotient away from zero, which is not what Truncate, ShiftR and rounding are specified to do", min)
		for _, fn := range sortedFuncs(p) {
			if !sc.has(p, fn) || len(fn.Blocks) == 0 {
				continue
			}
			for _, b := range fn.Blocks {
				for _, in := range b.Instrs {
					c, ok := in.(ssa.CallInstruction)
					if !ok {
						continue
					}
					f := c.Common().StaticCallee()
					if f == nil || f.Pkg == nil || f.Pkg.Pkg.Path() != "math/big" || recvTypeName(f) != "Int" {
						continue
					}
					name := p.FuncName(fn)
					switch f.Name() {
					case "Quo", "Rem", "QuoRem":
						r.OK(name, instrPos(p, in), "big.Int."+f.Name(), "truncating division")
					case "Div", "Mod", "DivMod":
						args := c.Common().Args
						okAbs := false
						if len(args) >= 2 {
							if dc, ok := args[1].(*ssa.Call); ok {
								if df := dc.Call.StaticCallee(); df != nil && df.Name() == "Abs" {
									okAbs = true
								}
							}
						}
						if okAbs {
							r.OK(name, instrPos(p, in), "big.Int."+f.Name(), "the dividend is the result of Abs")
						} else {
							r.Bad(name, instrPos(p, in), "big.Int."+f.Name(), "Euclidean division of a dividend that may be negative: -1234/100 gives -13 where truncation gives -12")
						}
					}
				}
			}
		}
		return r
	}
}

// ---------------------------------------------------------------------------
// TAB-INTSIZE

// TabIntSize implements TAB-INTSIZE: under each case of a switch over
// Reader.IntSize() the accessor called is wide enough for that case.
func TabIntSize(p *load.Program) *report.RuleResult {
	r := newResult("TAB-INTSIZE", "wherever the result of Reader.IntSize() selects how an int is read, the accessor reached while the size may be Int64 is Int64Value or BigIntValue and the one reached while it may be BigInt is BigIntValue: IntValue refuses everything outside int32 and Int64Value everything outside int64, so a narrower accessor turns a valid value into an error", 2)
	_, byName := namedConstsOf(p, "IntSize")
	if len(byName) == 0 {
		missing(r, "IntSize", "constants not found")
		return r
	}
	width := map[string]int{"IntValue": 1, "Int64Value": 2, "BigIntValue": 3}
	rank := map[string]int{"NullInt": 0, "Int32": 1, "Int64": 2, "BigInt": 3}
	byVal := map[string]string{}
	for n, v := range byName {
		byVal[sprintf("%d", v)] = n
	}
	for _, fn := range sortedFuncs(p) {
		if p.InTest(fn) || len(fn.Blocks) == 0 {
			continue
		}
		var sizeV ssa.Value
		for _, b := range fn.Blocks {
			for _, in := range b.Instrs {
				if c, ok := in.(*ssa.Call); ok && c.Call.IsInvoke() && c.Call.Method.Name() == "IntSize" {
					for _, ref := range *c.Referrers() {
						if e, ok := ref.(*ssa.Extract); ok && e.Index == 0 {
							sizeV = e
						}
					}
				}
			}
		}
		if sizeV == nil {
			continue
		}
		ef := ssau.TrackEnum(fn, func(v ssa.Value) bool { return v == sizeV })
		name := p.FuncName(fn)
		for _, b := range fn.Blocks {
			for _, in := range b.Instrs {
				c, ok := in.(*ssa.Call)
				if !ok || !c.Call.IsInvoke() {
					continue
				}
				w, isAcc := width[c.Call.Method.Name()]
				if !isAcc || !ssau.Reaches(sizeV.(ssa.Instruction).Block(), b) {
					continue
				}
				vs, known := ef.At(c)
				what := sprintf("%s where the size is %s", c.Call.Method.Name(), vs)
				maxRank := 3
				if known && vs.Known() {
					maxRank = 0
					for _, v := range vs.Values() {
						if rk, ok := rank[byVal[v]]; ok && rk > maxRank {
							maxRank = rk
						} else if !ok {
							maxRank = 3
						}
					}
				} else {
					// excluded values only
					ex := map[string]bool{}
					for _, v := range vs.Excluded() {
						ex[byVal[v]] = true
					}
					for maxRank > 0 {
						nm := ""
						for n, rk := range rank {
							if rk == maxRank {
								nm = n
							}
						}
						if !ex[nm] {
							break
						}
						maxRank--
					}
				}
				if w >= maxRank {
					r.OK(name, instrPos(p, c), what, "the accessor covers every size that can reach it")
				} else {
					r.Bad(name, instrPos(p, c), what, "the accessor is narrower than a size that reaches it: a valid int of that size is answered with a \"too large\" error")
				}
			}
		}
	}
	return r
}

// ---------------------------------------------------------------------------
// TAB-OPENFLAGS

// TabOpenFlags implements TAB-OPENFLAGS: an output file is opened so that what
// is written is all it contains.
func TabOpenFlags(p *load.Program) *report.RuleResult {
	r := newResult("TAB-OPENFLAGS", "every os.OpenFile in the command that can write (O_WRONLY or O_RDWR) and creates the file passes O_TRUNC, O_APPEND or O_EXCL: without one of them an existing longer file keeps its tail after the new output, which is then not the document the command produced", 1)
	bits := map[string]int64{}
	for _, pk := range p.Prog.AllPackages() {
		if pk.Pkg.Path() == "os" {
			for _, n := range []string{"O_WRONLY", "O_RDWR", "O_CREATE", "O_TRUNC", "O_APPEND", "O_EXCL"} {
				if c, ok := pk.Members[n].(*ssa.NamedConst); ok {
					if v, ok := constant.Int64Val(c.Value.Value); ok {
						bits[n] = v
					}
				}
			}
		}
	}
	if len(bits) != 6 {
		missing(r, "os.O_* constants", "not found")
		return r
	}
	for _, fn := range sortedFuncs(p) {
		if !ScopeCmd.has(p, fn) || len(fn.Blocks) == 0 {
			continue
		}
		for _, b := range fn.Blocks {
			for _, in := range b.Instrs {
				c, ok := in.(*ssa.Call)
				if !ok {
					continue
				}
				f := c.Call.StaticCallee()
				if f == nil || f.Pkg == nil || f.Pkg.Pkg.Path() != "os" || f.Name() != "OpenFile" || len(c.Call.Args) < 2 {
					continue
				}
				name := p.FuncName(fn)
				k, ok := ssau.ConstInt(c.Call.Args[1])
				if !ok {
					r.Unknown(name, instrPos(p, c), "os.OpenFile flags", "the flag argument is not a constant")
					continue
				}
				what := sprintf("os.OpenFile flags %#x", k)
				if k&(bits["O_WRONLY"]|bits["O_RDWR"]) == 0 || k&bits["O_CREATE"] == 0 {
					r.OK(name, instrPos(p, c), what, "not a creating open for writing")
					continue
				}
				if k&(bits["O_TRUNC"]|bits["O_APPEND"]|bits["O_EXCL"]) != 0 {
					r.OK(name, instrPos(p, c), what, "truncates, appends or refuses an existing file")
				} else {
					r.Bad(name, instrPos(p, c), what, "creates and writes without O_TRUNC/O_APPEND/O_EXCL: the tail of a longer existing file survives after the new output")
				}
			}
		}
	}
	return r
}

// ---------------------------------------------------------------------------
// OWN-PARAMUSED

// OwnParamUsed implements OWN-PARAMUSED: an exported constructor or entry
// point does not ignore one of its named parameters.
func OwnParamUsed(p *load.Program) *report.RuleResult {
	r := newResult("OWN-PARAMUSED", "every named parameter of an exported function or method of package ion is used by its body (has at least one referrer in SSA): a catalog, symbol table list, option set or destination that is accepted and then dropped makes the call behave as if the caller had not passed it", 80)
	for _, fn := range sortedFuncs(p) {
		if !ScopeIon.has(p, fn) || len(fn.Blocks) == 0 || fn.Parent() != nil || fn.Synthetic != "" {
			continue
		}
		obj, ok := fn.Object().(*types.Func)
		if !ok || !obj.Exported() {
			continue
		}
		if recv := fn.Signature.Recv(); recv != nil {
			if n := ssau.NamedOf(recv.Type()); n == nil || !n.Obj().Exported() {
				// methods of unexported types are reached through interfaces; their
				// parameter lists are fixed by the interface
				continue
			}
		}
		name := p.FuncName(fn)
		for i, prm := range fn.Params {
			if fn.Signature.Recv() != nil && i == 0 {
				continue
			}
			if prm.Name() == "_" || prm.Name() == "" {
				continue
			}
			what := "parameter " + prm.Name()
			if len(*prm.Referrers()) > 0 {
				r.OK(name, p.Pos(prm.Pos()), what, "used")
			} else {
				r.Bad(name, p.Pos(prm.Pos()), what, "accepted and never used: the call behaves as if the argument had not been passed")
			}
		}
	}
	return r
}

// ---------------------------------------------------------------------------
// ORD-SEPSTATE

// OrdSepState implements ORD-SEPSTATE for the text writer.
func OrdSepState(p *load.Program) *report.RuleResult {
	r := newResult("ORD-SEPSTATE", "the text writer forgets that a separator is owed (stores false to needsSeparator) only in a function that, on the same path, writes to the output: either the store is reached only after an output write or every path from the store to a return passes one; a reset without output lets the next value be written directly against the previous one", 2)
	tw := p.Type(p.Ion, "textWriter")
	if tw == nil {
		missing(r, "textWriter", "type not found")
		return r
	}
	isOutWrite := func(in ssa.Instruction) bool {
		c, ok := in.(ssa.CallInstruction)
		if !ok {
			return false
		}
		for _, a := range c.Common().Args {
			if strings.HasSuffix(ssau.Path(a), ".out") && ssau.TypeName(a.Type()) == "Writer" {
				return true
			}
		}
		return false
	}
	found := false
	for _, fn := range sortedFuncs(p) {
		if !ScopeIon.has(p, fn) || len(fn.Blocks) == 0 || recvTypeName(fn) != "textWriter" {
			continue
		}
		for _, b := range fn.Blocks {
			for _, in := range b.Instrs {
				st, ok := in.(*ssa.Store)
				if !ok {
					continue
				}
				fa, ok := st.Addr.(*ssa.FieldAddr)
				if !ok || fieldName2(fa) != "needsSeparator" {
					continue
				}
				found = true
				c, ok := st.Val.(*ssa.Const)
				if ok && c.Value != nil && constant.BoolVal(c.Value) {
					continue
				}
				name := p.FuncName(fn)
				what := "needsSeparator = " + describeOperand(st.Val)
				// (a) every path from the entry to the store passes an output write
				if !ssau.ReachesAvoiding(fn, st, isOutWrite, nil) {
					r.OK(name, instrPos(p, st), what, "reached only after an output write")
					continue
				}
				// (b) every path from the store to a return passes an output write
				if ret := ssau.EscapesWithout(st, isOutWrite, nil); ret == nil {
					r.OK(name, instrPos(p, st), what, "every path from here to a return writes to the output")
					continue
				}
				r.Bad(name, instrPos(p, st), what, "a path through this store writes nothing to the output: the pending separator is forgotten and the next top-level value is written directly after the previous one (1 then 2 becomes 12)")
			}
		}
	}
	if !found {
		missing(r, "textWriter.needsSeparator", "no store to this field found")
	}
	return r
}

// ---------------------------------------------------------------------------
// ORD-EXACTFIRST

func isBackEdge(from, to *ssa.BasicBlock) bool { return to.Dominates(from) }

// OrdExactFirst implements ORD-EXACTFIRST: a case-insensitive field match is
// never returned before every candidate has been tried for an exact match.
func OrdExactFirst(p *load.Program) *report.RuleResult {
	r := newResult("ORD-EXACTFIRST", "where Unmarshal selects a Go struct field by strings.EqualFold, a fold match does not end the search within the same iteration (no return is reachable from the match without going round the loop) unless the whole candidate list was compared exactly (==) before: with fields \"Name\" and \"name\" the exact one must win whatever the declaration order, or Marshal and Unmarshal disagree on which field a name denotes", 1)
	for _, fn := range sortedFuncs(p) {
		if !ScopeIon.has(p, fn) || len(fn.Blocks) == 0 {
			continue
		}
		for _, b := range fn.Blocks {
			for _, in := range b.Instrs {
				c, ok := in.(*ssa.Call)
				if !ok {
					continue
				}
				f := c.Call.StaticCallee()
				if f == nil || f.Pkg == nil || f.Pkg.Pkg.Path() != "strings" || f.Name() != "EqualFold" {
					continue
				}
				name := p.FuncName(fn)
				what := sprintf("strings.EqualFold(%s, %s)", describeOperand(c.Call.Args[0]), describeOperand(c.Call.Args[1]))
				// the successor taken when the fold test holds: `if c`, `if !c`, and the value forms
				// (`true == c`, `a && c` merged in a phi) that a tagless switch case compiles to
				ifBlock, matchSucc := branchDecidedBy(c, true, 5)
				if matchSucc < 0 {
					r.Unknown(name, instrPos(p, c), what, "the result does not directly control a branch")
					continue
				}
				// is there an earlier, completed exact-match loop?
				exactBefore := false
				for _, b2 := range fn.Blocks {
					for _, in2 := range b2.Instrs {
						bo, ok := in2.(*ssa.BinOp)
						if !ok || bo.Op != token.EQL || !types.Identical(bo.X.Type().Underlying(), types.Typ[types.String]) {
							continue
						}
						sameArg := false
						for _, a := range c.Call.Args {
							if ssau.Path(a) == ssau.Path(bo.X) || ssau.Path(a) == ssau.Path(bo.Y) {
								sameArg = true
							}
						}
						inSameLoop := ssau.Reaches(b2, b) && ssau.Reaches(b, b2)
						if sameArg && !inSameLoop && ssau.Reaches(b2, b) {
							// every path to the fold test passes the exact loop's header
							for d := b.Idom(); d != nil; d = d.Idom() {
								if ssau.Reaches(d, b2) && ssau.Reaches(b2, d) {
									exactBefore = true
								}
							}
						}
					}
				}
				if exactBefore {
					r.OK(name, instrPos(p, c), what, "an exact comparison loop over the candidates completes before this test")
					continue
				}
				// immediate return from the match?
				start := ifBlock.Succs[matchSucc].Instrs[0]
				var hit *ssa.Return
				if rt, ok := start.(*ssa.Return); ok {
					hit = rt
				} else {
					hit = ssau.EscapesWithout(start, func(ssa.Instruction) bool { return false }, func(bb *ssa.BasicBlock, si int) bool { return isBackEdge(bb, bb.Succs[si]) })
				}
				if hit == nil {
					r.OK(name, instrPos(p, c), what, "a fold match is only remembered; the search goes on round the loop, so a later exact match still wins")
				} else {
					r.Bad(name, instrPos(p, c), what, sprintf("a fold match reaches the return at %s within the same iteration and no exact pass precedes it: with fields named \"Name\" and \"name\" the first declared is chosen for both", instrPos(p, hit)))
				}
			}
		}
	}
	return r
}

// ---------------------------------------------------------------------------
// OWN-STOPCHAR

// OwnStopChar implements OWN-STOPCHAR.
func OwnStopChar(p *load.Program) *report.RuleResult {
	r := newResult("OWN-STOPCHAR", "the free function isStopChar knows nothing about comments; every function that calls it also tests the character against '/' itself (as the tokenizer method of the same name does): a value may be followed directly by // or /* */, so a caller that relies on the free function alone rejects valid text", 2)
	target := p.Func(nil, "isStopChar")
	if target == nil {
		missing(r, "isStopChar", "function not found")
		return r
	}
	for _, fn := range sortedFuncs(p) {
		if !ScopeIon.has(p, fn) || len(fn.Blocks) == 0 || fn == target {
			continue
		}
		for _, b := range fn.Blocks {
			for _, in := range b.Instrs {
				c, ok := in.(ssa.CallInstruction)
				if !ok || load.Unwrap(c.Common().StaticCallee()) != target {
					continue
				}
				name := p.FuncName(fn)
				if constsComparedIn(fn, isIntConst)["47"] {
					r.OK(name, instrPos(p, in), "call of the comment-blind isStopChar", "the caller compares with '/' itself")
				} else {
					r.Bad(name, instrPos(p, in), "call of the comment-blind isStopChar", "the caller never looks for '/', so a value directly followed by a comment (2001T//x) is rejected")
				}
			}
		}
	}
	return r
}

// ---------------------------------------------------------------------------
// TAB-WSSET

// TabWSSet implements TAB-WSSET.
func TabWSSet(sc Scope, min int) func(p *load.Program) *report.RuleResult {
	return func(p *load.Program) *report.RuleResult {
		r := newResult("TAB-WSSET", "every function of the "+sc.Name+" that recognises whitespace by comparing a character with ' ' and with another whitespace character compares it with all of space, tab and line feed (carriage return is folded to line feed by read): Ion text allows each of them wherever it allows one", min)
		ws := map[string]string{"32": "' '", "9": "'\\t'", "10": "'\\n'", "13": "'\\r'"}
		for _, fn := range sortedFuncs(p) {
			if !sc.has(p, fn) || len(fn.Blocks) == 0 {
				continue
			}
			cs := constsComparedIn(fn, isIntConst)
			n := 0
			for k := range ws {
				if cs[k] {
					n++
				}
			}
			if !cs["32"] || n < 2 {
				continue
			}
			var miss []string
			for _, k := range []string{"32", "9", "10"} {
				if !cs[k] {
					miss = append(miss, ws[k])
				}
			}
			name := p.FuncName(fn)
			if len(miss) == 0 {
				r.OK(name, p.Pos(fn.Pos()), "whitespace set", "space, tab and line feed are all tested")
			} else {
				r.Bad(name, p.Pos(fn.Pos()), "whitespace set", "tests ' ' and another whitespace character but not "+strings.Join(miss, ", ")+": text using that character here is rejected or misread")
			}
		}
		return r
	}
}

// ---------------------------------------------------------------------------
// ORD-APPENDEACH

func reachesBlockAvoiding(start *ssa.BasicBlock, target *ssa.BasicBlock, stop func(ssa.Instruction) bool) bool {
	seen := map[*ssa.BasicBlock]bool{}
	work := []*ssa.BasicBlock{start}
	for len(work) > 0 {
		b := work[len(work)-1]
		work = work[:len(work)-1]
		if seen[b] {
			continue
		}
		seen[b] = true
		if b == target {
			return true
		}
		stopped := false
		for _, in := range b.Instrs {
			if stop(in) {
				stopped = true
				break
			}
		}
		if stopped {
			continue
		}
		work = append(work, b.Succs...)
	}
	return false
}

// OrdAppendEach implements ORD-APPENDEACH.
func OrdAppendEach(p *load.Program) *report.RuleResult {
	r := newResult("ORD-APPENDEACH", "the function that turns the symbols list of a local symbol table into the table's text slice appends exactly one entry per list element on every path round its Next loop, and lst.WriteTo writes exactly one list element per entry of the table's symbols: symbol IDs are positions, so an element that is skipped on either side (null, not a string, empty text) shifts every later ID by one", 2)
	n := 0
	for _, fn := range sortedFuncs(p) {
		if !ScopeLST.has(p, fn) || len(fn.Blocks) == 0 {
			continue
		}
		rs := fn.Signature.Results()
		if rs.Len() == 0 {
			continue
		}
		sl, ok := rs.At(0).Type().Underlying().(*types.Slice)
		if !ok || !types.Identical(sl.Elem().Underlying(), types.Typ[types.String]) {
			continue
		}
		isAppend := func(in ssa.Instruction) bool {
			if !ssau.IsBuiltinCall(in, "append") {
				return false
			}
			v := in.(ssa.Value)
			s, ok := v.Type().Underlying().(*types.Slice)
			return ok && types.Identical(s.Elem().Underlying(), types.Typ[types.String])
		}
		for _, b := range fn.Blocks {
			cond := blockIfCond(b)
			c, ok := cond.(*ssa.Call)
			if !ok || !c.Call.IsInvoke() || c.Call.Method.Name() != "Next" {
				continue
			}
			n++
			name := p.FuncName(fn)
			body := b.Succs[0]
			// the loop header is the block that computes Next(): c.Block()
			if reachesBlockAvoiding(body, c.Block(), isAppend) && body != c.Block() {
				r.Bad(name, instrPos(p, c), "one entry per element of the symbols list", "a path round the loop reaches the next element without appending: that element takes no symbol ID and every later symbol is off by one")
			} else {
				r.OK(name, instrPos(p, c), "one entry per element of the symbols list", "every path round the loop appends")
			}
		}
	}
	if n == 0 {
		missing(r, "symbols-list loop", "no function of readlocalsymboltable.go returning []string loops over Reader.Next")
	}
	// the writing side: lst.WriteTo emits one list element per entry of t.symbols
	if wt := p.Func(nil, "lst.WriteTo"); wt == nil {
		missing(r, "lst.WriteTo", "not found")
	} else {
		isWrite := func(in ssa.Instruction) bool {
			c, ok := in.(ssa.CallInstruction)
			return ok && c.Common().IsInvoke() && strings.HasPrefix(c.Common().Method.Name(), "Write")
		}
		m := 0
		closure := helperClosure(p, wt, func(f *ssa.Function) bool { return f.Object() == nil || !f.Object().Exported() }, 2)
		// is v the table's symbols: a load of the field, or a parameter of a helper that is passed one
		var isSymbols func(g *ssa.Function, v ssa.Value) bool
		isSymbols = func(g *ssa.Function, v ssa.Value) bool {
			if _, f, _, ok := fieldLoadExact(v); ok && f == "symbols" {
				return true
			}
			prm, ok := v.(*ssa.Parameter)
			if !ok {
				return false
			}
			idx := -1
			for k, q := range g.Params {
				if q == prm {
					idx = k
				}
			}
			for _, h := range closure {
				for _, hb := range h.Blocks {
					for _, hin := range hb.Instrs {
						if hc, ok := hin.(ssa.CallInstruction); ok && load.Unwrap(hc.Common().StaticCallee()) == g && idx >= 0 && idx < len(hc.Common().Args) {
							if _, f, _, ok := fieldLoadExact(hc.Common().Args[idx]); ok && f == "symbols" {
								return true
							}
						}
					}
				}
			}
			return false
		}
		for _, g := range closure {
			for _, b := range g.Blocks {
				for _, in := range b.Instrs {
					ph, ok := in.(*ssa.Phi)
					if !ok || ph.Comment != "rangeindex" || blockIfCond(b) == nil {
						continue
					}
					body := b.Succs[0]
					overSymbols := false
					for _, x := range body.Instrs {
						if ia, ok := x.(*ssa.IndexAddr); ok && isSymbols(g, ia.X) {
							overSymbols = true
						}
					}
					if !overSymbols {
						continue
					}
					m++
					if reachesBlockAvoiding(body, b, isWrite) {
						r.Bad(p.FuncName(g), instrPos(p, ph), "one list element per entry of symbols", "a path round the loop writes nothing for an entry: the emitted table is shorter than the one the writer numbers its symbols by, so every later ID denotes other text (or none) in the stream")
					} else {
						r.OK(p.FuncName(g), instrPos(p, ph), "one list element per entry of symbols", "every path round the loop writes a value")
					}
				}
			}
		}
		if m == 0 {
			missing(r, "loop over symbols in lst.WriteTo", "not found")
		}
	}
	return r
}

// ---------------------------------------------------------------------------
// TAB-LSTFIRSTANN

// TabLSTFirstAnn implements TAB-LSTFIRSTANN.
func TabLSTFirstAnn(p *load.Program) *report.RuleResult {
	r := newResult("TAB-LSTFIRSTANN", "the readers take a top-level struct for a local symbol table by the text of its first annotation only: every comparison of an annotation's text with \"$ion_symbol_table\" in the reader files addresses element 0 of the annotation slice", 1)
	nAnn := 0
	defer func() {
		if nAnn == 0 {
			missing(r, "comparison of an annotation with $ion_symbol_table", "none found in the reader files")
		}
	}()
	for _, fn := range sortedFuncs(p) {
		if !ScopeReader.has(p, fn) || len(fn.Blocks) == 0 {
			continue
		}
		for _, b := range fn.Blocks {
			for _, in := range b.Instrs {
				bo, ok := in.(*ssa.BinOp)
				if !ok || (bo.Op != token.EQL && bo.Op != token.NEQ) {
					continue
				}
				var other ssa.Value
				if s, ok := ssau.ConstString(bo.Y); ok && s == "$ion_symbol_table" {
					other = bo.X
				} else if s, ok := ssau.ConstString(bo.X); ok && s == "$ion_symbol_table" {
					other = bo.Y
				} else {
					continue
				}
				// other = *(*(&as[i].Text))
				ia := indexAddrUnder(other, 0)
				if ia == nil {
					continue
				}
				nAnn++
				name := p.FuncName(fn)
				what := "annotation compared with $ion_symbol_table: " + describeOperand(other)
				if k, ok := ssau.ConstInt(ia.Index); ok && k == 0 {
					r.OK(name, instrPos(p, bo), what, "element 0")
				} else {
					r.Bad(name, instrPos(p, bo), what, "the element compared is not fixed to index 0: a struct annotated a::$ion_symbol_table::{...} is user data, not a symbol table")
				}
			}
		}
	}
	return r
}

func indexAddrUnder(v ssa.Value, depth int) *ssa.IndexAddr {
	if depth > 6 {
		return nil
	}
	switch x := v.(type) {
	case *ssa.IndexAddr:
		return x
	case *ssa.UnOp:
		return indexAddrUnder(x.X, depth+1)
	case *ssa.FieldAddr:
		return indexAddrUnder(x.X, depth+1)
	case *ssa.Field:
		return indexAddrUnder(x.X, depth+1)
	case *ssa.Alloc:
		// a range variable spilled to a local: follow what is stored into it
		for _, ref := range *x.Referrers() {
			if st, ok := ref.(*ssa.Store); ok && st.Addr == ssa.Value(x) {
				if ia := indexAddrUnder(st.Val, depth+1); ia != nil {
					return ia
				}
			}
		}
	}
	return nil
}

var _ = sort.Strings

// ---------------------------------------------------------------------------
// ORD-BSCLEAR

// OrdBSClear implements ORD-BSCLEAR: the binary bitstream leaves a value
// (moves to a state in which no value is current) only together with clear().
func OrdBSClear(p *load.Program) *report.RuleResult {
	r := newResult("ORD-BSCLEAR", "every method of the binary bitstream that moves it to a state in which no value is current (any state other than bssOnValue/bssOnFieldID, including the computed stateAfterValue()) passes clear() — or a callee that always does, or at least a direct reset of code — on every path through that store to an exit that may succeed: code, null and len never describe a value the stream has already left, whichever way the caller navigated", 3)
	bs := p.Type(p.Ion, "bitstream")
	if bs == nil {
		missing(r, "bitstream", "type not found")
		return r
	}
	on := map[int64]bool{}
	for _, n := range []string{"bssOnValue", "bssOnFieldID"} {
		k, ok := constOf(p, n)
		if !ok {
			missing(r, n, "constant not found")
			return r
		}
		on[k] = true
	}
	clearFn := methodOf(p, bs, "clear")
	if clearFn == nil {
		missing(r, "bitstream.clear", "method not found")
		return r
	}
	must := map[*ssa.Function]int{} // 1 yes, 2 no, 3 busy
	var mustClear func(f *ssa.Function) bool
	var isClear func(in ssa.Instruction) bool
	isClear = func(in ssa.Instruction) bool {
		c, ok := in.(ssa.CallInstruction)
		if !ok {
			return false
		}
		f := load.Unwrap(c.Common().StaticCallee())
		if f == nil {
			return false
		}
		return f == clearFn || (recvTypeName(f) == "bitstream" && mustClear(f))
	}
	isClearOrCode := func(in ssa.Instruction) bool {
		// a direct reset of code (what Code() reports) counts as the minimal clear
		if st, ok := in.(*ssa.Store); ok {
			if fa, ok := st.Addr.(*ssa.FieldAddr); ok && fieldName2(fa) == "code" && ssau.TypeName(fa.X.Type()) == "bitstream" {
				return true
			}
		}
		return isClear(in)
	}
	mustClear = func(f *ssa.Function) bool {
		switch must[f] {
		case 1:
			return true
		case 2, 3:
			return false
		}
		must[f] = 3
		res := len(f.Blocks) > 0
		if res {
			ff := ssau.ComputeFacts(f, ssau.StoreKills)
			for _, ret := range returns(f) {
				if successExit(p, f, ret, ff) && ssau.ReachesAvoiding(f, ret, isClear, nil) {
					res = false
				}
			}
		}
		if res {
			must[f] = 1
		} else {
			must[f] = 2
		}
		return res
	}
	for _, fn := range sortedFuncs(p) {
		if !ScopeReader.has(p, fn) || len(fn.Blocks) == 0 || recvTypeName(fn) != "bitstream" || fn == clearFn {
			continue
		}
		var ff *ssau.FactFlow
		for _, b := range fn.Blocks {
			for _, in := range b.Instrs {
				st, ok := in.(*ssa.Store)
				if !ok {
					continue
				}
				fa, ok := st.Addr.(*ssa.FieldAddr)
				if !ok || fieldName2(fa) != "state" || ssau.TypeName(fa.X.Type()) != "bitstream" {
					continue
				}
				if k, ok := ssau.ConstInt(st.Val); ok && on[k] {
					continue
				}
				name := p.FuncName(fn)
				what := "state = " + describeOperand(st.Val)
				if ff == nil {
					ff = ssau.ComputeFacts(fn, ssau.StoreKills)
				}
				if !ssau.ReachesAvoiding(fn, st, isClearOrCode, nil) {
					r.OK(name, instrPos(p, st), what, "reached only after clear()")
					continue
				}
				// a success exit reachable from the store without clear()?
				bad := ""
				seen := map[*ssa.BasicBlock]bool{}
				type item struct {
					b *ssa.BasicBlock
					i int
				}
				work := []item{{st.Block(), ssau.InstrIndex(st) + 1}}
				for len(work) > 0 && bad == "" {
					cur := work[len(work)-1]
					work = work[:len(work)-1]
					stopped := false
					for i := cur.i; i < len(cur.b.Instrs); i++ {
						x := cur.b.Instrs[i]
						if isClearOrCode(x) {
							stopped = true
							break
						}
						if ret, ok := x.(*ssa.Return); ok && successExit(p, fn, ret, ff) {
							bad = instrPos(p, ret)
						}
					}
					if stopped {
						continue
					}
					for _, s := range cur.b.Succs {
						if !seen[s] {
							seen[s] = true
							work = append(work, item{s, 0})
						}
					}
				}
				if bad == "" {
					r.OK(name, instrPos(p, st), what, "every path from here to an exit that may succeed passes clear()")
				} else {
					r.Bad(name, instrPos(p, st), what, sprintf("the exit at %s is reached without clear(): Code(), IsNull() and Len() keep describing the value (or container) the stream has left, so what the reader reports next depends on how the caller navigated", bad))
				}
			}
		}
	}
	return r
}

// ---------------------------------------------------------------------------
// ORD-TOKFINISH

// OrdTokFinish implements ORD-TOKFINISH: the text reader starts a raw scan for
// the end of a container only when the tokenizer is not in the middle of a
// value.
func OrdTokFinish(p *load.Program) *report.RuleResult {
	r := newResult("ORD-TOKFINISH", "every call of tokenizer.SkipContainerContents (a character-level scan for the enclosing container's terminator that knows nothing about the token the tokenizer is positioned on) is reached only after a tokenizer call that consumes what is left of the current value (FinishValue, a Read*/skipValue; not SetFinished, which only flips the flag for stepping in) with no tokenizer.Next in between — or the scan itself starts with such a call: otherwise the brackets of a half-read child of a different container type end the scan early", 1)
	tk := p.Type(p.Ion, "tokenizer")
	if tk == nil {
		missing(r, "tokenizer", "type not found")
		return r
	}
	target := methodOf(p, tk, "SkipContainerContents")
	if target == nil {
		missing(r, "tokenizer.SkipContainerContents", "method not found")
		return r
	}
	isUnfinishedAddr := func(v ssa.Value) bool {
		fa, ok := v.(*ssa.FieldAddr)
		return ok && fieldName2(fa) == "unfinished" && ssau.TypeName(fa.X.Type()) == "tokenizer"
	}
	fin := map[*ssa.Function]int{}
	var finishes func(f *ssa.Function) bool
	isFinisher := func(in ssa.Instruction) bool {
		if st, ok := in.(*ssa.Store); ok && isUnfinishedAddr(st.Addr) {
			c, ok := st.Val.(*ssa.Const)
			return ok && c.Value != nil && !constant.BoolVal(c.Value)
		}
		if c, ok := in.(ssa.CallInstruction); ok {
			f := load.Unwrap(c.Common().StaticCallee())
			return f != nil && recvTypeName(f) == "tokenizer" && finishes(f)
		}
		return false
	}
	finishes = func(f *ssa.Function) bool {
		switch fin[f] {
		case 1:
			return true
		case 2, 3:
			return false
		}
		fin[f] = 3
		res := len(f.Blocks) > 0 && f.Signature.Recv() != nil
		// a method that only flips the flag (SetFinished, for stepping in) consumes
		// nothing: the rest of the value is still ahead in the input. A finisher
		// calls at least one other tokenizer method (which reads).
		if res {
			calls := false
			for _, b := range f.Blocks {
				for _, in := range b.Instrs {
					if c, ok := in.(ssa.CallInstruction); ok {
						if g := load.Unwrap(c.Common().StaticCallee()); g != nil && recvTypeName(g) == "tokenizer" {
							calls = true
						}
					}
				}
			}
			res = calls
		}
		if res {
			ff := ssau.ComputeFacts(f, ssau.StoreKills)
			recv := ssau.Path(f.Params[0])
			any := false
			for _, ret := range returns(f) {
				if !successExit(p, f, ret, ff) {
					continue
				}
				any = true
				if _, ok := ff.At(ret).Any("false", func(f ssau.Fact) bool {
					return strings.HasPrefix(f.Path, recv) && strings.HasSuffix(f.Path, ".unfinished")
				}); ok {
					continue
				}
				if ssau.ReachesAvoiding(f, ret, isFinisher, nil) {
					res = false
				}
			}
			if !any {
				res = false
			}
		}
		if res {
			fin[f] = 1
		} else {
			fin[f] = 2
		}
		return res
	}
	isUnfinisher := func(in ssa.Instruction) bool {
		c, ok := in.(ssa.CallInstruction)
		if !ok {
			return false
		}
		f := load.Unwrap(c.Common().StaticCallee())
		if f == nil || recvTypeName(f) != "tokenizer" || finishes(f) {
			return false
		}
		// may store true (or a non-constant) to unfinished, directly or through a callee
		seen := map[*ssa.Function]bool{}
		var may func(g *ssa.Function) bool
		may = func(g *ssa.Function) bool {
			if g == nil || seen[g] {
				return false
			}
			seen[g] = true
			for _, b := range g.Blocks {
				for _, x := range b.Instrs {
					if st, ok := x.(*ssa.Store); ok && isUnfinishedAddr(st.Addr) {
						if k, ok := st.Val.(*ssa.Const); !ok || k.Value == nil || constant.BoolVal(k.Value) {
							return true
						}
					}
					if cc, ok := x.(ssa.CallInstruction); ok {
						if h := load.Unwrap(cc.Common().StaticCallee()); h != nil && recvTypeName(h) == "tokenizer" && may(h) {
							return true
						}
					}
				}
			}
			return false
		}
		return may(f)
	}
	// the scan itself may start by finishing the value
	selfFinishing := func() bool {
		for _, b := range target.Blocks {
			for _, in := range b.Instrs {
				if isFinisher(in) {
					return dominatesAllCalls(in, target)
				}
			}
		}
		return false
	}()
	n := 0
	for _, fn := range sortedFuncs(p) {
		if !ScopeReader.has(p, fn) || len(fn.Blocks) == 0 || recvTypeName(fn) == "tokenizer" {
			continue
		}
		for _, b := range fn.Blocks {
			for _, in := range b.Instrs {
				c, ok := in.(ssa.CallInstruction)
				if !ok || load.Unwrap(c.Common().StaticCallee()) != target {
					continue
				}
				n++
				name := p.FuncName(fn)
				what := "call of tokenizer.SkipContainerContents"
				if selfFinishing {
					r.OK(name, instrPos(p, in), what, "the scan starts by finishing the current value itself")
					continue
				}
				if ssau.ReachesAvoiding(fn, in, isFinisher, nil) {
					r.Bad(name, instrPos(p, in), what, "reachable from the function's entry without a tokenizer call that finishes the current value: positioned on a child list inside a struct, the scan for '}' starts after the child's '[' and its ']' is taken for garbage, or a '}' inside the child ends the struct early")
					continue
				}
				bad := ""
				for _, b2 := range fn.Blocks {
					for _, in2 := range b2.Instrs {
						if isUnfinisher(in2) && reachesInstrAvoiding(in2, in, isFinisher) {
							bad = instrPos(p, in2)
						}
					}
				}
				if bad != "" {
					r.Bad(name, instrPos(p, in), what, "the tokenizer call at "+bad+" can leave a value unfinished and reaches the scan without a finishing call in between")
				} else {
					r.OK(name, instrPos(p, in), what, "every path to the scan passes a tokenizer call that leaves no value unfinished, with no token started afterwards")
				}
			}
		}
	}
	if n == 0 {
		missing(r, "call of tokenizer.SkipContainerContents outside the tokenizer", "not found")
	}
	return r
}

// dominatesAllCalls: in's block dominates every block of f that calls a module
// function, and in precedes such calls in its own block.
func dominatesAllCalls(in ssa.Instruction, f *ssa.Function) bool {
	ib := in.Block()
	idx := ssau.InstrIndex(in)
	for _, b := range f.Blocks {
		for i, x := range b.Instrs {
			c, ok := x.(ssa.CallInstruction)
			if !ok || x == in {
				continue
			}
			if c.Common().StaticCallee() == nil || c.Common().StaticCallee().Pkg != f.Pkg {
				continue
			}
			if b == ib {
				if i < idx {
					return false
				}
				continue
			}
			if !ib.Dominates(b) {
				return false
			}
		}
	}
	return true
}

// reachesInstrAvoiding: target is reachable from just after start without
// executing an instruction for which stop holds.
func reachesInstrAvoiding(start, target ssa.Instruction, stop func(ssa.Instruction) bool) bool {
	type item struct {
		b *ssa.BasicBlock
		i int
	}
	seen := map[*ssa.BasicBlock]bool{}
	work := []item{{start.Block(), ssau.InstrIndex(start) + 1}}
	for len(work) > 0 {
		cur := work[len(work)-1]
		work = work[:len(work)-1]
		stopped := false
		for i := cur.i; i < len(cur.b.Instrs); i++ {
			x := cur.b.Instrs[i]
			if x == target {
				return true
			}
			if stop(x) {
				stopped = true
				break
			}
		}
		if stopped {
			continue
		}
		for _, s := range cur.b.Succs {
			if !seen[s] {
				seen[s] = true
				work = append(work, item{s, 0})
			}
		}
	}
	return false
}

// ---------------------------------------------------------------------------
// TAB-ACCTYPE

// TabAccType implements TAB-ACCTYPE: a typed accessor of a Reader never
// answers without an error before it has looked at the type of the current
// value.
func TabAccType(p *load.Program) *report.RuleResult {
	r := newResult("TAB-ACCTYPE", "in every typed accessor of a Reader implementation (the methods named *Value and IntSize that return an error) no exit that may succeed is reachable from the entry without reading the current value's type (a load of the valueType field) or calling another typed accessor: an accessor that answers \"null\" or a default before checking the type turns a type error into a wrong value", 10)
	isAcc := func(name string) bool {
		return name == "IntSize" || (strings.HasSuffix(name, "Value") && name != "FinishValue")
	}
	want := map[string]bool{}
	for _, m := range ifaceMethods(p, "Reader", true) {
		if isAcc(m.Name()) {
			want[m.Name()] = true
		}
	}
	if len(want) == 0 {
		missing(r, "Reader", "no typed accessors found in the interface")
		return r
	}
	for _, fn := range sortedFuncs(p) {
		if !ScopeReader.has(p, fn) || len(fn.Blocks) == 0 || fn.Signature.Recv() == nil || !want[fn.Name()] || fn.Synthetic != "" {
			continue
		}
		ff := ssau.ComputeFacts(fn, ssau.StoreKills)
		consults := func(in ssa.Instruction) bool {
			switch x := in.(type) {
			case *ssa.UnOp:
				if fa, ok := x.X.(*ssa.FieldAddr); ok && x.Op == token.MUL && fieldName2(fa) == "valueType" {
					return true
				}
			case ssa.CallInstruction:
				cc := x.Common()
				if cc.IsInvoke() {
					return want[cc.Method.Name()]
				}
				if f := load.Unwrap(cc.StaticCallee()); f != nil && f.Signature.Recv() != nil && want[f.Name()] {
					return true
				}
			}
			return false
		}
		name := p.FuncName(fn)
		bad := ""
		for _, ret := range returns(fn) {
			if successExit(p, fn, ret, ff) && ssau.ReachesAvoiding(fn, ret, consults, nil) {
				bad = instrPos(p, ret)
			}
		}
		what := "type consulted before any successful answer"
		if bad == "" {
			r.OK(name, p.Pos(fn.Pos()), what, "every exit that may succeed lies behind a read of the value's type or another typed accessor")
		} else {
			r.Bad(name, p.Pos(fn.Pos()), what, sprintf("the exit at %s may succeed although the type of the current value was never read: a value of another type is answered without an error", bad))
		}
	}
	return r
}

// ---------------------------------------------------------------------------
// OWN-RESLICE0

// OwnReslice0 implements OWN-RESLICE0: s[:0] keeps s's backing array, so it
// must not be put where appends happen while the old contents are still held.
func OwnReslice0(sc Scope) func(p *load.Program) *report.RuleResult {
	return func(p *load.Program) *report.RuleResult {
		r := newResult("OWN-RESLICE0", "in the "+sc.Name+", a slice emptied by reslicing (s[:0], which keeps the backing array) is not stored into a field or global while a value read from the same place is still used afterwards: the next append through the field overwrites the elements the saved copy refers to (setting it aside needs nil or a copy)", 0)
		for _, fn := range sortedFuncs(p) {
			if !sc.has(p, fn) || len(fn.Blocks) == 0 {
				continue
			}
			for _, b := range fn.Blocks {
				for _, in := range b.Instrs {
					sl, ok := in.(*ssa.Slice)
					if !ok {
						continue
					}
					if _, isSlice := sl.X.Type().Underlying().(*types.Slice); !isSlice {
						continue
					}
					if k, ok := ssau.ConstInt(sl.High); !ok || k != 0 {
						continue
					}
					// stored to a field or global?
					var store *ssa.Store
					for _, ref := range *sl.Referrers() {
						if st, ok := ref.(*ssa.Store); ok && st.Val == ssa.Value(sl) {
							switch st.Addr.(type) {
							case *ssa.FieldAddr, *ssa.Global:
								store = st
							}
						}
					}
					name := p.FuncName(fn)
					what := describeOperand(sl.X) + "[:0]"
					if store == nil {
						r.OK(name, instrPos(p, sl), what, "the emptied slice stays local")
						continue
					}
					path := ssau.Path(sl.X)
					bad := ""
					for _, b2 := range fn.Blocks {
						for _, in2 := range b2.Instrs {
							v, ok := in2.(ssa.Value)
							if !ok || ssau.Path(v) != path || v.Referrers() == nil {
								continue
							}
							for _, ref := range *v.Referrers() {
								if ref == ssa.Instruction(sl) {
									continue
								}
								if _, ok := ref.(*ssa.DebugRef); ok {
									continue
								}
								if ssau.IsBuiltinCall(ref, "len") || ssau.IsBuiltinCall(ref, "cap") {
									continue
								}
								if reachesInstrAvoiding(store, ref, func(ssa.Instruction) bool { return false }) {
									bad = instrPos(p, ref)
								}
							}
						}
					}
					if bad == "" {
						r.OK(name, instrPos(p, sl), what, "nothing read from this place before the reslice is used after it")
					} else {
						r.Bad(name, instrPos(p, sl), what, "the old contents, read from the same place, are still used at "+bad+" after the emptied slice (same backing array) was stored: an append through the field in between overwrites them")
					}
				}
			}
		}
		return r
	}
}

// ---------------------------------------------------------------------------
// TAB-ESCRUNE

// TabEscRune implements TAB-ESCRUNE: the code point an escape denotes in a
// string or symbol is written as a code point.
func TabEscRune(p *load.Program) *report.RuleResult {
	r := newResult("TAB-ESCRUNE", "the rune that readEscapedChar returns for text that is not a clob (its mode argument is not the constant true) is never narrowed to a byte: in a string or symbol \\xHH denotes the code point U+00HH, which above 0x7F is two bytes of UTF-8; only in a clob does an escape denote one byte", 2)
	target := p.Func(nil, "tokenizer.readEscapedChar")
	if target == nil {
		missing(r, "tokenizer.readEscapedChar", "method not found")
		return r
	}
	for _, fn := range sortedFuncs(p) {
		if !ScopeText.has(p, fn) || len(fn.Blocks) == 0 {
			continue
		}
		for _, b := range fn.Blocks {
			for _, in := range b.Instrs {
				c, ok := in.(*ssa.Call)
				if !ok || load.Unwrap(c.Call.StaticCallee()) != target {
					continue
				}
				name := p.FuncName(fn)
				mode := c.Call.Args[len(c.Call.Args)-1]
				// the mode agrees with the kind of text the (outermost constant-passing) caller reads
				for _, rm := range resolveBoolArg(p, fn, mode, 0) {
					isClobFn := strings.Contains(strings.ToLower(rm.fn.Name()), "clob")
					what := "escape mode passed by " + p.FuncName(rm.fn)
					switch {
					case !rm.known:
						r.Unknown(p.FuncName(rm.fn), instrPos(p, rm.at), what, "the mode is not a constant at any caller within three levels")
					case rm.val == isClobFn:
						r.OK(p.FuncName(rm.fn), instrPos(p, rm.at), what, sprintf("mode %v in a function that reads %s", rm.val, map[bool]string{true: "a clob", false: "a string or symbol"}[isClobFn]))
					default:
						r.Bad(p.FuncName(rm.fn), instrPos(p, rm.at), what, sprintf("mode clob=%v is passed by a function that reads %s: \\u escapes are %s there and \\x above 7F is decoded by the wrong rule", rm.val, map[bool]string{true: "a clob", false: "a string or symbol"}[isClobFn], map[bool]string{false: "accepted although clobs forbid them", true: "refused although text allows them"}[rm.val]))
					}
				}
				if k, ok := mode.(*ssa.Const); ok && k.Value != nil && constant.BoolVal(k.Value) {
					r.OK(name, instrPos(p, c), "escape read in clob mode", "one byte per escape is the clob rule")
					continue
				}
				bad := ""
				var walk func(v ssa.Value, d int)
				walk = func(v ssa.Value, d int) {
					if d > 4 || v.Referrers() == nil {
						return
					}
					for _, ref := range *v.Referrers() {
						switch x := ref.(type) {
						case *ssa.Extract:
							if x.Index == 0 {
								walk(x, d+1)
							}
						case *ssa.Phi:
							walk(x, d+1)
						case *ssa.Convert:
							if tr, ok := typeRange(x.Type()); ok && tr.hi.Cmp(big.NewInt(0x10FFFF)) < 0 {
								bad = instrPos(p, x)
							}
						}
					}
				}
				walk(c, 0)
				if bad == "" {
					r.OK(name, instrPos(p, c), "escape read in text mode", "the rune is not narrowed")
				} else {
					r.Bad(name, instrPos(p, c), "escape read in text mode", "the code point is narrowed at "+bad+": \"\\xE9\" becomes the single byte E9, which is not UTF-8 for U+00E9")
				}
			}
		}
	}
	return r
}

type resolvedMode struct {
	fn    *ssa.Function
	at    ssa.Instruction
	val   bool
	known bool
}

// resolveBoolArg follows a bool argument back through parameters of module
// functions to the call sites that pass a constant.
func resolveBoolArg(p *load.Program, fn *ssa.Function, v ssa.Value, depth int) []resolvedMode {
	at := ssa.Instruction(nil)
	if len(fn.Blocks) > 0 && len(fn.Blocks[0].Instrs) > 0 {
		at = fn.Blocks[0].Instrs[0]
	}
	if k, ok := v.(*ssa.Const); ok && k.Value != nil && k.Value.Kind() == constant.Bool {
		return []resolvedMode{{fn, at, constant.BoolVal(k.Value), true}}
	}
	prm, ok := v.(*ssa.Parameter)
	if !ok || depth > 3 {
		return []resolvedMode{{fn, at, false, false}}
	}
	idx := -1
	for i, q := range fn.Params {
		if q == prm {
			idx = i
		}
	}
	var out []resolvedMode
	for _, caller := range sortedFuncs(p) {
		if p.InTest(caller) {
			continue
		}
		for _, b := range caller.Blocks {
			for _, in := range b.Instrs {
				c, ok := in.(ssa.CallInstruction)
				if !ok || load.Unwrap(c.Common().StaticCallee()) != fn || idx >= len(c.Common().Args) {
					continue
				}
				for _, rm := range resolveBoolArg(p, caller, c.Common().Args[idx], depth+1) {
					if rm.fn == caller {
						rm.at = in
					}
					out = append(out, rm)
				}
			}
		}
	}
	if len(out) == 0 {
		return []resolvedMode{{fn, at, false, false}}
	}
	return out
}

// ---------------------------------------------------------------------------
// OWN-ENCPURE

// OwnEncPure implements OWN-ENCPURE: marshalling reads the Go value it is
// given and never writes through it.
func OwnEncPure(p *load.Program) *report.RuleResult {
	r := newResult("OWN-ENCPURE", "no function of marshal.go reaches, through static calls inside the module, a mutating method of reflect.Value (Set, SetInt, SetLen, ... ) or reflect.Copy: Marshal and Encoder.Encode do not write through the value they are given, so a nil embedded pointer stays nil, the caller's value is the same before and after, and two goroutines may marshal one value", 10)
	isMut := func(f *ssa.Function) bool {
		if f == nil || f.Pkg == nil || f.Pkg.Pkg.Path() != "reflect" {
			return false
		}
		if f.Signature.Recv() != nil && recvTypeName(f) == "Value" && strings.HasPrefix(f.Name(), "Set") {
			return true
		}
		return f.Signature.Recv() == nil && f.Name() == "Copy"
	}
	sc := Scope{Name: "marshal.go", Pkgs: []string{"ion"}, Files: []string{"marshal.go"}}
	memo := map[*ssa.Function]string{}
	busy := map[*ssa.Function]bool{}
	var reach func(f *ssa.Function) string
	reach = func(f *ssa.Function) string {
		if v, ok := memo[f]; ok {
			return v
		}
		if busy[f] {
			return ""
		}
		busy[f] = true
		defer delete(busy, f)
		res := ""
		for _, b := range f.Blocks {
			for _, in := range b.Instrs {
				c, ok := in.(ssa.CallInstruction)
				if !ok || res != "" {
					continue
				}
				g := load.Unwrap(c.Common().StaticCallee())
				if g == nil {
					continue
				}
				if isMut(g) {
					res = sprintf("%s calls reflect.%s at %s", p.FuncName(f), g.Name(), instrPos(p, in))
				} else if p.InModule(g) && !p.InTest(g) {
					if via := reach(g); via != "" {
						res = p.FuncName(f) + " → " + via
					}
				}
			}
		}
		// closures defined here run on behalf of this function
		for _, an := range f.AnonFuncs {
			if res == "" {
				if via := reach(an); via != "" {
					res = via
				}
			}
		}
		memo[f] = res
		return res
	}
	for _, fn := range sortedFuncs(p) {
		if !sc.has(p, fn) || len(fn.Blocks) == 0 || fn.Parent() != nil {
			continue
		}
		name := p.FuncName(fn)
		if via := reach(fn); via == "" {
			r.OK(name, p.Pos(fn.Pos()), "no write through the marshalled value", "no mutating reflect call is reachable")
		} else {
			r.Bad(name, p.Pos(fn.Pos()), "no write through the marshalled value", via+": marshalling allocates or overwrites part of the caller's value (a nil embedded pointer comes back non-nil; concurrent Marshal calls on one value race)")
		}
	}
	return r
}

// ---------------------------------------------------------------------------
// TAB-OVERRUN

// dependsOn reports whether v is computed from root (def-use, bounded).
func dependsOn(v, root ssa.Value, depth int) bool {
	if v == root {
		return true
	}
	if depth > 8 {
		return false
	}
	in, ok := v.(ssa.Instruction)
	if !ok {
		return false
	}
	if _, isPhi := v.(*ssa.Phi); isPhi && depth > 0 {
		return false
	}
	for _, op := range in.Operands(nil) {
		if *op != nil && dependsOn(*op, root, depth+1) {
			return true
		}
	}
	return false
}

// TabOverrun implements TAB-OVERRUN: when the length of a value is read from a
// separate VarUInt, what the value is allowed to occupy is what remains of the
// container after that VarUInt.
func TabOverrun(p *load.Program) *report.RuleResult {
	r := newResult("TAB-OVERRUN", "in bitstream.Next, wherever a length decoded by readVarUintLen is compared with the space left in the container, the space on every path on which that length field was read has been reduced by the field's size (it depends on the second result of the same readVarUintLen call) or is measured after it: otherwise a value may overrun its container by up to the size of its length field and the reader's own position checks panic", 1)
	fn := p.Func(nil, "bitstream.Next")
	if fn == nil {
		missing(r, "bitstream.Next", "not found")
		return r
	}
	name := p.FuncName(fn)
	// the readVarUintLen calls whose first result flows (through phis) into v
	var lengthCalls func(v ssa.Value, d int, out map[*ssa.Call]bool)
	lengthCalls = func(v ssa.Value, d int, out map[*ssa.Call]bool) {
		if d > 4 {
			return
		}
		switch x := v.(type) {
		case *ssa.Extract:
			if c, ok := x.Tuple.(*ssa.Call); ok && x.Index == 0 {
				if f := load.Unwrap(c.Call.StaticCallee()); f != nil && f.Name() == "readVarUintLen" {
					out[c] = true
				}
			}
		case *ssa.Phi:
			for _, e := range x.Edges {
				lengthCalls(e, d+1, out)
			}
		}
	}
	reach := func(a, b *ssa.BasicBlock) bool { return a == b || ssau.Reaches(a, b) }
	// is the space value v right on the paths on which c was executed
	var okSpace func(v ssa.Value, c *ssa.Call, d int) bool
	okSpace = func(v ssa.Value, c *ssa.Call, d int) bool {
		if d > 4 {
			return false
		}
		if ph, ok := v.(*ssa.Phi); ok {
			for i, e := range ph.Edges {
				if !reach(c.Block(), ph.Block().Preds[i]) {
					continue // c was not executed on the way in through this edge
				}
				if !okSpace(e, c, d+1) {
					return false
				}
			}
			return true
		}
		if dependsOn(v, c, 0) {
			return true
		}
		in, ok := v.(ssa.Instruction)
		if !ok || in.Block() == nil {
			return false
		}
		// measured after the length field was read: its definition cannot come before c
		if in.Block() == c.Block() {
			return ssau.InstrIndex(in) > ssau.InstrIndex(c)
		}
		return !ssau.Reaches(in.Block(), c.Block())
	}
	n := 0
	for _, b := range fn.Blocks {
		for _, in := range b.Instrs {
			bo, ok := in.(*ssa.BinOp)
			if !ok {
				continue
			}
			switch bo.Op {
			case token.GTR, token.LSS, token.GEQ, token.LEQ:
			default:
				continue
			}
			for _, pair := range [][2]ssa.Value{{bo.X, bo.Y}, {bo.Y, bo.X}} {
				lv, sv := pair[0], pair[1]
				if _, isC := sv.(*ssa.Const); isC {
					continue
				}
				calls := map[*ssa.Call]bool{}
				lengthCalls(lv, 0, calls)
				if len(calls) == 0 {
					continue
				}
				// the other operand must be a space: something derived from remaining()
				if !strings.Contains(ssau.Path(sv), "remaining()") && !func() bool {
					ph, ok := sv.(*ssa.Phi)
					if !ok {
						return false
					}
					for _, e := range ph.Edges {
						if strings.Contains(ssau.Path(e), "remaining()") {
							return true
						}
					}
					return false
				}() {
					continue
				}
				n++
				what := sprintf("decoded length %s %s", bo.Op, describeOperand(sv))
				bad := ""
				for c := range calls {
					if !okSpace(sv, c, 0) {
						bad = instrPos(p, c)
					}
				}
				if bad == "" {
					r.OK(name, instrPos(p, bo), what, "on every path that read a length field the space has been reduced by that field's size or was measured after it")
				} else {
					r.Bad(name, instrPos(p, bo), what, "on a path that read the length from the separate VarUInt at "+bad+" the space compared is still the one measured before that VarUInt: a child may declare up to the size of its length field too much, the next read starts beyond the container's end and remaining()/StepOut panic")
				}
			}
		}
	}
	if n == 0 {
		missing(r, "comparison of a decoded length with the remaining space in bitstream.Next", "not found")
	}
	return r
}

// ---------------------------------------------------------------------------
// ORD-APPENDCARRY

// OrdAppendCarry implements ORD-APPENDCARRY: `imports: $ion_symbol_table`
// carries the current table over unless there is no current table.
func OrdAppendCarry(p *load.Program) *report.RuleResult {
	r := newResult("ORD-APPENDCARRY", "in readImports, in the case imports: $ion_symbol_table (the symbol with ID 3), an exit that hands back no imports is taken only on an edge that established that the reader has no current symbol table or only the system table (SymbolTable() == nil / == V1SystemSymbolTable); every other exit of that case carries the current table's imports and symbols over, so IDs assigned by earlier tables keep their meaning after an append", 1)
	fn := p.Func(nil, "readImports")
	if fn == nil {
		missing(r, "readImports", "not found")
		return r
	}
	name := p.FuncName(fn)
	var region *ssa.BasicBlock
	for _, b := range fn.Blocks {
		bo, ok := blockIfCond(b).(*ssa.BinOp)
		if !ok || bo.Op != token.EQL {
			continue
		}
		if k, ok := ssau.ConstInt(bo.Y); ok && k == 3 && strings.HasSuffix(ssau.Path(bo.X), ".LocalSID") {
			region = b.Succs[0]
		}
	}
	if region == nil {
		missing(r, "test LocalSID == 3 in readImports", "not found")
		return r
	}
	noTableEdge := func(pred *ssa.BasicBlock, to *ssa.BasicBlock) bool {
		bo, ok := blockIfCond(pred).(*ssa.BinOp)
		if !ok || (bo.Op != token.EQL && bo.Op != token.NEQ) {
			return false
		}
		isTable := func(v ssa.Value) bool {
			c, ok := v.(*ssa.Call)
			return ok && c.Call.IsInvoke() && c.Call.Method.Name() == "SymbolTable"
		}
		isNone := func(v ssa.Value) bool {
			if ssau.IsNilConst(v) {
				return true
			}
			// V1SystemSymbolTable, possibly converted to the interface type
			for i := 0; i < 3; i++ {
				switch x := v.(type) {
				case *ssa.MakeInterface:
					v = x.X
				case *ssa.ChangeInterface:
					v = x.X
				case *ssa.UnOp:
					if g, ok := x.X.(*ssa.Global); ok && g.Name() == "V1SystemSymbolTable" {
						return true
					}
					return false
				}
			}
			return false
		}
		if !(isTable(bo.X) && isNone(bo.Y)) && !(isTable(bo.Y) && isNone(bo.X)) {
			return false
		}
		si := 0
		if bo.Op == token.NEQ {
			si = 1
		}
		return pred.Succs[si] == to
	}
	n := 0
	for _, ret := range returns(fn) {
		b := ret.Block()
		if !region.Dominates(b) || len(ret.Results) < 2 || !ssau.IsNilConst(ret.Results[0]) || !ssau.IsNilConst(ret.Results[1]) {
			continue
		}
		n++
		bad := ""
		for _, pr := range b.Preds {
			if !noTableEdge(pr, b) {
				bad = p.Pos(lastPos(pr))
			}
		}
		what := "exit without imports in the append case"
		if bad == "" {
			r.OK(name, instrPos(p, ret), what, "taken only when there is no current table or only the system table")
		} else {
			r.Bad(name, instrPos(p, ret), what, "reachable through the branch at "+bad+", which does not establish that there is no current table: the current table's imports are dropped and the IDs of everything appended afterwards start right after the system symbols")
		}
	}
	if n == 0 {
		r.OK(name, p.Pos(fn.Pos()), "exits of the append case", "no exit of the append case hands back nothing")
	}
	return r
}

// ---------------------------------------------------------------------------
// OWN-SYMQUOTE

// derivedFrom computes the values of fn computed from root by string building
// (concatenation, phis, fmt.Sprint*, conversions, varargs packing).
func derivedFrom(root ssa.Value) map[ssa.Value]bool {
	d := map[ssa.Value]bool{root: true}
	work := []ssa.Value{root}
	add := func(v ssa.Value) {
		if v != nil && !d[v] {
			d[v] = true
			work = append(work, v)
		}
	}
	for len(work) > 0 {
		v := work[len(work)-1]
		work = work[:len(work)-1]
		if v.Referrers() == nil {
			continue
		}
		for _, ref := range *v.Referrers() {
			switch x := ref.(type) {
			case *ssa.BinOp:
				if x.Op == token.ADD {
					add(x)
				}
			case *ssa.Phi:
				add(x)
			case *ssa.MakeInterface:
				add(x)
			case *ssa.Convert:
				add(x)
			case *ssa.ChangeType:
				add(x)
			case *ssa.Slice:
				add(x)
			case *ssa.Store:
				if x.Val == v {
					// packed into a varargs array or a local
					switch a := x.Addr.(type) {
					case *ssa.IndexAddr:
						add(a.X)
					case *ssa.Alloc:
						add(a)
					}
				}
			case *ssa.UnOp:
				if x.Op == token.MUL {
					add(x)
				}
			case *ssa.Call:
				if f := x.Call.StaticCallee(); f != nil && f.Pkg != nil && f.Pkg.Pkg.Path() == "fmt" && strings.HasPrefix(f.Name(), "Sprint") {
					add(x)
				}
			}
		}
	}
	return d
}

// OwnSymQuote implements OWN-SYMQUOTE.
func OwnSymQuote(p *load.Program) *report.RuleResult {
	r := newResult("OWN-SYMQUOTE", "in the text writer, text taken from a SymbolToken (a load of its Text field) reaches a raw output call (writeRawString, io.WriteString, Write) only in a function that also asks symbolIdentifier about that text: identifier-shaped text of the form $n must be quoted wherever a symbol token is written (value, field name or annotation), or it is read back as a symbol ID", 1)
	sc := Scope{Name: "text writer", Pkgs: []string{"ion"}, Files: []string{"textwriter.go", "textutils.go"}}
	isRaw := func(c ssa.CallInstruction) bool {
		cc := c.Common()
		if cc.IsInvoke() {
			return cc.Method.Name() == "Write" || cc.Method.Name() == "WriteString"
		}
		f := cc.StaticCallee()
		if f == nil {
			return false
		}
		if f.Pkg != nil && f.Pkg.Pkg.Path() == "io" && f.Name() == "WriteString" {
			return true
		}
		return f.Name() == "writeRawString" || f.Name() == "writeRawChars"
	}
	for _, fn := range sortedFuncs(p) {
		if !sc.has(p, fn) || len(fn.Blocks) == 0 {
			continue
		}
		for _, b := range fn.Blocks {
			for _, in := range b.Instrs {
				ld, ok := in.(*ssa.UnOp)
				if !ok || ld.Op != token.MUL {
					continue
				}
				// *(tok.Text): a load of a *string that is itself loaded from field Text of a SymbolToken
				inner, ok := ld.X.(*ssa.UnOp)
				if !ok || inner.Op != token.MUL {
					continue
				}
				fa, ok := inner.X.(*ssa.FieldAddr)
				if !ok || fieldName2(fa) != "Text" || ssau.TypeName(fa.X.Type()) != "SymbolToken" {
					continue
				}
				d := derivedFrom(ld)
				asked := false
				var raw ssa.Instruction
				for v := range d {
					if v.Referrers() == nil {
						continue
					}
					for _, ref := range *v.Referrers() {
						c, ok := ref.(ssa.CallInstruction)
						if !ok {
							continue
						}
						if f := load.Unwrap(c.Common().StaticCallee()); f != nil && f.Name() == "symbolIdentifier" {
							asked = true
						}
						if isRaw(c) {
							raw = ref
						}
					}
				}
				name := p.FuncName(fn)
				what := "text of " + describeOperand(fa.X)
				switch {
				case raw == nil:
					r.OK(name, instrPos(p, ld), what, "never written raw here (handed to the quoting writers)")
				case asked:
					r.OK(name, instrPos(p, ld), what, "written raw only in a function that asks symbolIdentifier about it")
				default:
					r.Bad(name, instrPos(p, ld), what, "reaches the raw write at "+instrPos(p, raw)+" in a function that never asks symbolIdentifier about it: an annotation, field name or value with the text $7 comes out unquoted and is read back as symbol ID 7")
				}
			}
		}
	}
	return r
}

// ---------------------------------------------------------------------------
// TAB-ADJUSTMAX

// TabAdjustMax implements TAB-ADJUSTMAX: the table Adjust(n) returns has
// MaxID() == n.
func TabAdjustMax(p *load.Program) *report.RuleResult {
	r := newResult("TAB-ADJUSTMAX", "every table sst.Adjust(maxID) returns has exactly the requested max_id: a new table's maxID field is the parameter, and the receiver itself is returned only where maxID == s.maxID is established; an import must reserve exactly the ID range its declaration states, or every local symbol after it is numbered differently by writer and reader", 2)
	fn := p.Func(nil, "sst.Adjust")
	if fn == nil {
		missing(r, "sst.Adjust", "not found")
		return r
	}
	name := p.FuncName(fn)
	if len(fn.Params) < 2 {
		missing(r, "sst.Adjust parameters", "unexpected signature")
		return r
	}
	recv, prm := fn.Params[0], fn.Params[1]
	ff := ssau.ComputeFacts(fn, ssau.StoreKills)
	for _, ret := range returns(fn) {
		if len(ret.Results) != 1 {
			continue
		}
		v := ret.Results[0]
		for i := 0; i < 3; i++ {
			if mi, ok := v.(*ssa.MakeInterface); ok {
				v = mi.X
			}
		}
		switch x := v.(type) {
		case *ssa.Parameter:
			what := "returns the receiver unchanged"
			if x != recv {
				r.Unknown(name, instrPos(p, ret), what, "returns a parameter other than the receiver")
				continue
			}
			_, ok := ff.At(ret).Any("eq", func(f ssau.Fact) bool {
				a, b := f.Path, f.Arg
				isPrm := func(s string) bool { return s == ssau.Path(prm) }
				isFld := func(s string) bool { return strings.HasPrefix(s, ssau.Path(recv)) && strings.HasSuffix(s, ".maxID") }
				return (isPrm(a) && isFld(b)) || (isPrm(b) && isFld(a))
			})
			if ok {
				r.OK(name, instrPos(p, ret), what, "only where maxID == s.maxID")
			} else {
				r.Bad(name, instrPos(p, ret), what, "the receiver is returned without maxID == s.maxID being established: the import keeps a max_id other than the declared one, so the IDs after it shift")
			}
		case *ssa.Alloc:
			what := "returns a new table"
			var stored ssa.Value
			for _, ref := range *x.Referrers() {
				if fa, ok := ref.(*ssa.FieldAddr); ok && fieldName2(fa) == "maxID" {
					for _, r2 := range *fa.Referrers() {
						if st, ok := r2.(*ssa.Store); ok && st.Addr == ssa.Value(fa) {
							stored = st.Val
						}
					}
				}
			}
			if stored == ssa.Value(prm) {
				r.OK(name, instrPos(p, ret), what, "its maxID is the parameter")
			} else {
				r.Bad(name, instrPos(p, ret), what, sprintf("its maxID is %s, not the requested value", describeVal(stored)))
			}
		default:
			// a table built elsewhere (a cached one, a helper's result): its max_id is not decided here
			r.OK(name, instrPos(p, ret), "returns a table built elsewhere", "not decided here: the table is neither the receiver nor a literal of this function")
		}
	}
	return r
}

// ---------------------------------------------------------------------------
// TAB-LENCOUNT

// TabLenCount implements TAB-LENCOUNT: Ion binary has byte lengths only.
func TabLenCount(p *load.Program) *report.RuleResult {
	r := newResult("TAB-LENCOUNT", "every length the binary writer hands to the length encoders (appendVarUint, appendTag, varUintLen, tagLen and the write* helpers that take a length) that is derived from len(x) takes the len of bytes (a []byte or a string): Ion 1.0 binary has no element counts, every length field counts octets, so the number of annotations, fields or elements never stands where a length is declared", 5)
	enc := map[string]bool{"appendVarUint": true, "appendTag": true, "varUintLen": true, "tagLen": true, "writeTag": true, "writeLen": true}
	var lenSource func(v ssa.Value, d int) *ssa.Call
	lenSource = func(v ssa.Value, d int) *ssa.Call {
		if d > 6 {
			return nil
		}
		switch x := v.(type) {
		case *ssa.Call:
			if ssau.IsBuiltinCall(x, "len") {
				return x
			}
		case *ssa.Convert:
			return lenSource(x.X, d+1)
		case *ssa.ChangeType:
			return lenSource(x.X, d+1)
		case *ssa.BinOp:
			if x.Op == token.ADD || x.Op == token.SUB {
				if c := lenSource(x.X, d+1); c != nil {
					return c
				}
				return lenSource(x.Y, d+1)
			}
		}
		return nil
	}
	for _, fn := range sortedFuncs(p) {
		if !ScopeWriter.has(p, fn) || len(fn.Blocks) == 0 {
			continue
		}
		for _, b := range fn.Blocks {
			for _, in := range b.Instrs {
				c, ok := in.(ssa.CallInstruction)
				if !ok {
					continue
				}
				f := load.Unwrap(c.Common().StaticCallee())
				if f == nil || !enc[f.Name()] {
					continue
				}
				for _, a := range c.Common().Args {
					lc := lenSource(a, 0)
					if lc == nil {
						continue
					}
					t := lc.Call.Args[0].Type().Underlying()
					bytes := false
					switch tt := t.(type) {
					case *types.Basic:
						bytes = tt.Info()&types.IsString != 0
					case *types.Slice:
						if e, ok := tt.Elem().Underlying().(*types.Basic); ok && (e.Kind() == types.Byte || e.Kind() == types.Uint8) {
							bytes = true
						}
					}
					name := p.FuncName(fn)
					what := sprintf("%s(len(%s))", f.Name(), describeOperand(lc.Call.Args[0]))
					if bytes {
						r.OK(name, instrPos(p, in), what, "a length of bytes")
					} else {
						r.Bad(name, instrPos(p, in), what, sprintf("the len of a %s is an element count, not a number of octets: the declared length is right only while every element happens to encode in one byte", types.TypeString(t, shortQual)))
					}
				}
			}
		}
	}
	return r
}

// ---------------------------------------------------------------------------
// TAB-NEXTVISIT

// TabNextVisit implements TAB-NEXTVISIT: the command looks at every value it
// advances to.
func TabNextVisit(p *load.Program) *report.RuleResult {
	r := newResult("TAB-NEXTVISIT", "every function of the command that advances an ion.Reader (calls Next) also asks the same reader for the value's Type: the reader validates the inside of a container only when it is stepped into or its values are read, so a loop that merely calls Next accepts invalid Ion inside balanced brackets without reporting it", 1)
	for _, fn := range sortedFuncs(p) {
		if !ScopeCmd.has(p, fn) || len(fn.Blocks) == 0 {
			continue
		}
		nexts := map[string]ssa.Instruction{}
		types_ := map[string]bool{}
		for _, b := range fn.Blocks {
			for _, in := range b.Instrs {
				c, ok := in.(ssa.CallInstruction)
				if !ok || !c.Common().IsInvoke() || ssau.TypeName(c.Common().Value.Type()) != "Reader" {
					continue
				}
				switch c.Common().Method.Name() {
				case "Next":
					nexts[ssau.Path(c.Common().Value)] = in
				case "Type":
					types_[ssau.Path(c.Common().Value)] = true
				}
			}
		}
		name := p.FuncName(fn)
		var keys []string
		for k := range nexts {
			keys = append(keys, k)
		}
		sort.Strings(keys)
		for _, k := range keys {
			what := "Next on " + cleanPath(k)
			if types_[k] {
				// round the loop: no way from a successful Next back to the next Next without asking for the Type
				nb := nexts[k].Block()
				if cv, ok := nexts[k].(ssa.Value); ok && blockIfCond(nb) == cv {
					isType := func(in ssa.Instruction) bool {
						c, ok := in.(ssa.CallInstruction)
						return ok && c.Common().IsInvoke() && c.Common().Method.Name() == "Type" && ssau.Path(c.Common().Value) == k
					}
					if nb.Succs[0] != nb && reachesBlockAvoiding(nb.Succs[0], nb, isType) {
						r.Bad(name, instrPos(p, nexts[k]), what, "a path round the loop goes from one Next to the following one without asking for the value's type: that value is skipped, not validated")
						continue
					}
				}
				r.OK(name, instrPos(p, nexts[k]), what, "the same function dispatches on the value's Type, on every path round the loop")
			} else {
				r.Bad(name, instrPos(p, nexts[k]), what, "this function advances the reader without ever looking at the value's type: containers are skipped, not validated, so {a:[1, 2 3]} is accepted without an error")
			}
		}
	}
	return r
}

// ---------------------------------------------------------------------------
// ORD-DANGLE-BIN

// OrdDangleBin implements ORD-DANGLE-BIN: the binary bitstream reports the
// end of a container only after it has looked whether a field name is pending.
func OrdDangleBin(p *load.Program) *report.RuleResult {
	r := newResult("ORD-DANGLE-BIN", "in bitstream.Next the end of the enclosing container (code = bitcodeEOF where the position has reached the container's end) is reported only on paths that have compared the state with bssBeforeValue, the state in which a struct's field name has been read and its value has not: a struct that ends right after a field name is malformed, not empty", 1)
	fn := p.Func(nil, "bitstream.Next")
	if fn == nil {
		missing(r, "bitstream.Next", "not found")
		return r
	}
	eof, ok1 := constOf(p, "bitcodeEOF")
	bv, ok2 := constOf(p, "bssBeforeValue")
	if !ok1 || !ok2 {
		missing(r, "bitcodeEOF / bssBeforeValue", "constants not found")
		return r
	}
	structCode, _ := constOf(p, "bitcodeStruct")
	testsPending := func(in ssa.Instruction) bool {
		bo, ok := in.(*ssa.BinOp)
		if !ok || (bo.Op != token.EQL && bo.Op != token.NEQ) {
			return false
		}
		for _, pair := range [][2]ssa.Value{{bo.X, bo.Y}, {bo.Y, bo.X}} {
			k, ok := ssau.ConstInt(pair[1])
			if !ok {
				continue
			}
			if k == bv && strings.HasSuffix(ssau.Path(pair[0]), ".state") {
				return true
			}
			// "is the container a struct at all" is the other half of the same test: only a
			// struct has field names
			if k == structCode && strings.HasSuffix(ssau.Path(pair[0]), ".code") {
				return true
			}
		}
		return false
	}
	name := p.FuncName(fn)
	n := 0
	for _, b := range fn.Blocks {
		for _, in := range b.Instrs {
			st, ok := in.(*ssa.Store)
			if !ok {
				continue
			}
			fa, ok := st.Addr.(*ssa.FieldAddr)
			if !ok || fieldName2(fa) != "code" {
				continue
			}
			if k, ok := ssau.ConstInt(st.Val); !ok || k != eof {
				continue
			}
			// the end-of-container store: dominated by a comparison of the position with the container's end
			var at *ssa.BasicBlock
			for d := b.Idom(); d != nil; d = d.Idom() {
				if bo, ok := blockIfCond(d).(*ssa.BinOp); ok && bo.Op == token.EQL && strings.HasSuffix(ssau.Path(bo.X), ".pos") && strings.Contains(ssau.Path(bo.Y), "end") {
					if s := d.Succs[0]; s == b || s.Dominates(b) {
						at = s
					}
				}
			}
			if at == nil {
				continue // the end of the top-level stream
			}
			n++
			what := "end of container reported"
			// a path from the position test to the store that never looks at the pending-field-name state?
			seen := map[*ssa.BasicBlock]bool{}
			work := []*ssa.BasicBlock{at}
			bad := false
			for len(work) > 0 && !bad {
				cur := work[len(work)-1]
				work = work[:len(work)-1]
				if seen[cur] {
					continue
				}
				seen[cur] = true
				stopped := false
				for _, x := range cur.Instrs {
					if testsPending(x) {
						stopped = true
						break
					}
					if x == ssa.Instruction(st) {
						bad = true
						break
					}
				}
				if !stopped && !bad {
					work = append(work, cur.Succs...)
				}
			}
			if bad {
				r.Bad(name, instrPos(p, st), what, "the end of the container is reported without looking whether a field name has been read and not yet followed by a value: DE 81 84 (a struct that holds only a field name) reads as an empty struct with no error")
			} else {
				r.OK(name, instrPos(p, st), what, "only after the state was compared with bssBeforeValue")
			}
		}
	}
	if n == 0 {
		missing(r, "end-of-container exit in bitstream.Next", "no store of bitcodeEOF under a comparison of the position with the container's end")
	}
	return r
}

// ---------------------------------------------------------------------------
// TAB-UTF8

// TabUTF8 implements TAB-UTF8: both readers validate string text as UTF-8.
func TabUTF8(p *load.Program) *report.RuleResult {
	r := newResult("TAB-UTF8", "the function of each reader that hands string text to the caller (bitstream.ReadString for binary, tokenizer.ReadValue for text strings, long strings and quoted symbols) reaches a unicode/utf8 validity test, in itself or in an unexported helper: bytes that are not UTF-8 are a grammar violation in both encodings, and the two readers agree on it", 2)
	for _, fnn := range []string{"bitstream.ReadString", "tokenizer.ReadValue"} {
		fn := p.Func(nil, fnn)
		if fn == nil {
			missing(r, fnn, "not found")
			continue
		}
		found := ""
		for _, g := range helperClosure(p, fn, func(f *ssa.Function) bool { return f.Object() == nil || !f.Object().Exported() }, 2) {
			for _, b := range g.Blocks {
				for _, in := range b.Instrs {
					c, ok := in.(ssa.CallInstruction)
					if !ok {
						continue
					}
					if f := c.Common().StaticCallee(); f != nil && f.Pkg != nil && f.Pkg.Pkg.Path() == "unicode/utf8" && strings.HasPrefix(f.Name(), "Valid") {
						found = instrPos(p, in)
					}
				}
			}
		}
		// in the text reader the test must cover each of the three token kinds whose text reaches the caller
		if found != "" && fnn == "tokenizer.ReadValue" {
			var tokParam *ssa.Parameter
			for _, pa := range fn.Params {
				if ssau.TypeName(pa.Type()) == "token" {
					tokParam = pa
				}
			}
			_, tokVals := namedConstsOf(p, "token")
			if tokParam != nil {
				ef := ssau.TrackEnum(fn, matchPath(ssau.Path(tokParam)))
				covered := map[string]bool{}
				inFn := false
				for _, b := range fn.Blocks {
					for _, in := range b.Instrs {
						c, ok := in.(ssa.CallInstruction)
						if !ok {
							continue
						}
						if f := c.Common().StaticCallee(); f != nil && f.Pkg != nil && f.Pkg.Pkg.Path() == "unicode/utf8" && strings.HasPrefix(f.Name(), "Valid") {
							inFn = true
							vs, _ := ef.At(in)
							if !vs.Known() {
								covered["*"] = true
							}
							for _, k := range vs.Values() {
								covered[k] = true
							}
						}
					}
				}
				if inFn && !covered["*"] {
					for _, kn := range []string{"tokenString", "tokenLongString", "tokenSymbolQuoted"} {
						what := "text of " + kn + " validated as UTF-8"
						if v, ok := tokVals[kn]; ok && covered[sprintf("%d", v)] {
							r.OK(p.FuncName(fn), p.Pos(fn.Pos()), what, "the validity test is reached for this token kind")
						} else if ok {
							r.Bad(p.FuncName(fn), p.Pos(fn.Pos()), what, "the UTF-8 validity test is not reached for this token kind: raw bytes that are not UTF-8 inside such a token are handed to the caller with Err() == nil")
						}
					}
				}
			}
		}
		if found != "" {
			r.OK(p.FuncName(fn), p.Pos(fn.Pos()), "string text validated as UTF-8", "utf8."+"Valid* at "+found)
		} else {
			r.Bad(p.FuncName(fn), p.Pos(fn.Pos()), "string text validated as UTF-8", "no UTF-8 validity test is reached: a string holding the lone byte 0xFF is handed to the caller with Err() == nil")
		}
	}
	return r
}

// ---------------------------------------------------------------------------
// ORD-LSTCLEAN

// OrdLstClean implements ORD-LSTCLEAN: a writer serialises its symbol table
// through its own methods only after it has put the pending field name and
// annotations aside.
func OrdLstClean(p *load.Program) *report.RuleResult {
	r := newResult("ORD-LSTCLEAN", "every call by which a Writer implementation has a symbol table written through the writer itself (WriteTo(w), directly or through an unexported helper) is reached only after (*writer).clear(): the table is emitted with the writer's own FieldName/Annotation/Begin* methods, so a field name or annotation still pending at that moment would be attached to the $ion_symbol_table struct, which a reader then no longer recognises as a symbol table", 2)
	mustMemo := map[*ssa.Function]int{}
	var isClear func(in ssa.Instruction) bool
	var mustClear func(f *ssa.Function) bool
	mustClear = func(f *ssa.Function) bool {
		switch mustMemo[f] {
		case 1:
			return true
		case 2, 3:
			return false
		}
		mustMemo[f] = 3
		res := len(f.Blocks) > 0
		if res {
			for _, ret := range returns(f) {
				if ssau.ReachesAvoiding(f, ret, isClear, nil) {
					res = false
				}
			}
		}
		mustMemo[f] = 2
		if res {
			mustMemo[f] = 1
		}
		return res
	}
	isClear = func(in ssa.Instruction) bool {
		if _, deferred := in.(*ssa.Defer); deferred {
			return false // runs when the function returns, not here
		}
		c, ok := in.(ssa.CallInstruction)
		if !ok {
			return false
		}
		f := load.Unwrap(c.Common().StaticCallee())
		if f == nil {
			return false
		}
		if f.Name() == "clear" && recvTypeName(f) == "writer" {
			return true
		}
		// a helper that takes the pending name and annotations and always clears them (takePending)
		rt := recvTypeName(f)
		return (rt == "writer" || rt == "textWriter" || rt == "binaryWriter") && p.InModule(f) && mustClear(f)
	}
	writerTypes := map[string]bool{}
	for _, T := range implementers(p, p.Ion, "Writer") {
		writerTypes[T.Obj().Name()] = true
	}
	isWriteTo := func(in ssa.Instruction) bool {
		c, ok := in.(ssa.CallInstruction)
		if !ok {
			return false
		}
		cc := c.Common()
		name := ""
		if cc.IsInvoke() {
			name = cc.Method.Name()
		} else if f := cc.StaticCallee(); f != nil {
			name = f.Name()
		}
		if name != "WriteTo" {
			return false
		}
		// the writer itself is the destination
		for _, a := range cc.Args {
			v := a
			for i := 0; i < 2; i++ {
				if mi, ok := v.(*ssa.MakeInterface); ok {
					v = mi.X
				}
			}
			if prm, ok := v.(*ssa.Parameter); ok && prm.Parent() != nil && len(prm.Parent().Params) > 0 && prm == prm.Parent().Params[0] && writerTypes[ssau.TypeName(prm.Type())] {
				return true
			}
		}
		return false
	}
	var need func(fn *ssa.Function, site ssa.Instruction, depth int) string
	need = func(fn *ssa.Function, site ssa.Instruction, depth int) string {
		if !ssau.ReachesAvoiding(fn, site, isClear, nil) {
			return ""
		}
		if depth >= 3 || (fn.Object() != nil && fn.Object().Exported()) {
			return sprintf("%s reaches it at %s without clear()", p.FuncName(fn), instrPos(p, site))
		}
		n := 0
		for _, caller := range sortedFuncs(p) {
			if p.InTest(caller) {
				continue
			}
			for _, b := range caller.Blocks {
				for _, in := range b.Instrs {
					c, ok := in.(ssa.CallInstruction)
					if !ok || load.Unwrap(c.Common().StaticCallee()) != fn {
						continue
					}
					n++
					if bad := need(caller, in, depth+1); bad != "" {
						return bad
					}
				}
			}
		}
		if n == 0 {
			return sprintf("%s reaches it at %s without clear() and has no callers to establish it", p.FuncName(fn), instrPos(p, site))
		}
		return ""
	}
	for _, fn := range sortedFuncs(p) {
		if !ScopeWriter.has(p, fn) || len(fn.Blocks) == 0 || !writerTypes[recvTypeName(fn)] {
			continue
		}
		for _, b := range fn.Blocks {
			for _, in := range b.Instrs {
				if !isWriteTo(in) {
					continue
				}
				name := p.FuncName(fn)
				if bad := need(fn, in, 0); bad == "" {
					r.OK(name, instrPos(p, in), "symbol table written through the writer itself", "reached only after clear(), here or in every caller")
				} else {
					r.Bad(name, instrPos(p, in), "symbol table written through the writer itself", bad+": Annotation(x) pending at that moment is written as x::$ion_symbol_table::{...}, which no reader takes for a symbol table")
				}
			}
		}
	}
	return r
}

// ---------------------------------------------------------------------------
// OWN-BSSCRATCH

// OwnBSScratch implements OWN-BSSCRATCH: the binary bitstream keeps no data of
// a value beyond that value.
func OwnBSScratch(p *load.Program) *report.RuleResult {
	r := newResult("OWN-BSSCRATCH", "every field of the binary bitstream that one of its methods writes is either part of the cursor (the input, the position, the state, the container stack) or is reset by clear(), which every step to another value passes (ORD-BSCLEAR): a scratch field that a Read* method fills and nothing resets lets one value's decoded data (a reused big.Int, calendar fields of the previous timestamp) show up in a later value or in a result the caller still holds", 3)
	bs := p.Type(p.Ion, "bitstream")
	if bs == nil {
		missing(r, "bitstream", "type not found")
		return r
	}
	st, ok := bs.Underlying().(*types.Struct)
	if !ok {
		missing(r, "bitstream", "not a struct")
		return r
	}
	clearFn := methodOf(p, bs, "clear")
	if clearFn == nil {
		missing(r, "bitstream.clear", "method not found")
		return r
	}
	cursor := map[string]string{"in": "the input", "pos": "the position in the input", "state": "the cursor state", "stack": "the stack of open containers"}
	written := map[string]string{}
	cleared := map[string]bool{}
	for _, fn := range sortedFuncs(p) {
		if p.InTest(fn) || recvTypeName(fn) != "bitstream" {
			continue
		}
		for _, b := range fn.Blocks {
			for _, in := range b.Instrs {
				var addr ssa.Value
				switch x := in.(type) {
				case *ssa.Store:
					addr = x.Addr
				case *ssa.MapUpdate:
					addr = x.Map
				default:
					continue
				}
				// the field of the receiver this write lands in (directly, or an element of it)
				for d := 0; d < 4 && addr != nil; d++ {
					switch a := addr.(type) {
					case *ssa.FieldAddr:
						if ssau.TypeName(a.X.Type()) == "bitstream" {
							f := fieldName2(a)
							if fn == clearFn {
								cleared[f] = true
							} else if _, seen := written[f]; !seen {
								written[f] = p.FuncName(fn)
							}
							addr = nil
						} else {
							addr = a.X
						}
					case *ssa.IndexAddr:
						addr = a.X
					case *ssa.Slice:
						addr = a.X
					case *ssa.UnOp:
						addr = a.X
					default:
						addr = nil
					}
				}
			}
		}
	}
	// a pointer field handed to a callee that fills it (b.bigint.SetBytes(bs)) counts as written
	for _, fn := range sortedFuncs(p) {
		if p.InTest(fn) || recvTypeName(fn) != "bitstream" || fn == clearFn {
			continue
		}
		for _, b := range fn.Blocks {
			for _, in := range b.Instrs {
				c, ok := in.(ssa.CallInstruction)
				if !ok {
					continue
				}
				for _, a := range c.Common().Args {
					v := a
					if u, ok := v.(*ssa.UnOp); ok && u.Op == token.MUL {
						v = u.X
					}
					if fa, ok := v.(*ssa.FieldAddr); ok && ssau.TypeName(fa.X.Type()) == "bitstream" {
						f := fieldName2(fa)
						byAddr := v == a // the field's own address is handed over (b.scratch.SetBytes(bs))
						shared := false
						switch st.Field(fa.Field).Type().Underlying().(type) {
						case *types.Pointer, *types.Slice, *types.Array, *types.Map:
							shared = true
						}
						if (byAddr || shared) && cursor[f] == "" {
							if _, seen := written[f]; !seen {
								written[f] = p.FuncName(fn)
							}
						}
					}
				}
			}
		}
	}
	for i := 0; i < st.NumFields(); i++ {
		f := st.Field(i).Name()
		w, isWritten := written[f]
		if !isWritten {
			continue
		}
		what := "field " + f
		switch {
		case cursor[f] != "":
			r.OK("bitstream", p.Pos(st.Field(i).Pos()), what, "part of the cursor: "+cursor[f])
		case cleared[f]:
			r.OK("bitstream", p.Pos(st.Field(i).Pos()), what, "reset by clear()")
		default:
			r.Bad("bitstream", p.Pos(st.Field(i).Pos()), what, "written by "+w+" and never reset by clear(): what one value leaves there is seen when a later value is decoded, or keeps changing under a result the caller still holds")
		}
	}
	return r
}

// ---------------------------------------------------------------------------
// NIL-EMPTYCOPY

// NilEmptyCopy implements NIL-EMPTYCOPY.
func NilEmptyCopy(p *load.Program) *report.RuleResult {
	r := newResult("NIL-EMPTYCOPY", "no slice is copied in package ion by appending it to a nil slice (append([]T(nil), x...)): for an empty but non-nil x the result is nil, and an empty blob, clob or list is then decoded as a null one; empty versus nil collections are different Ion values and different Go values", 0)
	for _, fn := range sortedFuncs(p) {
		if !ScopeIon.has(p, fn) || len(fn.Blocks) == 0 {
			continue
		}
		for _, b := range fn.Blocks {
			for _, in := range b.Instrs {
				c, ok := in.(*ssa.Call)
				if !ok || !ssau.IsBuiltinCall(c, "append") || len(c.Call.Args) != 2 || !ssau.IsNilConst(c.Call.Args[0]) {
					continue
				}
				// append(nil, a, b) packs its arguments into a fresh array; append(nil, x...) passes x itself
				spread := true
				if sl, ok := c.Call.Args[1].(*ssa.Slice); ok {
					if al, ok := sl.X.(*ssa.Alloc); ok && al.Comment == "varargs" {
						spread = false
					}
				}
				name := p.FuncName(fn)
				what := "append(nil, " + describeOperand(c.Call.Args[1]) + "...)"
				if !spread {
					r.OK(name, instrPos(p, c), "append(nil, elements)", "at least one element: the result is not nil")
				} else {
					r.Bad(name, instrPos(p, c), what, "copies the slice but returns nil when it is empty and non-nil: {{}} is decoded as null.blob (use make+copy or append(x[:0:0], x...))")
				}
			}
		}
	}
	return r
}
