package rules

import (
	"go/token"
	"regexp"
	"sort"
	"strconv"
	"strings"

	"golang.org/x/tools/go/ssa"

	"verif/checker/internal/load"
	"verif/checker/internal/report"
	"verif/checker/internal/ssau"
)

// Ion 1.0 specification tables ------------------------------------------------

// binary type code (high nibble) per Ion type constant name
var specNibbleOfType = map[string]int64{
	"NoType": 0, "NullType": 0, "BoolType": 1, "IntType": 2, "FloatType": 4, "DecimalType": 5, "TimestampType": 6,
	"SymbolType": 7, "StringType": 8, "ClobType": 9, "BlobType": 10, "ListType": 11, "SexpType": 12, "StructType": 13,
}

// high nibble -> reader bitcode constant
var specBitcodeOfNibble = []string{"bitcodeNull", "bitcodeFalse", "bitcodeInt", "bitcodeNegInt", "bitcodeFloat", "bitcodeDecimal", "bitcodeTimestamp",
	"bitcodeSymbol", "bitcodeString", "bitcodeClob", "bitcodeBlob", "bitcodeList", "bitcodeSexp", "bitcodeStruct", "bitcodeAnnotation"}

// reader bitcode -> Ion type
var specTypeOfBitcode = map[string]string{
	"bitcodeNull": "NullType", "bitcodeFalse": "BoolType", "bitcodeTrue": "BoolType", "bitcodeInt": "IntType", "bitcodeNegInt": "IntType",
	"bitcodeFloat": "FloatType", "bitcodeDecimal": "DecimalType", "bitcodeTimestamp": "TimestampType", "bitcodeSymbol": "SymbolType",
	"bitcodeString": "StringType", "bitcodeClob": "ClobType", "bitcodeBlob": "BlobType", "bitcodeList": "ListType", "bitcodeSexp": "SexpType", "bitcodeStruct": "StructType",
}

// null.<name> -> Ion type
var specNullNames = map[string]string{
	"null": "NullType", "bool": "BoolType", "int": "IntType", "float": "FloatType", "decimal": "DecimalType", "timestamp": "TimestampType",
	"symbol": "SymbolType", "string": "StringType", "clob": "ClobType", "blob": "BlobType", "list": "ListType", "sexp": "SexpType", "struct": "StructType",
}

// text escapes: character after the backslash -> code point
var specEscapes = map[int64]int64{'0': 0, 'a': 7, 'b': 8, 't': 9, 'n': 10, 'f': 12, 'r': 13, 'v': 11, '?': 63, '/': 47, '\'': 39, '"': 34, '\\': 92}
var specHexEscapes = map[int64]int64{'x': 2, 'u': 4, 'U': 8}

// identifier-shaped texts with a non-symbol meaning in Ion text
var specKeywords = []string{"null", "true", "false", "nan"}

// ---------------------------------------------------------------------------

// TabTypecode implements TAB-TYPECODE (n), (r) and the float sizes; the writer
// side (w) is TabTypecodeW.
func TabTypecode(p *load.Program) *report.RuleResult {
	r := newResult("TAB-TYPECODE", "the reader's type-code table, the value type stored per type code, the accepted float sizes and the binary typed-null bytes equal the Ion 1.0 tables", 40)
	typeByVal, typeByName := namedConstsOf(p, "Type")
	bcByVal, bcByName := namedConstsOf(p, "bitcode")
	_ = bcByName
	// (n) binaryNulls[t] == nibble(t)<<4 | 0x0F
	if tab, ok := globalTable(p, "binaryNulls"); !ok {
		missing(r, "binaryNulls", "package-level table not found or not constant-initialised")
	} else {
		for tn, nib := range specNibbleOfType {
			tv, ok := typeByName[tn]
			if !ok {
				missing(r, tn, "Type constant not found")
				continue
			}
			what := "binaryNulls[" + tn + "]"
			got, ok := ssau.ConstInt(tab[tv])
			want := nib<<4 | 0x0F
			switch {
			case tab[tv] == nil || !ok:
				r.Bad("init", "-", what, "no constant entry for this type")
			case got != want:
				r.Bad("init", instrPosV(p, tab[tv]), what, sprintf("is 0x%02X, Ion 1.0 typed null for %s is 0x%02X", got, tn, want))
			default:
				r.OK("init", "-", what, sprintf("= 0x%02X (spec)", want))
			}
		}
	}
	// (r1) bitcodes[n]
	if tab, ok := globalTable(p, "bitcodes"); !ok {
		missing(r, "bitcodes", "package-level table not found")
	} else {
		for n, wantName := range specBitcodeOfNibble {
			what := sprintf("bitcodes[0x%X]", n)
			got, ok := ssau.ConstInt(tab[int64(n)])
			switch {
			case tab[int64(n)] == nil || !ok:
				r.Bad("init", "-", what, "no entry for this type code")
			case bcByVal[got] != wantName:
				r.Bad("init", "-", what, "is "+bcByVal[got]+", Ion 1.0 type code maps to "+wantName)
			default:
				r.OK("init", "-", what, "= "+wantName+" (spec)")
			}
		}
		if len(tab) != len(specBitcodeOfNibble) {
			r.Bad("init", "-", "len(bitcodes)", sprintf("table has %d entries, Ion 1.0 defines type codes 0..14 (15 is reserved)", len(tab)))
		}
	}
	// (r2) binaryReader.next: valueType stored per code
	if fn := p.Func(nil, "binaryReader.next"); fn == nil {
		missing(r, "binaryReader.next", "function not found")
	} else {
		path, n := dispatchValue(fn, constOfType("bitcode"))
		if n < 10 {
			missing(r, "binaryReader.next dispatch", sprintf("no value compared with >= 10 bitcode constants (found %d)", n))
		} else {
			ef := ssau.TrackEnum(fn, matchPath(path))
			seen := map[string]map[string]bool{}
			// a helper that stores one of its parameters into valueType (readScalar(typ, readFn)):
			// the store happens, for this rule, at the call, with the constant passed
			paramStore := func(c ssa.CallInstruction) (int64, bool) {
				g := load.Unwrap(c.Common().StaticCallee())
				if g == nil || !p.InModule(g) || len(g.Blocks) == 0 {
					return 0, false
				}
				for _, gb := range g.Blocks {
					for _, gin := range gb.Instrs {
						st, ok := gin.(*ssa.Store)
						if !ok {
							continue
						}
						if _, fl, ok := ssau.FieldOf(st.Addr); !ok || fl != "valueType" {
							continue
						}
						prm, ok := st.Val.(*ssa.Parameter)
						if !ok {
							continue
						}
						for k, q := range g.Params {
							if q == prm && k < len(c.Common().Args) {
								if tv, ok := ssau.ConstInt(c.Common().Args[k]); ok {
									return tv, true
								}
							}
						}
					}
				}
				return 0, false
			}
			for _, b := range fn.Blocks {
				for _, in := range b.Instrs {
					var tv int64
					if ci, isCall := in.(ssa.CallInstruction); isCall {
						v, ok := paramStore(ci)
						if !ok {
							continue
						}
						tv = v
					} else {
						st, ok := in.(*ssa.Store)
						if !ok {
							continue
						}
						if _, fl, ok := ssau.FieldOf(st.Addr); !ok || fl != "valueType" {
							continue
						}
						v, ok := ssau.ConstInt(st.Val)
						if !ok {
							continue
						}
						tv = v
					}
					vs, _ := ef.At(in)
					if !vs.Known() {
						r.Bad(p.FuncName(fn), instrPos(p, in), "valueType = "+typeByVal[tv], "stored on a path where the type code is not pinned to specific codes")
						continue
					}
					for _, k := range vs.Values() {
						kv, _ := atoi64(k)
						bc := bcByVal[kv]
						if seen[bc] == nil {
							seen[bc] = map[string]bool{}
						}
						seen[bc][typeByVal[tv]] = true
					}
				}
			}
			var bcs []string
			for bc := range specTypeOfBitcode {
				bcs = append(bcs, bc)
			}
			sort.Strings(bcs)
			for _, bc := range bcs {
				want := specTypeOfBitcode[bc]
				what := "value type for " + bc
				got := sortedKeys(seen[bc])
				if len(got) == 1 && got[0] == want {
					r.OK(p.FuncName(fn), p.Pos(fn.Pos()), what, "= "+want+" (spec)")
				} else if len(got) == 0 {
					// nothing extracted is not the same as something wrong extracted
					r.Unknown(p.FuncName(fn), p.Pos(fn.Pos()), what, "no constant store of the value type found for this code in next or in a helper it passes the type to: the rule cannot decide (restructured dispatch?)")
				} else {
					r.Bad(p.FuncName(fn), p.Pos(fn.Pos()), what, "reader stores "+strings.Join(got, ",")+" for this code, Ion 1.0 says "+want)
				}
			}
		}
	}
	// float sizes
	if fn := p.Func(nil, "bitstream.ReadFloat"); fn == nil {
		missing(r, "bitstream.ReadFloat", "function not found")
	} else {
		path, n := dispatchValue(fn, isIntConst)
		if n < 2 {
			missing(r, "ReadFloat size dispatch", "no size switch found")
		} else {
			ef := ssau.TrackEnum(fn, matchPath(path))
			ok := map[string]bool{}
			openOK := false
			ei := errResultIndex(fn)
			for _, ret := range returns(fn) {
				if !ssau.IsNilConst(ret.Results[ei]) {
					continue
				}
				vs, reach := ef.At(ret)
				if !reach {
					continue
				}
				if !vs.Known() {
					openOK = true
					continue
				}
				for _, k := range vs.Values() {
					ok[k] = true
				}
			}
			got := strings.Join(sortedKeys(ok), ",")
			if got == "0,4,8" && !openOK {
				r.OK(p.FuncName(fn), p.Pos(fn.Pos()), "accepted float sizes", "= {0,4,8} (spec)")
			} else {
				r.Bad(p.FuncName(fn), p.Pos(fn.Pos()), "accepted float sizes", sprintf("succeeds for sizes {%s} (open default: %v); Ion 1.0 allows exactly 0, 4 and 8", got, openOK))
			}
		}
	}
	return r
}

func instrPosV(p *load.Program, v ssa.Value) string {
	if v != nil && v.Pos().IsValid() {
		return p.Pos(v.Pos())
	}
	return "-"
}

// TabNullKW implements TAB-NULLKW.
func TabNullKW(p *load.Program) *report.RuleResult {
	r := newResult("TAB-NULLKW", "the text writer's typed-null spellings and the text reader's null.<type> dispatch are inverse and equal the 13 Ion type names", 26)
	typeByVal, typeByName := namedConstsOf(p, "Type")
	fn := p.Func(nil, "textReader.readNullType")
	if fn == nil {
		missing(r, "textReader.readNullType", "function not found")
		return r
	}
	path, n := dispatchValue(fn, isStringConst)
	if n < 5 {
		missing(r, "readNullType dispatch", "no string switch found")
		return r
	}
	ef := ssau.TrackEnum(fn, matchPath(path))
	kw := map[string]string{} // keyword -> type name
	for _, ret := range returns(fn) {
		tv, ok := ssau.ConstInt(ret.Results[0])
		if !ok || !ssau.IsNilConst(ret.Results[1]) {
			continue
		}
		vs, _ := ef.At(ret)
		if !vs.Known() {
			r.Bad(p.FuncName(fn), instrPos(p, ret), "open arm", "a type is returned without error for a name outside the listed ones")
			continue
		}
		for _, k := range vs.Values() {
			kw[unquoteExact(k)] = typeByVal[tv]
		}
	}
	var names []string
	for k := range specNullNames {
		names = append(names, k)
	}
	sort.Strings(names)
	for _, k := range names {
		what := "reader: null." + k
		if kw[k] == specNullNames[k] {
			r.OK(p.FuncName(fn), p.Pos(fn.Pos()), what, "-> "+kw[k]+" (spec)")
		} else {
			r.Bad(p.FuncName(fn), p.Pos(fn.Pos()), what, "maps to '"+kw[k]+"', Ion 1.0 says "+specNullNames[k])
		}
	}
	for k, t := range kw {
		if _, ok := specNullNames[k]; !ok {
			r.Bad(p.FuncName(fn), p.Pos(fn.Pos()), "reader: null."+k, "accepted as "+t+" but not an Ion type name")
		}
	}
	tab, ok := globalTable(p, "textNulls")
	if !ok {
		missing(r, "textNulls", "package-level table not found")
		return r
	}
	for _, k := range names {
		tn := specNullNames[k]
		what := "writer: textNulls[" + tn + "]"
		got, ok := ssau.ConstString(tab[typeByName[tn]])
		switch {
		case !ok:
			r.Bad("init", "-", what, "no constant entry")
		case got != "null."+k:
			r.Bad("init", "-", what, "is \""+got+"\", must be \"null."+k+"\" (the reader maps '"+strings.TrimPrefix(got, "null.")+"' to "+kw[strings.TrimPrefix(got, "null.")]+")")
		default:
			r.OK("init", "-", what, "= \"null."+k+"\", read back as "+kw[k])
		}
	}
	if got, ok := ssau.ConstString(tab[typeByName["NoType"]]); !ok || got != "null" {
		r.Bad("init", "-", "writer: textNulls[NoType]", "must be \"null\"")
	} else {
		r.OK("init", "-", "writer: textNulls[NoType]", "= \"null\"")
	}
	return r
}

// escapeReaderTable extracts readEscapedChar's table: escape char -> code
// point, hex escapes -> digit count, and which escapes are refused for clobs.
func escapeReaderTable(p *load.Program, r *report.RuleResult) (plain map[int64]int64, hex map[int64]int64, clobRefused map[int64]bool, fn *ssa.Function) {
	fn = p.Func(nil, "tokenizer.readEscapedChar")
	if fn == nil {
		missing(r, "tokenizer.readEscapedChar", "function not found")
		return
	}
	path, n := dispatchValue(fn, isIntConst)
	if n < 10 {
		missing(r, "readEscapedChar dispatch", "no character switch found")
		return
	}
	ef := ssau.TrackEnum(fn, matchPath(path))
	plain, hex, clobRefused = map[int64]int64{}, map[int64]int64{}, map[int64]bool{}
	ff := ssau.ComputeFacts(fn, nil)
	for _, ret := range returns(fn) {
		vs, _ := ef.At(ret)
		if !vs.Known() {
			continue
		}
		// constant code point, nil error
		if cp, ok := ssau.ConstInt(ret.Results[0]); ok && ssau.IsNilConst(ret.Results[1]) {
			for _, k := range vs.Values() {
				kv, _ := atoi64(k)
				plain[kv] = cp
			}
			continue
		}
		// return t.readHexEscapeSeq(N)
		if ex, ok := ret.Results[0].(*ssa.Extract); ok {
			if c, ok := ex.Tuple.(*ssa.Call); ok && c.Common().StaticCallee() != nil && c.Common().StaticCallee().Name() == "readHexEscapeSeq" {
				if nd, ok := ssau.ConstInt(c.Common().Args[len(c.Common().Args)-1]); ok {
					for _, k := range vs.Values() {
						kv, _ := atoi64(k)
						hex[kv] = nd
					}
				}
				continue
			}
		}
		// error return under isClob == true
		if len(fn.Params) >= 2 && definitelyNonNilError(p, ret.Results[1], 0) {
			if ff.At(ret).Has("true", "p."+fn.Params[1].Name(), "") {
				for _, k := range vs.Values() {
					kv, _ := atoi64(k)
					clobRefused[kv] = true
				}
			}
		}
	}
	return
}

// escapeWriterTable extracts writeEscapedChar's table: byte -> escape letter.
func escapeWriterTable(p *load.Program, r *report.RuleResult) (map[int64]string, *ssa.Function) {
	fn := p.Func(nil, "writeEscapedChar")
	if fn == nil {
		missing(r, "writeEscapedChar", "function not found")
		return nil, nil
	}
	path, n := dispatchValue(fn, isIntConst)
	if n < 5 {
		missing(r, "writeEscapedChar dispatch", "no byte switch found")
		return nil, fn
	}
	ef := ssau.TrackEnum(fn, matchPath(path))
	out := map[int64]string{}
	for _, b := range fn.Blocks {
		for _, in := range b.Instrs {
			c, ok := in.(*ssa.Call)
			if !ok || c.Common().StaticCallee() == nil || c.Common().StaticCallee().Name() != "writeRawString" {
				continue
			}
			s, ok := ssau.ConstString(unwrapIface(c.Common().Args[0]))
			if !ok {
				continue
			}
			vs, _ := ef.At(in)
			if !vs.Known() {
				continue
			}
			for _, k := range vs.Values() {
				kv, _ := atoi64(k)
				out[kv] = s
			}
		}
	}
	return out, fn
}

// TabEscape implements TAB-ESCAPE.
func TabEscape(p *load.Program) *report.RuleResult {
	r := newResult("TAB-ESCAPE", "the text reader's escape table contains the Ion 1.0 escapes with their code points; every escape the writer spells is mapped back to the same byte by the reader; the writers' needs-escaping tests cover delimiter, backslash, control characters (and non-ASCII for clobs)", 30)
	plain, hex, clobRefused, rfn := escapeReaderTable(p, r)
	if rfn == nil || plain == nil {
		return r
	}
	rname := p.FuncName(rfn)
	var ks []int64
	for k := range specEscapes {
		ks = append(ks, k)
	}
	sort.Slice(ks, func(i, j int) bool { return ks[i] < ks[j] })
	for _, k := range ks {
		what := "reader: \\" + string(rune(k))
		if cp, ok := plain[k]; ok && cp == specEscapes[k] {
			r.OK(rname, p.Pos(rfn.Pos()), what, sprintf("-> U+%04X (spec)", cp))
		} else if ok {
			r.Bad(rname, p.Pos(rfn.Pos()), what, sprintf("maps to U+%04X, Ion 1.0 says U+%04X", cp, specEscapes[k]))
		} else {
			r.Bad(rname, p.Pos(rfn.Pos()), what, "escape not recognised by the reader")
		}
	}
	for k, cp := range plain {
		if _, ok := specEscapes[k]; !ok {
			r.Bad(rname, p.Pos(rfn.Pos()), "reader: \\"+string(rune(k)), sprintf("accepted as U+%04X but not an Ion 1.0 escape", cp))
		}
	}
	for _, k := range []int64{'x', 'u', 'U'} {
		what := "reader: \\" + string(rune(k)) + " digits"
		if hex[k] == specHexEscapes[k] {
			r.OK(rname, p.Pos(rfn.Pos()), what, sprintf("%d hex digits (spec)", hex[k]))
		} else {
			r.Bad(rname, p.Pos(rfn.Pos()), what, sprintf("reads %d hex digits, Ion 1.0 says %d", hex[k], specHexEscapes[k]))
		}
	}
	for _, k := range []int64{'u', 'U'} {
		what := "reader: \\" + string(rune(k)) + " refused in clobs"
		if clobRefused[k] {
			r.OK(rname, p.Pos(rfn.Pos()), what, "error on the isClob edge")
		} else {
			r.Bad(rname, p.Pos(rfn.Pos()), what, "Unicode escapes must be rejected inside clobs")
		}
	}
	// writer <-> reader
	wt, wfn := escapeWriterTable(p, r)
	if wfn != nil && wt != nil {
		wname := p.FuncName(wfn)
		var bs []int64
		for b := range wt {
			bs = append(bs, b)
		}
		sort.Slice(bs, func(i, j int) bool { return bs[i] < bs[j] })
		for _, b := range bs {
			s := wt[b]
			what := sprintf("writer: byte 0x%02X spelled %q", b, s)
			if len(s) != 2 || s[0] != '\\' {
				r.Bad(wname, p.Pos(wfn.Pos()), what, "not of the form backslash + one character")
				continue
			}
			// against the specification alone (an independent decoder, C04)
			whatSpec := sprintf("writer-vs-spec: byte 0x%02X spelled %q", b, s)
			if cp, ok := specEscapes[int64(s[1])]; ok && cp == b {
				r.OK(wname, p.Pos(wfn.Pos()), whatSpec, sprintf("Ion 1.0 maps it to U+%04X", cp))
			} else if ok {
				r.Bad(wname, p.Pos(wfn.Pos()), whatSpec, sprintf("Ion 1.0 maps %q to U+%04X", s, cp))
			} else {
				r.Bad(wname, p.Pos(wfn.Pos()), whatSpec, "not an Ion 1.0 escape")
			}
			if cp, ok := plain[int64(s[1])]; ok && cp == b {
				r.OK(wname, p.Pos(wfn.Pos()), what, "reader maps it back to the same byte")
			} else if ok {
				r.Bad(wname, p.Pos(wfn.Pos()), what, sprintf("the reader maps %q to 0x%02X", s, cp))
			} else {
				r.Bad(wname, p.Pos(wfn.Pos()), what, "the reader does not know this escape")
			}
		}
		if len(bs) < 8 {
			r.Bad(wname, p.Pos(wfn.Pos()), "writer escape table", sprintf("only %d single-letter escapes extracted", len(bs)))
		}
		// the default arm must use \x (2 hex digits) which the reader accepts for strings and clobs
		if hex['x'] != 2 {
			r.Bad(wname, p.Pos(wfn.Pos()), "writer: default \\xHH form", "reader does not read exactly two digits for \\x")
		}
	}
	// needs-escaping predicates
	for _, pr := range []struct {
		fn    string
		delim int64
		clob  bool
	}{{"writeEscapedString", '"', false}, {"writeEscapedSymbol", '\'', false}, {"textWriter.WriteClob", '"', true}} {
		fn := p.Func(nil, pr.fn)
		if fn == nil {
			missing(r, pr.fn, "function not found")
			continue
		}
		// the function and the helpers it delegates to (an extracted loop parameterised by the quote
		// character compares with the parameter: the constant is then the argument of the call)
		rc := map[string]bool{}
		for _, g := range helperClosure(p, fn, func(f *ssa.Function) bool {
			return (f.Object() == nil || !f.Object().Exported()) && f.Name() != "writeEscapedChar"
		}, 2) {
			for k := range relationalConsts(g) {
				rc[k] = true
			}
			if g == fn {
				continue
			}
			// comparisons x == param in g, with the constants fn passes for that parameter
			for _, b := range g.Blocks {
				for _, in := range b.Instrs {
					bo, ok := in.(*ssa.BinOp)
					if !ok || bo.Op != token.EQL {
						continue
					}
					for _, o := range []ssa.Value{bo.X, bo.Y} {
						for d := 0; d < 2; d++ {
							if cv, ok := o.(*ssa.Convert); ok {
								o = cv.X
							}
						}
						prm, ok := o.(*ssa.Parameter)
						if !ok {
							continue
						}
						idx := -1
						for i, q := range g.Params {
							if q == prm {
								idx = i
							}
						}
						for _, b2 := range fn.Blocks {
							for _, in2 := range b2.Instrs {
								if c, ok := in2.(ssa.CallInstruction); ok && load.Unwrap(c.Common().StaticCallee()) == g && idx >= 0 && idx < len(c.Common().Args) {
									if k, ok := ssau.ConstInt(c.Common().Args[idx]); ok {
										rc["eq:"+strconv.FormatInt(k, 10)] = true
									}
								}
							}
						}
					}
				}
			}
		}
		need := []string{"lt:32", "eq:92", "eq:" + strconv.FormatInt(pr.delim, 10)}
		if pr.clob {
			need = append(need, "gt:127")
		}
		for _, nd := range need {
			what := "writer: " + pr.fn + " escapes when " + nd
			// the same boundary spelled from the other side: c < 32 escapes  ==  c > 31 does not
			alt := ""
			if k, err := strconv.ParseInt(nd[3:], 10, 64); err == nil {
				switch nd[:3] {
				case "lt:":
					alt = "gt:" + strconv.FormatInt(k-1, 10)
				case "gt:":
					alt = "lt:" + strconv.FormatInt(k+1, 10)
				}
			}
			if rc[nd] || (alt != "" && rc[alt]) || (strings.HasPrefix(nd, "eq:") && rc["ne:"+nd[3:]]) {
				r.OK(p.FuncName(fn), p.Pos(fn.Pos()), what, "comparison present")
			} else {
				r.Bad(p.FuncName(fn), p.Pos(fn.Pos()), what, "the needs-escaping test lacks this case (found: "+strings.Join(sortedKeys(rc), " ")+")")
			}
		}
	}
	return r
}

// TabKeyword implements TAB-KEYWORD.
func TabKeyword(p *load.Program) *report.RuleResult {
	r := newResult("TAB-KEYWORD", "every identifier-shaped text the text reader gives a non-symbol meaning is forced into quotes by the text writer, and the set equals the Ion keywords", 8)
	reader := map[string]bool{}
	for _, fnn := range []string{"textReader.onSymbol", "textReader.verifyUnquotedSymbol"} {
		fn := p.Func(nil, fnn)
		if fn == nil {
			missing(r, fnn, "function not found")
			continue
		}
		for k := range constsComparedIn(fn, isStringConst) {
			reader[unquoteExact(k)] = true
		}
	}
	wfn := p.Func(nil, "symbolNeedsQuoting")
	if wfn == nil {
		missing(r, "symbolNeedsQuoting", "function not found")
		return r
	}
	// texts for which symbolNeedsQuoting returns true outright
	path, _ := dispatchValue(wfn, isStringConst)
	ef := ssau.TrackEnum(wfn, matchPath(path))
	writer := map[string]bool{}
	for _, ret := range returns(wfn) {
		if c, ok := ret.Results[0].(*ssa.Const); ok && c.Value != nil && c.Value.ExactString() == "true" {
			if vs, _ := ef.At(ret); vs.Known() {
				for _, k := range vs.Values() {
					writer[unquoteExact(k)] = true
				}
			}
		}
	}
	for _, k := range sortedKeys(reader) {
		what := "reader keyword '" + k + "'"
		if writer[k] {
			r.OK(p.FuncName(wfn), p.Pos(wfn.Pos()), what, "quoted by the writer")
		} else {
			r.Bad(p.FuncName(wfn), p.Pos(wfn.Pos()), what, "the reader reads this text as a non-symbol value but the writer would emit it unquoted")
		}
	}
	for _, k := range specKeywords {
		what := "Ion keyword '" + k + "'"
		if writer[k] && reader[k] {
			r.OK(p.FuncName(wfn), p.Pos(wfn.Pos()), what, "known to reader and writer")
		} else {
			r.Bad(p.FuncName(wfn), p.Pos(wfn.Pos()), what, sprintf("reader knows it: %v, writer quotes it: %v", reader[k], writer[k]))
		}
	}
	// the text the text reader takes for a version marker when it stands unquoted at top level
	ivm := regexp.MustCompile(`^\$ion_[0-9]+_[0-9]+$`)
	for _, fn := range sortedFuncs(p) {
		if p.InTest(fn) || !strings.HasSuffix(p.File(fn.Pos()), "textreader.go") {
			continue
		}
		for k := range constsComparedIn(fn, isStringConst) {
			k = unquoteExact(k)
			if !ivm.MatchString(k) {
				continue
			}
			what := "version marker '" + k + "' recognised by " + p.FuncName(fn)
			if writer[k] {
				r.OK(p.FuncName(wfn), p.Pos(wfn.Pos()), what, "quoted by the writer")
			} else {
				r.Bad(p.FuncName(wfn), p.Pos(wfn.Pos()), what, "the reader takes this text, unquoted at top level, for a version marker, but the writer emits a symbol with this text unquoted: the value disappears and the symbol table is reset on reading back")
			}
		}
	}
	if !writer[""] {
		r.Bad(p.FuncName(wfn), p.Pos(wfn.Pos()), "empty symbol", "the empty symbol must be written quoted")
	} else {
		r.OK(p.FuncName(wfn), p.Pos(wfn.Pos()), "empty symbol", "quoted by the writer")
	}
	return r
}

// stringArgsOf lists constant string arguments passed to calls of callee in fn.
func stringArgsOf(fn *ssa.Function, callee string) map[string]bool {
	out := map[string]bool{}
	for _, b := range fn.Blocks {
		for _, in := range b.Instrs {
			c, ok := in.(ssa.CallInstruction)
			if !ok {
				continue
			}
			sc := c.Common().StaticCallee()
			if sc == nil || sc.Name() != callee {
				continue
			}
			for _, a := range c.Common().Args {
				if s, ok := ssau.ConstString(unwrapIface(a)); ok {
					out[s] = true
				}
			}
		}
	}
	return out
}

// TabLstFields implements TAB-LSTFIELDS.
func TabLstFields(p *load.Program) *report.RuleResult {
	r := newResult("TAB-LSTFIELDS", "the field names and the annotation the local symbol table writer emits are exactly those the symbol table reader dispatches on (imports, symbols; name, version, max_id; $ion_symbol_table)", 7)
	w := p.Func(nil, "lst.WriteTo")
	rl := p.Func(nil, "readLocalSymbolTable")
	ri := p.Func(nil, "readImport")
	is := p.Func(nil, "isIonSymbolTable")
	for n, f := range map[string]*ssa.Function{"lst.WriteTo": w, "readLocalSymbolTable": rl, "readImport": ri, "isIonSymbolTable": is} {
		if f == nil {
			missing(r, n, "function not found")
		}
	}
	if w == nil || rl == nil || ri == nil || is == nil {
		return r
	}
	// each of the three functions together with the steps extracted from it into unexported helpers
	unexp := func(f *ssa.Function) bool {
		return (f.Object() == nil || !f.Object().Exported()) && f != w && f != rl && f != ri && f != is && f.Name() != "NewSymbolToken"
	}
	written := map[string]bool{}
	closure := helperClosure(p, w, unexp, 2)
	for _, g := range closure {
		for k := range stringArgsOf(g, "NewSymbolToken") {
			written[k] = true
		}
		// writeTableFieldName(w, t, "imports"): the name is a parameter of the helper that calls
		// NewSymbolToken; the constants are at the helper's call sites inside the closure
		for _, b := range g.Blocks {
			for _, in := range b.Instrs {
				c, ok := in.(ssa.CallInstruction)
				if !ok {
					continue
				}
				sc := c.Common().StaticCallee()
				if sc == nil || sc.Name() != "NewSymbolToken" {
					continue
				}
				for _, a := range c.Common().Args {
					prm, ok := unwrapIface(a).(*ssa.Parameter)
					if !ok {
						continue
					}
					idx := -1
					for k, q := range g.Params {
						if q == prm {
							idx = k
						}
					}
					for _, h := range closure {
						for _, hb := range h.Blocks {
							for _, hin := range hb.Instrs {
								if hc, ok := hin.(ssa.CallInstruction); ok && load.Unwrap(hc.Common().StaticCallee()) == g && idx >= 0 && idx < len(hc.Common().Args) {
									if sv, ok := ssau.ConstString(unwrapIface(hc.Common().Args[idx])); ok {
										written[sv] = true
									}
								}
							}
						}
					}
				}
			}
		}
	}
	table := map[string]bool{}
	for _, g := range helperClosure(p, rl, func(f *ssa.Function) bool {
		return unexp(f) && ScopeLST.has(p, f) && f.Name() != "readImports" && f.Name() != "readSymbols"
	}, 2) {
		for k := range constsComparedIn(g, isStringConst) {
			table[unquoteExact(k)] = true
		}
	}
	imp := map[string]bool{}
	for _, g := range helperClosure(p, ri, func(f *ssa.Function) bool { return unexp(f) && ScopeLST.has(p, f) }, 2) {
		for k := range constsComparedIn(g, isStringConst) {
			imp[unquoteExact(k)] = true
		}
	}
	delete(imp, "")
	delete(imp, "$ion")
	for _, k := range sortedKeys(written) {
		what := "written field '" + k + "'"
		if table[k] || imp[k] {
			r.OK(p.FuncName(w), p.Pos(w.Pos()), what, "dispatched on by the reader")
		} else {
			r.Bad(p.FuncName(w), p.Pos(w.Pos()), what, "the symbol table reader has no case for this field name, so what the writer declares is ignored on read")
		}
	}
	for _, k := range append(sortedKeys(table), sortedKeys(imp)...) {
		what := "read field '" + k + "'"
		if written[k] {
			r.OK(p.FuncName(rl), p.Pos(rl.Pos()), what, "emitted by the writer")
		} else {
			r.Bad(p.FuncName(rl), p.Pos(rl.Pos()), what, "the reader expects this field but lst.WriteTo never writes it")
		}
	}
	for _, k := range []string{"imports", "symbols"} {
		if !table[k] {
			r.Bad(p.FuncName(rl), p.Pos(rl.Pos()), "table field '"+k+"'", "readLocalSymbolTable does not dispatch on it")
		}
	}
	for _, k := range []string{"name", "version", "max_id"} {
		if !imp[k] {
			r.Bad(p.FuncName(ri), p.Pos(ri.Pos()), "import field '"+k+"'", "readImport does not dispatch on it")
		}
	}
	// annotation text
	ann := map[string]bool{}
	for _, b := range w.Blocks {
		for _, in := range b.Instrs {
			if st, ok := in.(*ssa.Store); ok {
				if s, ok := ssau.ConstString(st.Val); ok && strings.HasPrefix(s, "$ion") {
					ann[s] = true
				}
			}
		}
	}
	tested := map[string]bool{}
	for k := range constsComparedIn(is, isStringConst) {
		tested[unquoteExact(k)] = true
	}
	for _, k := range sortedKeys(ann) {
		if tested[k] {
			r.OK(p.FuncName(w), p.Pos(w.Pos()), "annotation '"+k+"'", "tested by isIonSymbolTable")
		} else {
			r.Bad(p.FuncName(w), p.Pos(w.Pos()), "annotation '"+k+"'", "isIonSymbolTable tests "+strings.Join(sortedKeys(tested), ",")+": a table the writer emits would surface as a user value")
		}
	}
	if len(ann) == 0 {
		r.Bad(p.FuncName(w), p.Pos(w.Pos()), "annotation", "no $ion… annotation text found in lst.WriteTo")
	}
	return r
}

// TabToken implements TAB-TOKEN.
func TabToken(p *load.Program) *report.RuleResult {
	r := newResult("TAB-TOKEN", "every token the tokenizer hands out as an unfinished value has a skip arm, and every value-starting token has an arm in the text reader's value dispatch", 25)
	tokByVal, tokByName := namedConstsOf(p, "token")
	next := p.Func(nil, "tokenizer.Next")
	skip := p.Func(nil, "tokenizer.skipValue")
	nb := p.Func(nil, "textReader.nextBeforeTypeAnnotations")
	scan := p.Func(nil, "tokenizer.scanForNumericType")
	for n, f := range map[string]*ssa.Function{"tokenizer.Next": next, "tokenizer.skipValue": skip, "textReader.nextBeforeTypeAnnotations": nb, "tokenizer.scanForNumericType": scan} {
		if f == nil {
			missing(r, n, "function not found")
		}
	}
	if next == nil || skip == nil || nb == nil || scan == nil {
		return r
	}
	// tokens returned by scanForNumericType
	scanToks := map[int64]bool{}
	for _, ret := range returns(scan) {
		if ssau.IsNilConst(ret.Results[1]) {
			collectConsts(ret.Results[0], scanToks, 0)
		}
	}
	unfinished := map[int64]bool{}
	finished := map[int64]bool{}
	for _, b := range next.Blocks {
		for _, in := range b.Instrs {
			c, ok := in.(*ssa.Call)
			if !ok || c.Common().StaticCallee() == nil || c.Common().StaticCallee().Name() != "ok" {
				continue
			}
			args := c.Common().Args
			toks := map[int64]bool{}
			collectConsts(args[1], toks, 0)
			if len(toks) == 0 {
				// token computed by scanForNumericType
				for k := range scanToks {
					toks[k] = true
				}
			}
			more, isConst := args[2].(*ssa.Const)
			for k := range toks {
				if isConst && more.Value != nil && more.Value.ExactString() == "true" {
					unfinished[k] = true
				} else {
					finished[k] = true
				}
			}
		}
	}
	arms := func(fn *ssa.Function) map[int64]bool {
		out := map[int64]bool{}
		for k := range constsComparedIn(fn, constOfType("token")) {
			v, _ := atoi64(k)
			out[v] = true
		}
		return out
	}
	skipArms, valArms := arms(skip), arms(nb)
	var us []int64
	for k := range unfinished {
		us = append(us, k)
	}
	sort.Slice(us, func(i, j int) bool { return us[i] < us[j] })
	eof := tokByName["tokenEOF"]
	for _, k := range us {
		what := "skip arm for " + tokByVal[k]
		switch {
		case k == eof:
			r.OK(p.FuncName(skip), p.Pos(skip.Pos()), what, "exception: tokenEOF is never skipped (textReader.Next returns on eof first; ERR-ABSORB-R)")
		case skipArms[k]:
			r.OK(p.FuncName(skip), p.Pos(skip.Pos()), what, "present")
		default:
			r.Bad(p.FuncName(skip), p.Pos(skip.Pos()), what, "tokenizer.Next hands this token out as unfinished but skipValue has no arm for it: skipping such a value panics or desynchronises the reader")
		}
	}
	valueToks := map[int64]bool{}
	for k := range unfinished {
		valueToks[k] = true
	}
	for _, n := range []string{"tokenFloatInf", "tokenFloatMinusInf"} {
		if finished[tokByName[n]] {
			valueToks[tokByName[n]] = true
		}
	}
	var vs []int64
	for k := range valueToks {
		vs = append(vs, k)
	}
	sort.Slice(vs, func(i, j int) bool { return vs[i] < vs[j] })
	for _, k := range vs {
		what := "value arm for " + tokByVal[k]
		if valArms[k] {
			r.OK(p.FuncName(nb), p.Pos(nb.Pos()), what, "present")
		} else {
			r.Bad(p.FuncName(nb), p.Pos(nb.Pos()), what, "the tokenizer produces this value-starting token but the text reader's value dispatch has no arm for it")
		}
	}
	return r
}

func collectConsts(v ssa.Value, out map[int64]bool, depth int) {
	if depth > 5 {
		return
	}
	switch x := v.(type) {
	case *ssa.Const:
		if k, ok := ssau.ConstInt(x); ok {
			out[k] = true
		}
	case *ssa.Phi:
		for _, e := range x.Edges {
			collectConsts(e, out, depth+1)
		}
	}
}

// TabNibble implements TAB-NIBBLE.
func TabNibble(p *load.Program) *report.RuleResult {
	r := newResult("TAB-NIBBLE", "every type code for which bitstream.Next gives the tag's low nibble a meaning other than the body length is special-cased the same way by validateAnnotatedValue before it compares the nibble with the wrapper's remaining length", 2)
	next := p.Func(nil, "bitstream.Next")
	val := p.Func(nil, "bitstream.validateAnnotatedValue")
	if next == nil {
		missing(r, "bitstream.Next", "function not found")
	}
	if val == nil {
		missing(r, "bitstream.validateAnnotatedValue", "function not found")
	}
	if next == nil || val == nil {
		return r
	}
	bcByVal, _ := namedConstsOf(p, "bitcode")
	// the nibble: second result of parseTag
	var nib, code ssa.Value
	for _, b := range next.Blocks {
		for _, in := range b.Instrs {
			if ex, ok := in.(*ssa.Extract); ok {
				if c, ok := ex.Tuple.(*ssa.Call); ok && c.Common().StaticCallee() != nil && c.Common().StaticCallee().Name() == "parseTag" {
					if ex.Index == 1 {
						nib = ex
					} else {
						code = ex
					}
				}
			}
		}
	}
	if nib == nil || code == nil {
		missing(r, "parseTag results in bitstream.Next", "not found")
		return r
	}
	ef := ssau.TrackEnum(next, func(v ssa.Value) bool { return v == code })
	// phis that merge the nibble with a redefinition: the redefining edge's code set
	reinterpret := map[int64]bool{}
	al := map[ssa.Value]bool{nib: true}
	for changed := true; changed; {
		changed = false
		for _, b := range next.Blocks {
			for _, in := range b.Instrs {
				ph, ok := in.(*ssa.Phi)
				if !ok || al[ph] {
					continue
				}
				for _, e := range ph.Edges {
					if al[e] {
						al[ph] = true
						changed = true
						break
					}
				}
			}
		}
	}
	for _, b := range next.Blocks {
		for _, in := range b.Instrs {
			ph, ok := in.(*ssa.Phi)
			if !ok || !al[ph] {
				continue
			}
			for i, e := range ph.Edges {
				if al[e] {
					continue
				}
				pred := b.Preds[i]
				// the code set on the edge pred -> b
				vs, ok := edgeValueSet(ef, pred, b, func(v ssa.Value) bool { return v == code })
				if ok && vs.Known() {
					for _, k := range vs.Values() {
						kv, _ := atoi64(k)
						reinterpret[kv] = true
					}
				}
			}
		}
	}
	special := map[int64]bool{}
	for k := range constsComparedIn(val, constOfType("bitcode")) {
		v, _ := atoi64(k)
		special[v] = true
	}
	var ks []int64
	for k := range reinterpret {
		ks = append(ks, k)
	}
	sort.Slice(ks, func(i, j int) bool { return ks[i] < ks[j] })
	for _, k := range ks {
		what := "nibble reinterpreted for " + bcByVal[k]
		if special[k] {
			r.OK(p.FuncName(val), p.Pos(val.Pos()), what, "validateAnnotatedValue special-cases this code")
		} else {
			r.Bad(p.FuncName(val), p.Pos(val.Pos()), what, "bitstream.Next replaces the length nibble for this type code, but validateAnnotatedValue compares the raw nibble with the wrapper length: valid annotated values of this type are rejected")
		}
	}
	if len(ks) < 2 {
		missing(r, "nibble reinterpretations in bitstream.Next", sprintf("found %d, expected struct (L=1) and bool", len(ks)))
	}
	return r
}

// edgeValueSet returns the tracked value's set on the edge from -> to.
func edgeValueSet(ef *ssau.EnumFlow, from, to *ssa.BasicBlock, match func(ssa.Value) bool) (ssau.ValueSet, bool) {
	// recompute with a one-edge program: the set at 'to' would be a join; use the
	// source block's set refined by the branch condition.
	vs, ok := ef.AtBlock(from)
	if !ok {
		return ssau.ValueSet{}, false
	}
	for si, s := range from.Succs {
		if s == to {
			return ssau.RefineOnEdge(from, si, vs, match), true
		}
	}
	return ssau.ValueSet{}, false
}

var _ = token.EQL
