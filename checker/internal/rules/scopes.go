package rules

// Scopes used by the registry. A scope names files, not functions, so moving
// or renaming a function inside the reader (writer) keeps it in scope.

// ReaderFiles hold everything between the input bytes and the Reader API.
var ReaderFiles = []string{"reader.go", "textreader.go", "tokenizer.go", "skipper.go", "bitstream.go", "binaryreader.go", "readlocalsymboltable.go"}

// WriterFiles hold everything between the Writer API and the output bytes.
var WriterFiles = []string{"writer.go", "textwriter.go", "textutils.go", "binarywriter.go", "buf.go", "bits.go"}

// ScopeReader is the input path of package ion.
var ScopeReader = Scope{Name: "reader files of package ion", Pkgs: []string{"ion"}, Files: ReaderFiles}

// ScopeIO is the input path and the output path of package ion.
var ScopeIO = Scope{Name: "reader and writer files of package ion", Pkgs: []string{"ion"}, Files: append(append([]string{}, ReaderFiles...), WriterFiles...)}

// ScopeIon is all of package ion.
var ScopeIon = Scope{Name: "package ion", Pkgs: []string{"ion"}}

// ScopeCmd is the ion-go command.
var ScopeCmd = Scope{Name: "cmd/ion-go", Pkgs: []string{"cmd"}}

// ScopeLST is the local symbol table reader.
var ScopeLST = Scope{Name: "readlocalsymboltable.go", Pkgs: []string{"ion"}, Files: []string{"readlocalsymboltable.go"}}

// ScopeUnmarshal is the decoder.
var ScopeUnmarshal = Scope{Name: "unmarshal.go", Pkgs: []string{"ion"}, Files: []string{"unmarshal.go"}}

// SwapSuppReader: one symbol, one reason (DESIGN §3.1).
var SwapSuppReader = []suppression{
	{fn: "(*tokenizer).readRadix", callee: "peek", reason: "the peek after the radix marker is served from the push-back buffer (scanForNumericType already pulled the next bytes), so its error branch, which returns the wrong variable, is unreachable; confirmed with an I/O-fault run (the fault is reported as IOError)"},
}

// ScopeWriter is the output path of package ion.
var ScopeWriter = Scope{Name: "writer files of package ion", Pkgs: []string{"ion"}, Files: WriterFiles}

// ScopeDecimal is decimal.go.
var ScopeDecimal = Scope{Name: "decimal.go", Pkgs: []string{"ion"}, Files: []string{"decimal.go"}}

// ScopeText is the text tokenizer.
var ScopeText = Scope{Name: "text tokenizer files of package ion", Pkgs: []string{"ion"}, Files: []string{"tokenizer.go", "skipper.go", "textutils.go", "textreader.go"}}
