#!/bin/sh
# Builds the static checker from files on disk only (offline).
set -e
export GOFLAGS=-mod=mod GOPROXY=off GOSUMDB=off GOTOOLCHAIN=local
unset GOWORK
cd /verif/checker
mkdir -p /verif/bin /verif/evidence
go build -o /verif/bin/ionlint ./cmd/ionlint
# warm the build cache with export data of /repo's dependencies (speeds up the first check)
(cd /repo && go build ./... >/dev/null 2>&1 || true)
echo "ionlint built"
