#!/usr/bin/env python3
"""Quick look at which stored seeded changes the current checker catches (development aid).

Unlike tools/seed_check.py this does NOT touch /repo and does not re-confirm the seeds: each seed gets its own scratch
worktree of /repo's HEAD under /tmp (removed afterwards), the patch is applied there and one `ionlint -all` process
analyses it (IONLINT_REPO=<worktree>, evidence into a scratch directory). Several seeds run in parallel.
usage: seed_fast.py [--bin /path/to/ionlint] [name ...]
"""
import json, os, subprocess, sys, shutil, glob, re, concurrent.futures

ENV = dict(os.environ, GOFLAGS="-mod=mod", GOPROXY="off", GOSUMDB="off", GOTOOLCHAIN="local")
ENV.pop("GOWORK", None)


def sh(cmd, cwd=None, env=None):
    p = subprocess.run(cmd, shell=True, cwd=cwd, env=env or ENV, stdout=subprocess.PIPE, stderr=subprocess.STDOUT, text=True)
    return p.returncode, p.stdout


def main():
    args = sys.argv[1:]
    binp = "/verif/bin/ionlint"
    if args and args[0] == "--bin":
        binp = args[1]
        args = args[2:]
    base = "HEAD"
    if args and args[0] == "--base":
        base = args[1]
        args = args[2:]
    names = args or sorted(os.path.basename(d.rstrip("/")) for d in glob.glob("/verif/seeded/*/"))

    def one(name):
        wt = f"/tmp/seedfast-{name}"
        ev = f"/tmp/seedfast-ev-{name}"
        sh(f"git worktree remove --force {wt}", "/repo")
        rc, out = sh(f"git worktree add --detach {wt} {base}", "/repo")
        try:
            rc, out = sh(f"git apply /verif/seeded/{name}/patch.diff", wt)
            if rc != 0:
                return name, "STALE", {}, []
            os.makedirs(ev + "/evidence", exist_ok=True)
            shutil.copy("/verif/known_findings.json", ev)
            env = dict(ENV, IONLINT_REPO=wt, IONLINT_VERIF=ev)
            rc, out = sh(f"{binp} -all -tier quick", "/verif", env)
            codes = dict(re.findall(r"== (C\d\d) exit (\d)", out))
            rules = set()
            for p, c in codes.items():
                vf = f"{ev}/evidence/{p}.violations.json"
                if c == "1" and os.path.exists(vf):
                    for v in json.load(open(vf)).get("violations", []):
                        rules.add(v.get("rule"))
            return name, "ok", codes, sorted(r for r in rules if r)
        finally:
            sh(f"git worktree remove --force {wt}", "/repo")
            shutil.rmtree(ev, ignore_errors=True)

    n = c = t = 0
    with concurrent.futures.ThreadPoolExecutor(6) as ex:
        for name, st, codes, rules in ex.map(one, names):
            meta = json.load(open(f"/verif/seeded/{name}/meta.json"))
            pid = meta.get("breaks_property") or meta.get("property")
            caught = sorted(p for p, x in codes.items() if x == "1")
            errs = sorted(p for p, x in codes.items() if x not in ("0", "1"))
            n += 1
            c += 1 if caught else 0
            t += 1 if pid in caught else 0
            print(name, st, "caught_by=", caught, rules, ("CHECKER-ERROR " + ",".join(errs)) if errs else "", flush=True)
    print(f"{n} seeds; caught by some check: {c}; by the property's own check: {t}")


if __name__ == "__main__":
    main()
