#!/usr/bin/env python3
"""Confirms a seeded change produced by a sub-agent and runs the checks against it.

usage: seed_eval.py <ID> <k> [--keep]     (reads $SEED_SRC/out/<ID>/{patch<k>.diff,demo<k>_test.go,meta<k>.json}; SEED_SRC defaults to /tmp/seed;
       the result is stored as /verif/seeded/<ID>-$SEED_TAG<k>)

1. in the scratch worktree /tmp/seed/wt-<ID>: patch applies, builds, vets, the 972-test baseline
   still passes, the demonstration fails with the patch and passes without it;
2. applies the patch to /repo, runs every claimed property's quick check (own process each),
   records which exit 1 with a VIOLATION line, and undoes the patch (git checkout -- .);
3. with --keep (or when everything in 1. is confirmed) stores /verif/seeded/<ID>-<k>/.
Nothing is ever committed to /repo.
"""
import json, os, subprocess, sys, shutil, re, concurrent.futures

ENV = dict(os.environ, GOFLAGS="-mod=mod", GOPROXY="off", GOSUMDB="off", GOTOOLCHAIN="local")
ENV.pop("GOWORK", None)


def sh(cmd, cwd=None, timeout=1200):
    p = subprocess.run(cmd, shell=True, cwd=cwd, env=ENV, stdout=subprocess.PIPE, stderr=subprocess.STDOUT, text=True, timeout=timeout)
    return p.returncode, p.stdout


def clean(wt):
    sh("git checkout -- . && git clean -fdq", wt)


def main():
    pid, k = sys.argv[1], sys.argv[2]
    root = os.environ.get("SEED_SRC", "/tmp/seed")   # second round: SEED_SRC=/tmp/seed2 SEED_TAG=r2-
    tag = os.environ.get("SEED_TAG", "")
    src = f"{root}/out/{pid}"
    wt = f"{root}/wt-{pid}"
    patch = f"{src}/patch{k}.diff"
    demo = f"{src}/demo{k}_test.go"
    meta = json.load(open(f"{src}/meta{k}.json"))
    test = f"TestSeed{pid}_{k}"
    demo_src = open(demo).read()
    pkgdir = "cmd/ion-go" if re.search(r"^package main", demo_src, re.M) else "ion"
    res = {"property": pid, "k": k}
    clean(wt)
    rc, out = sh(f"git apply --check {patch} && git apply {patch}", wt)
    res["applies"] = rc == 0
    if rc != 0:
        print(out)
    touched = sh("git diff --name-only", wt)[1].split()
    res["files"] = touched
    res["only_non_test_source"] = all(f.endswith(".go") and not f.endswith("_test.go") for f in touched) and bool(touched)
    rc, out = sh("go build ./... && go vet ./...", wt)
    res["builds_and_vets"] = rc == 0
    rc, out = sh(f"sh /verif/tools/baseline.sh {wt}")
    res["baseline"] = out.strip().splitlines()[-1] if out.strip() else ""
    res["baseline_ok"] = rc == 0
    race = " -race" if "-race" in meta.get("demo_cmd", "") else ""
    shutil.copy(demo, f"{wt}/{pkgdir}/zz_seed_demo_test.go")
    rc, out = sh(f"go test -vet=off -count=1{race} -run '^{test}$' ./{pkgdir}/", wt)
    res["demo_fails_with_patch"] = rc != 0 and ("FAIL" in out)
    res["demo_output_with_patch"] = out[-1500:]
    clean(wt)
    shutil.copy(demo, f"{wt}/{pkgdir}/zz_seed_demo_test.go")
    rc, out = sh(f"go test -vet=off -count=1{race} -run '^{test}$' -v ./{pkgdir}/", wt)
    res["demo_passes_without_patch"] = rc == 0 and (f"--- PASS: {test}" in out)
    clean(wt)
    confirmed = all(res[x] for x in ["applies", "only_non_test_source", "builds_and_vets", "baseline_ok", "demo_fails_with_patch", "demo_passes_without_patch"])
    res["confirmed"] = confirmed

    # run the checks against /repo with the patch applied
    det = {}
    lock = None
    if confirmed:
        # several properties may be evaluated in parallel; /repo is shared
        import fcntl
        lock = open("/tmp/seed-eval-repo.lock", "w")
        fcntl.flock(lock, fcntl.LOCK_EX)
        st = sh("git status --porcelain", "/repo")[1].strip()
        if st:
            print("/repo not clean:", st)
            sys.exit(2)
        man = json.load(open("/verif/MANIFEST.json"))
        props = [c["property_id"] for c in man["checks"]]
        rc, out = sh(f"git apply {patch}", "/repo")
        try:
            if rc != 0:
                print("apply to /repo failed", out)
            else:
                evdir = "%s/ev-%s-%s" % (root, pid, k)
                os.makedirs(evdir + "/evidence", exist_ok=True)
                shutil.copy("/verif/known_findings.json", evdir)
                if os.path.isdir("/verif/checker/controls"):
                    pass

                env = dict(ENV, IONLINT_VERIF=evdir)
                pr = subprocess.run(["/verif/bin/ionlint", "-all", "-tier", "quick"], cwd="/verif", env=env, stdout=subprocess.PIPE, stderr=subprocess.STDOUT, text=True)
                codes = dict(re.findall(r"== (C\d\d) exit (\d)", pr.stdout))
                for p in props:
                    code = int(codes.get(p, "2"))
                    viol = []
                    vf = f"{evdir}/evidence/{p}.violations.json"
                    if code == 1 and os.path.exists(vf):
                        for v in json.load(open(vf)).get("violations", []):
                            viol.append({"rule": v.get("rule"), "key": v.get("key"), "pos": v.get("pos"), "detail": (v.get("detail") or "")[:300]})
                    det[p] = {"exit": code, "violations": viol}
                    if code not in (0, 1):
                        det[p]["tail"] = pr.stdout[-400:]
                shutil.rmtree(evdir, ignore_errors=True)
        finally:
            sh("git checkout -- .", "/repo")
            lock.close()
    res["detection"] = det
    caught_by = [p for p, d in det.items() if d["exit"] == 1]
    errors = [p for p, d in det.items() if d["exit"] not in (0, 1)]
    res["caught_by"] = caught_by
    res["checker_errors"] = errors
    res["caught_by_target"] = pid in caught_by
    print(json.dumps({k2: v for k2, v in res.items() if k2 not in ("demo_output_with_patch", "detection")}, indent=1))
    for p in caught_by:
        for v in det[p]["violations"][:4]:
            print("  ", p, v.get("rule"), v.get("key"), "|", (v.get("detail") or "")[:160])
    for p in errors:
        print("  CHECKER-ERROR in", p, det[p].get("tail", "")[-300:])
    if confirmed or "--keep" in sys.argv:
        d = f"/verif/seeded/{pid}-{tag}{k}"
        os.makedirs(d, exist_ok=True)
        shutil.copy(patch, f"{d}/patch.diff")
        shutil.copy(demo, f"{d}/demo_test.go")
        m = dict(meta)
        m["breaks_property"] = pid
        m["demo"] = {"file": "demo_test.go", "package_dir": pkgdir, "test": test, "run": f"copy demo_test.go into {pkgdir}/ of a worktree with patch.diff applied; go test -vet=off -count=1{race} -run '^{test}$' ./{pkgdir}/"}
        m["confirmed_by_main_session"] = {x: res[x] for x in ["applies", "only_non_test_source", "builds_and_vets", "baseline", "baseline_ok", "demo_fails_with_patch", "demo_passes_without_patch"]}
        m["checks_run"] = "the rules of every claimed property (ionlint -all -tier quick: one load, the same rules as the 20 quick commands, controls off) against /repo with patch.diff applied (git apply; checks; git checkout -- .)"
        m["caught_by"] = caught_by
        m["caught_by_target_property"] = pid in caught_by
        m["reported"] = {p: det[p]["violations"][:6] for p in caught_by}
        json.dump(m, open(f"{d}/meta.json", "w"), indent=1)
        print("stored", d)


if __name__ == "__main__":
    main()
