#!/bin/sh
# Runs /repo's test suite (guard off: there are no hooks) and compares the set of
# passing tests with stable_pass in /root/.vp/BASELINE.json. Usage: baseline.sh [repo-dir]
REPO=${1:-/repo}
export GOFLAGS=-mod=mod GOPROXY=off GOSUMDB=off GOTOOLCHAIN=local
unset GOWORK
OUT=$(mktemp)
(cd "$REPO" && go test -json -vet=off -count=1 ./... > "$OUT" 2>/dev/null)
python3 - "$OUT" <<'PY'
import json,sys
base=set(json.load(open('/root/.vp/BASELINE.json'))['stable_pass'])
got=set()
for l in open(sys.argv[1]):
    try: e=json.loads(l)
    except Exception: continue
    if e.get('Action')=='pass' and e.get('Test'):
        got.add(e['Package']+'::'+e['Test'])
miss=sorted(base-got)
print("baseline %d, passing now %d, missing %d"%(len(base),len(got&base),len(miss)))
for m in miss[:20]: print("  MISSING",m)
sys.exit(1 if miss else 0)
PY
rc=$?
rm -f "$OUT"
exit $rc
