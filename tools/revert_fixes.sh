#!/bin/sh
# Development aid (not registered in MANIFEST): for every fix: commit whose defect a claimed
# rule decides, revert it on a scratch copy of /repo and run the property's quick check against
# that copy. Each must exit 1 with a VIOLATION line. Scratch data lives under $TMPDIR and is removed.
export GOFLAGS=-mod=mod GOPROXY=off GOSUMDB=off GOTOOLCHAIN=local
unset GOWORK
T=$(mktemp -d "${TMPDIR:-/tmp}/ionlint-revert.XXXXXX")
trap 'rm -rf "$T"' EXIT
mkdir -p "$T/verif/checker"
cp /verif/known_findings.json /verif/properties.jsonl "$T/verif/"
cp -r /verif/checker/controls "$T/verif/checker/"
bad=0
while read -r c props; do
  rm -rf "$T/repo"; cp -r /repo "$T/repo"
  # a+b reverts b together with a (b depends on a)
  (cd "$T/repo" && git revert --no-edit --no-commit $(echo "$c" | tr '+' ' ') >/dev/null 2>&1) || { echo "cannot revert $c (skipped)"; continue; }
  for p in $props; do
    out=$(IONLINT_REPO="$T/repo" IONLINT_VERIF="$T/verif" /verif/bin/ionlint -property "$p" -tier quick 2>&1); rc=$?
    n=$(printf '%s\n' "$out" | grep -c '^  violation')
    echo "revert $c -> $p: exit $rc, $n violation(s): $(printf '%s\n' "$out" | grep '^  violation' | head -1 | cut -c1-140)"
    [ "$rc" = 1 ] || bad=1
  done
done <<'L'
6bc3b7e C12
37d3cbe C12 C19
d10e888 C12 C19
2d0aa84 C07 C19
7283a33 C06
eae1928 C06 C10
82175ff C06 C17
fd335fa C20
ac94d5c C07 C19
cace6a2 C03
f19f367 C07
f95eace C12
cb54208 C07
93027e6 C15
b58a47f C16
cde81dc C06
ca15c59 C05
f27bc41 C05 C04 C01
bbed24c C14 C13
dd7eb35 C13 C03
27f5dbd C15
cc7d7ae C06
989c59c C16
7fc86f4 C06 C15
73f3e19 C03
5b435ac C06 C03
84ffd44 C03
6bbdeea+2a11884 C10
150fd1a C16
6bbdeea C01 C04
abbd290 C07
7436121+3fa8016 C07 C02
7c11c0f C02
9e9da05 C02 C08
b68498d C02 C07
7436121 C02
2f5747e C16 C17
L
exit $bad
