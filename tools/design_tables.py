#!/usr/bin/env python3
"""Regenerates the generated tables of DESIGN.md (between <!-- BEGIN x --> / <!-- END x --> markers)
from evidence/*.json, seeded/*/meta.json and checker/controls/core.json. Prose is never touched."""
import json, glob, os, re, subprocess

V = "/verif"


def claimed_table():
    rows = ["| id | rules (obligations today) | total |", "|----|---------------------------|-------|"]
    for f in sorted(glob.glob(f"{V}/evidence/C??.json")):
        e = json.load(open(f))
        cov = e["coverage"]
        rules = ", ".join(f"{r['id']} ({r['instances']})" for r in cov.get("rules", []))
        known = sum(r.get("known", 0) for r in cov.get("rules", []))
        extra = f"; {known} known finding(s)" if known else ""
        rows.append(f"| {os.path.basename(f)[:-5]} | {rules}{extra} | {cov.get('obligations')} |")
    return "\n".join(rows)


def seeded_table():
    rows = ["| seed | written against | site | what it needs to manifest | reported when first evaluated | reported today (rule) |", "|------|-----------------|------|---------------------------|------------------------------|-----------------------|"]
    stats = {}
    for d in sorted(glob.glob(f"{V}/seeded/*/meta.json")):
        m = json.load(open(d))
        name = d.split("/")[-2]
        rnd = "round 1" if "-r" not in name else "round " + name.split("-r")[1][0]
        pid = m.get("breaks_property") or m.get("property")
        caught = m.get("caught_by", [])
        rules = sorted({v.get("rule") for p in caught for v in m.get("reported", {}).get(p, []) if v.get("rule")})
        ai = m.get("at_import")
        if ai is None:
            first = "(same run)" if "-r" in name else "(not kept)"
            first_c = bool(caught) if "-r" in name else None
        else:
            first = (", ".join(ai.get("rules", [])) or "reported") if ai.get("caught_by") else "—"
            first_c = bool(ai.get("caught_by"))
        stale = m.get("confirmed_on", {}).get("applies") is False
        st = stats.setdefault(rnd, dict(n=0, first=0, now=0, target=0, stale=0))
        st["n"] += 1
        st["stale"] += 1 if stale else 0
        st["first"] += 1 if first_c else 0
        st["now"] += 1 if caught else 0
        st["target"] += 1 if pid in caught else 0
        ce = sorted((m.get("checker_errors") or {}).keys())
        cb = (", ".join(caught) + " (" + ", ".join(rules) + ")") if caught else ("stale: no longer applies (the defect it rested on was repaired)" if stale else ("cannot decide: CHECKER-ERROR in " + ", ".join(ce) + " (an anchor of a rule is gone)" if ce else "— not reported"))
        site = (m.get("site") or "").replace("|", "/")[:70]
        needs = (m.get("needs") or "").replace("|", "/").replace("\n", " ")
        if len(needs) > 150:
            needs = needs[:147] + "..."
        rows.append(f"| {name} | {pid} | {site} | {needs} | {first} | {cb} |")
    rows.append("")
    for rnd in sorted(stats):
        st = stats[rnd]
        rows.append(f"{rnd}: {st['n']} seeded changes ({st['stale']} stale); reported when first evaluated: {st['first'] if rnd != 'round 1' else '11 (first pass of the previous revision)'}; reported today: {st['now']}, of which {st['target']} by the check of the property they were written against.  ")
    return "\n".join(rows)


def controls_table():
    ms = json.load(open(f"{V}/checker/controls/core.json"))
    by = {}
    for m in ms:
        b = by.setdefault(m["rule"], [0, 0])
        b[0 if m["kind"] == "break" else 1] += 1
    rows = ["| rule | break mutants | behaviour-preserving mutants |", "|------|---------------|------------------------------|"]
    for r in sorted(by):
        rows.append(f"| {r} | {by[r][0]} | {by[r][1]} |")
    rows.append("")
    rows.append(f"{len(ms)} mutants: {sum(b[0] for b in by.values())} break, {sum(b[1] for b in by.values())} behaviour-preserving.")
    return "\n".join(rows)


def refactors_table():
    silent = undec = false = stale = 0
    first_any = 0
    rows = ["| refactoring | kind | site | at first run | today |", "|-------------|------|------|--------------|-------|"]
    for d in sorted(glob.glob(f"{V}/refactors/*/meta.json"), key=lambda x: [int(t) for t in re.findall(r"\d+", x.split("/")[-2])]):
        m = json.load(open(d))
        name = d.split("/")[-2]
        now = m.get("alarms_now", [])
        first = m.get("first_run_alarms", [])
        first_any += 1 if first else 0
        if m.get("status") in ("NOAPPLY", "NOBUILD"):
            stale += 1
            today = "no longer applies (conflicts with a later fix: commit)"
        elif any(not a.startswith("ERR") for a in now):
            false += 1
            today = "false VIOLATION: " + "; ".join(sorted({a.split(" ")[1] for a in now if not a.startswith("ERR")}))
        elif now:
            undec += 1
            today = "cannot decide (exit 2, no VIOLATION line)"
        else:
            silent += 1
            if not first:
                continue
            today = "silent"
        f1 = "; ".join(sorted({(a.split(" ")[1] if not a.startswith("ERR") else "cannot decide") for a in first})) or "silent"
        rows.append(f"| {name} | {(m.get('kind') or '')[:60].replace('|', '/')} | {(m.get('site') or '')[:60].replace('|', '/')} | {f1} | {today} |")
    rows.append("")
    rows.append(f"{silent + undec + false + stale} refactorings: {silent} silent today, {undec} cannot decide, {false} false VIOLATION, {stale} no longer apply; {first_any} raised something when first run (rows above: everything that raised something then or does now).")
    return "\n".join(rows)


def main():
    p = f"{V}/DESIGN.md"
    s = open(p).read()
    for key, fn in [("claimed", claimed_table), ("seeded", seeded_table), ("controls", controls_table), ("refactors", refactors_table)]:
        pat = re.compile(r"(<!-- BEGIN %s -->\n).*?(<!-- END %s -->)" % (key, key), re.S)
        if not pat.search(s):
            print("marker missing:", key)
            continue
        s = pat.sub(lambda m: m.group(1) + fn() + "\n" + m.group(2), s)
    open(p, "w").write(s)
    print("DESIGN.md tables regenerated")


if __name__ == "__main__":
    main()
