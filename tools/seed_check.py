#!/usr/bin/env python3
"""Re-confirms stored seeded changes against /repo's HEAD and runs the claimed checks on them.

usage: seed_check.py [name ...]        (default: every directory under /verif/seeded)

For each /verif/seeded/<name>/{patch.diff, demo_test.go, meta.json}:
 1. in a scratch worktree of /repo's HEAD (under /tmp, removed at the end): the patch applies, builds, vets,
    the 972-test baseline still passes, the demonstration fails with the patch and passes without it;
 2. git -C /repo apply patch.diff; the rules of every claimed property (ionlint -all -tier quick: one load, the same
    rules as the 20 quick commands, evidence written to a scratch directory, controls off); git -C /repo checkout -- .
    (nothing is ever committed to /repo);
 3. meta.json is updated: confirmed_on (commit), caught_by, reported violations.
Prints one line per seed and a summary table.
"""
import json, os, subprocess, sys, shutil, re, concurrent.futures, glob

ENV = dict(os.environ, GOFLAGS="-mod=mod", GOPROXY="off", GOSUMDB="off", GOTOOLCHAIN="local")
ENV.pop("GOWORK", None)
WT = "/tmp/seedcheck-wt" + os.environ.get("SHARD", "")


def sh(cmd, cwd=None, timeout=1800, env=None):
    p = subprocess.run(cmd, shell=True, cwd=cwd, env=env or ENV, stdout=subprocess.PIPE, stderr=subprocess.STDOUT, text=True, timeout=timeout)
    return p.returncode, p.stdout


def clean():
    sh("git checkout -- . && git clean -fdq", WT)


def main():
    names = sys.argv[1:] or sorted(os.path.basename(d.rstrip("/")) for d in glob.glob("/verif/seeded/*/"))
    if not os.environ.get("SHARD") and sh("git status --porcelain", "/repo")[1].strip():
        print("/repo is not clean")
        sys.exit(2)
    head = sh("git rev-parse --short HEAD", "/repo")[1].strip()
    sh(f"git worktree remove --force {WT}", "/repo")
    rc, out = sh(f"git worktree add --detach {WT} HEAD", "/repo")
    if rc != 0:
        print(out)
        sys.exit(2)
    man = json.load(open("/verif/MANIFEST.json"))
    props = [c["property_id"] for c in man["checks"]]
    rows = []
    try:
        for name in names:
            d = f"/verif/seeded/{name}"
            meta = json.load(open(f"{d}/meta.json"))
            pid = meta.get("breaks_property") or meta.get("property")
            test = meta["demo"]["test"]
            pkgdir = meta["demo"]["package_dir"]
            race = " -race" if "-race" in meta["demo"].get("run", "") else ""
            res = {}
            clean()
            rc, out = sh(f"git apply --check {d}/patch.diff && git apply {d}/patch.diff", WT)
            res["applies"] = rc == 0
            if rc != 0:
                rows.append((name, pid, "STALE: patch does not apply to " + head, []))
                meta["confirmed_on"] = {"commit": head, "applies": False}
                json.dump(meta, open(f"{d}/meta.json", "w"), indent=1)
                continue
            rc, out = sh("go build ./... && go vet ./...", WT)
            res["builds_and_vets"] = rc == 0
            rc, out = sh(f"sh /verif/tools/baseline.sh {WT}")
            res["baseline"] = out.strip().splitlines()[-1] if out.strip() else ""
            res["baseline_ok"] = rc == 0
            shutil.copy(f"{d}/demo_test.go", f"{WT}/{pkgdir}/zz_seed_demo_test.go")
            rc, out = sh(f"go test -vet=off -count=1{race} -run '^{test}$' ./{pkgdir}/", WT)
            res["demo_fails_with_patch"] = rc != 0 and "FAIL" in out
            clean()
            shutil.copy(f"{d}/demo_test.go", f"{WT}/{pkgdir}/zz_seed_demo_test.go")
            rc, out = sh(f"go test -vet=off -count=1{race} -run '^{test}$' -v ./{pkgdir}/", WT)
            res["demo_passes_without_patch"] = rc == 0 and f"--- PASS: {test}" in out
            clean()
            ok = all(res[k] for k in ["builds_and_vets", "baseline_ok", "demo_fails_with_patch", "demo_passes_without_patch"])
            res["commit"] = head
            meta["confirmed_on"] = res
            det = {}
            if ok:
                import fcntl
                lock = open("/tmp/seed-eval-repo.lock", "w")
                fcntl.flock(lock, fcntl.LOCK_EX)
                rc, out = sh(f"git apply {d}/patch.diff", "/repo")
                try:
                    evdir = f"/tmp/seedcheck-ev-{name}"
                    os.makedirs(evdir + "/evidence", exist_ok=True)
                    shutil.copy("/verif/known_findings.json", evdir)

                    env = dict(ENV, IONLINT_VERIF=evdir)
                    pr = subprocess.run(["/verif/bin/ionlint", "-all", "-tier", "quick"], cwd="/verif", env=env, stdout=subprocess.PIPE, stderr=subprocess.STDOUT, text=True)
                    codes = dict(re.findall(r"== (C\d\d) exit (\d)", pr.stdout))
                    for p in props:
                        code = int(codes.get(p, "2"))
                        viol = []
                        vf = f"{evdir}/evidence/{p}.violations.json"
                        if code == 1 and os.path.exists(vf):
                            for v in json.load(open(vf)).get("violations", []):
                                viol.append({"rule": v.get("rule"), "key": v.get("key"), "pos": v.get("pos"), "detail": (v.get("detail") or "")[:240]})
                        det[p] = {"exit": code, "violations": viol, "tail": pr.stdout[-400:] if code not in (0, 1) else ""}
                    shutil.rmtree(evdir, ignore_errors=True)
                finally:
                    sh("git checkout -- .", "/repo")
                    lock.close()
            caught = sorted(p for p, x in det.items() if x["exit"] == 1)
            errs = sorted(p for p, x in det.items() if x["exit"] not in (0, 1))
            if "at_import" not in meta:
                # what the checks of the day reported when the change was first evaluated (before any rule was written in response to it)
                meta["at_import"] = {"caught_by": meta.get("caught_by", []), "rules": sorted({v.get("rule") for p2 in meta.get("caught_by", []) for v in meta.get("reported", {}).get(p2, []) if v.get("rule")})}
            meta["caught_by"] = caught
            meta["caught_by_target_property"] = pid in caught
            meta["checker_errors"] = {p: det[p]["tail"][-200:] for p in errs}
            meta["reported"] = {p: det[p]["violations"][:5] for p in caught}
            json.dump(meta, open(f"{d}/meta.json", "w"), indent=1)
            status = "ok" if ok else "NOT CONFIRMED " + json.dumps({k: v for k, v in res.items() if v is False})
            rules = sorted({v["rule"] for p in caught for v in det[p]["violations"] if v.get("rule")})
            rows.append((name, pid, status + (" CHECKER-ERROR in " + ",".join(errs) if errs else ""), caught, rules))
            print(name, pid, status, "caught_by=", caught, rules, flush=True)
    finally:
        sh(f"git worktree remove --force {WT}", "/repo")
    n = len([r for r in rows if r[2].startswith("ok")])
    c = len([r for r in rows if r[2].startswith("ok") and r[3]])
    t = len([r for r in rows if r[2].startswith("ok") and r[1] in r[3]])
    print(f"\nconfirmed on {head}: {n} of {len(rows)}; caught by some check: {c}; caught by the check of the property it was written against: {t}")
    for r in rows:
        if not r[2].startswith("ok"):
            print("  ", r[0], r[2])


if __name__ == "__main__":
    main()
