#!/bin/sh
# Development aid (not registered in MANIFEST). usage: rebase_patches.sh OLDBASE dir...   (dir contains patch.diff); rewrites patch.diff against /repo HEAD when needed
export GOFLAGS=-mod=mod GOPROXY=off GOSUMDB=off GOTOOLCHAIN=local; unset GOWORK
old=$1; shift
W=/tmp/rebasewt
git -C /repo worktree remove --force $W 2>/dev/null
git -C /repo worktree add -q --detach $W HEAD
head=$(git -C /repo rev-parse HEAD)
for d in "$@"; do
  git -C $W checkout -q --detach $head; git -C $W reset -q --hard; git -C $W clean -fdq
  if git -C $W apply --check $d/patch.diff 2>/dev/null; then continue; fi
  git -C $W checkout -q --detach $old
  if ! git -C $W apply $d/patch.diff 2>/dev/null; then echo "$(basename $d): does not apply to old base either"; continue; fi
  git -C $W add -A; git -C $W -c user.name=x -c user.email=x@x commit -qm tmp
  c=$(git -C $W rev-parse HEAD)
  git -C $W checkout -q --detach $head
  if git -C $W cherry-pick -n $c >/dev/null 2>&1; then
    if (cd $W && go build ./... >/dev/null 2>&1); then
      [ -f $d/patch.orig.diff ] || cp $d/patch.diff $d/patch.orig.diff
      git -C $W diff HEAD > $d/patch.diff
      echo "$(basename $d): rebased"
    else echo "$(basename $d): rebased but does not build"; fi
  else
    git -C $W cherry-pick --abort 2>/dev/null; git -C $W reset -q --hard
    echo "$(basename $d): CONFLICT"
  fi
done
git -C /repo worktree remove --force $W
