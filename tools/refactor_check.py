#!/usr/bin/env python3
"""Runs every claimed check against the behaviour-preserving refactorings kept under /verif/refactors/<id>/patch.diff
(written by sub-agents that saw nothing of /verif). Each is applied in its own scratch worktree of /repo's HEAD (under /tmp,
removed afterwards) and analysed with IONLINT_REPO=<worktree>; /repo is not touched. Expected: no alarm at all. Prints the
alarms (VIOLATION or CHECKER-ERROR) per refactoring and updates meta.json (alarms_now). usage: refactor_check.py [patch ...]"""
import json, os, subprocess, sys, shutil, glob, re, concurrent.futures
ENV = dict(os.environ, GOFLAGS="-mod=mod", GOPROXY="off", GOSUMDB="off", GOTOOLCHAIN="local"); ENV.pop("GOWORK", None)
BIN = os.environ.get("IONLINT_BIN", "/verif/bin/ionlint")
def sh(cmd, cwd=None, env=None):
    p = subprocess.run(cmd, shell=True, cwd=cwd, env=env or ENV, stdout=subprocess.PIPE, stderr=subprocess.STDOUT, text=True)
    return p.returncode, p.stdout
def one(path):
    name = path.split("/")[-2]
    wt = f"/tmp/refac-eval-{name}"; ev = f"/tmp/refac-ev-{name}"
    sh(f"git worktree remove --force {wt}", "/repo")
    sh(f"git worktree add --detach {wt} HEAD", "/repo")
    try:
        rc, out = sh(f"git apply {path}", wt)
        if rc != 0: return name, "NOAPPLY", {}, []
        rc, out = sh("go build ./...", wt)
        if rc != 0: return name, "NOBUILD", {}, []
        os.makedirs(ev + "/evidence", exist_ok=True); shutil.copy("/verif/known_findings.json", ev)
        rc, out = sh(f"{BIN} -all -tier quick", "/verif", dict(ENV, IONLINT_REPO=wt, IONLINT_VERIF=ev))
        codes = dict(re.findall(r"== (C\d\d) exit (\d)", out))
        viol = []
        for p_, c in codes.items():
            vf = f"{ev}/evidence/{p_}.violations.json"
            if c == "1" and os.path.exists(vf):
                for v in json.load(open(vf)).get("violations", []):
                    viol.append((p_, v.get("rule"), v.get("key"), (v.get("detail") or "")[:200]))
        errs = re.findall(r"CHECKER-ERROR[^\n]*", out)
        return name, "ok" if codes else "NOCODES", codes, viol + [("ERR", "", e[:200], "") for e in errs]
    finally:
        sh(f"git worktree remove --force {wt}", "/repo"); shutil.rmtree(ev, ignore_errors=True)
paths = sys.argv[1:] or sorted(glob.glob("/verif/refactors/*/patch.diff"))
with concurrent.futures.ThreadPoolExecutor(4) as ex:
    for name, st, codes, viol in ex.map(one, paths):
        bad = sorted(p_ for p_, c in codes.items() if c != "0")
        print(name, st, "alarms=", bad, flush=True)
        mp = f"/verif/refactors/{name}/meta.json"
        if os.path.exists(mp):
            m = json.load(open(mp)); m["status"] = st; m["alarms_now"] = sorted({f"{v[0]} {v[1]} {v[2]}"[:200] for v in viol}); json.dump(m, open(mp, "w"), indent=1)
        seen = set()
        for v in viol:
            if (v[1], v[2]) in seen: continue
            seen.add((v[1], v[2])); print("    ", v[0], v[1], "|", v[2], "|", v[3][:160])
