#!/usr/bin/env python3
"""Validate /verif/evidence/<id>.json (all claimed checks) against the evidence schema
and MANIFEST.json against the manifest schema. Development aid; not part of any check."""
import json, sys, os
try:
    import jsonschema
except ImportError:
    sys.path.insert(0, '/opt/veriftools/pyvenv/lib/python3.11/site-packages')
    import jsonschema
ev = json.load(open('/root/.vp/EVIDENCE.schema.json'))
ms = json.load(open('/root/.vp/MANIFEST.schema.json'))
man = json.load(open('/verif/MANIFEST.json'))
bad = 0
try:
    jsonschema.validate(man, ms)
    print('MANIFEST ok')
except jsonschema.ValidationError as e:
    print('MANIFEST INVALID:', e.message); bad = 1
for c in man['checks']:
    p = c['evidence_file']
    if not os.path.exists(p):
        print(c['property_id'], 'MISSING evidence'); bad = 1; continue
    d = json.load(open(p))
    try:
        jsonschema.validate(d, ev)
        assert d['property_id'] == c['property_id']
        assert d['level'] == c['level_claimed']['category']
        print(c['property_id'], 'ok', d['tier'], 'obl', d['coverage'].get('obligations'), 'viol', d.get('violations'))
    except Exception as e:
        print(c['property_id'], 'INVALID:', getattr(e, 'message', e)); bad = 1
sys.exit(bad)
